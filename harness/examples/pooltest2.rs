fn main() {
    let n: usize = std::env::args().nth(1).and_then(|s| s.parse().ok()).unwrap_or(5);
    let t = std::time::Instant::now();
    std::thread::scope(|sc| {
        for w in 0..n {
            sc.spawn(move || {
                for i in 0..60 {
                    let mut eg = egglog::EGraph::default().with_num_threads(3);
                    eg.parse_and_run_program(None, "(datatype M (A) (B) (F M)) (F (A)) (F (B)) (union (A) (B)) (check (= (F (A)) (F (B))))").unwrap();
                    let mut c = eg.clone();
                    c.parse_and_run_program(None, "(check (= (A) (B)))").unwrap();
                    if i % 20 == 19 {
                        println!("worker {w} iter {i}: {:?}", t.elapsed());
                    }
                }
            });
        }
    });
    println!("done {:?}", t.elapsed());
}
