#![no_main]
//! One libFuzzer entry point for every byte-decoded stage of the harness: the stage is chosen by the
//! environment variable VERIF_FUZZ_STAGE (e.g. "C16/table-ops"); the bytes are decoded by the same
//! choice-stream decoder proptest uses, the same oracle runs, and a violation that is not a known
//! finding aborts (so libFuzzer saves the input).
use libfuzzer_sys::fuzz_target;

fuzz_target!(|data: &[u8]| {
    vh::registry::fuzz_one(data);
});
