//! Choice-stream decoder: every generator in the harness is a *decoder* from a
//! byte string. proptest generates and shrinks the bytes, libFuzzer mutates the
//! same bytes. When the stream is exhausted every choice is 0, so shorter /
//! smaller byte strings decode to simpler cases (shrinking works).

pub struct Src<'a> {
    data: &'a [u8],
    pos: usize,
}

impl<'a> Src<'a> {
    pub fn new(data: &'a [u8]) -> Self {
        Src { data, pos: 0 }
    }
    pub fn exhausted(&self) -> bool {
        self.pos >= self.data.len()
    }
    pub fn consumed(&self) -> usize {
        self.pos
    }
    pub fn byte(&mut self) -> u8 {
        let b = self.data.get(self.pos).copied().unwrap_or(0);
        self.pos += 1;
        b
    }
    pub fn u16(&mut self) -> u16 {
        let hi = self.byte() as u16;
        let lo = self.byte() as u16;
        (hi << 8) | lo
    }
    /// A value in `0..n`, monotone in the underlying byte(s) (so that shrinking
    /// the byte shrinks the choice). `n == 0` returns 0.
    pub fn below(&mut self, n: usize) -> usize {
        if n <= 1 {
            return 0;
        }
        if n <= 256 {
            let b = self.byte() as usize;
            (b * n) >> 8
        } else {
            let b = self.u16() as usize;
            (b * n.min(65536)) >> 16
        }
    }
    pub fn range(&mut self, lo: i64, hi_incl: i64) -> i64 {
        debug_assert!(hi_incl >= lo);
        lo + self.below((hi_incl - lo + 1) as usize) as i64
    }
    pub fn bool(&mut self) -> bool {
        self.byte() & 1 == 1
    }
    /// true with probability num/den (false when the stream is exhausted)
    pub fn chance(&mut self, num: usize, den: usize) -> bool {
        let v = self.below(den);
        v >= den - num.min(den) && !(num == 0)
    }
    pub fn pick<'b, T>(&mut self, xs: &'b [T]) -> &'b T {
        let i = self.below(xs.len());
        &xs[i]
    }
    pub fn pick_weighted(&mut self, weights: &[usize]) -> usize {
        let total: usize = weights.iter().sum();
        if total == 0 {
            return 0;
        }
        let mut v = self.below(total);
        for (i, w) in weights.iter().enumerate() {
            if v < *w {
                return i;
            }
            v -= *w;
        }
        weights.len() - 1
    }
    /// i64 biased to small and interesting values
    pub fn small_i64(&mut self) -> i64 {
        match self.below(16) {
            0..=9 => self.range(0, 5),
            10..=12 => self.range(-3, 12),
            13 => self.range(-100, 100),
            14 => *self.pick(&[i64::MAX, i64::MIN, i64::MAX - 1, i64::MIN + 1, 1 << 32, -(1 << 32)]),
            _ => {
                let mut v: u64 = 0;
                for _ in 0..8 {
                    v = (v << 8) | self.byte() as u64;
                }
                v as i64
            }
        }
    }
    pub fn rest(&mut self) -> &'a [u8] {
        let r = if self.pos < self.data.len() { &self.data[self.pos..] } else { &[] };
        self.pos = self.data.len();
        r
    }
}

/// FNV-1a, used for case keys / distinctness (deterministic, no RandomState).
pub fn fnv(bytes: &[u8]) -> u64 {
    let mut h: u64 = 0xcbf29ce484222325;
    for b in bytes {
        h ^= *b as u64;
        h = h.wrapping_mul(0x100000001b3);
    }
    h
}
pub fn fnv_str(s: &str) -> u64 {
    fnv(s.as_bytes())
}
pub fn mix(a: u64, b: u64) -> u64 {
    let mut x = a ^ b.wrapping_mul(0x9E3779B97F4A7C15);
    x ^= x >> 30;
    x = x.wrapping_mul(0xbf58476d1ce4e5b9);
    x ^= x >> 27;
    x = x.wrapping_mul(0x94d049bb133111eb);
    x ^= x >> 31;
    x
}
