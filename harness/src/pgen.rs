//! Typed, grammar-based generator of egglog programs (decoder from a choice
//! stream). Construction, not rejection: every produced program is well-typed
//! and grounded by construction.

use crate::choice::Src;
use crate::prog::*;

#[derive(Clone, Debug)]
pub struct GenCfg {
    pub max_cmds: usize,
    pub min_cmds: usize,
    pub two_sorts: bool,
    pub funcs: bool,
    pub containers: bool,
    pub subsume: bool,
    pub delete: bool,
    pub generative: bool,
    pub schedules: bool,
    pub push_pop: bool,
    pub observe: bool,
    pub rule_opts: bool,
    pub costs: bool,
    pub until: bool,
    pub combined: bool,
    pub rewrites: bool,
    pub max_run: usize,
    pub panics: bool,
    pub extract_cmds: bool,
    pub faults: bool,
    pub big_costs: bool,
    /// never produce empty container literals ((vec-of), (set-of), ..)
    pub no_empty_containers: bool,
    /// no top-level (subsume ..) / (delete ..) commands (rule heads may still contain them)
    pub no_toplevel_subsume_delete: bool,
    /// a constructor / relation never mixes two different container sorts in its arguments
    pub one_container_sort_per_table: bool,
    /// lattice functions are never keyed by a container
    pub no_container_func_keys: bool,
}

impl Default for GenCfg {
    fn default() -> Self {
        GenCfg {
            max_cmds: 14,
            min_cmds: 3,
            two_sorts: true,
            funcs: true,
            containers: false,
            subsume: false,
            delete: false,
            generative: true,
            schedules: true,
            push_pop: false,
            observe: true,
            rule_opts: true,
            costs: false,
            until: true,
            combined: true,
            rewrites: true,
            max_run: 3,
            panics: false,
            extract_cmds: false,
            faults: false,
            big_costs: false,
            no_empty_containers: false,
            no_toplevel_subsume_delete: false,
            one_container_sort_per_table: false,
            no_container_func_keys: false,
        }
    }
}

pub struct Gen<'a, 'b> {
    pub src: &'a mut Src<'b>,
    pub cfg: GenCfg,
    pub sig: Sig,
    /// ground term pool per type
    pub pool: Vec<(Ty, Term)>,
    /// per ruleset (index 0 = default ruleset, i+1 = sig.rulesets[i]): all rules so far closed?
    pub closed: Vec<bool>,
    pub has_rules: Vec<bool>,
    pub depth: usize,
    var_counter: usize,
    rule_counter: usize,
}

type Env = Vec<(String, Ty)>;

impl<'a, 'b> Gen<'a, 'b> {
    pub fn new(src: &'a mut Src<'b>, cfg: GenCfg) -> Self {
        Gen { src, cfg, sig: Sig::default(), pool: vec![], closed: vec![], has_rules: vec![], depth: 0, var_counter: 0, rule_counter: 0 }
    }

    // ---------------------------------------------------------------- signature

    pub fn gen_sig(&mut self) {
        let s = &mut *self.src;
        let mut sig = Sig::default();
        sig.sorts.push("S".into());
        if self.cfg.two_sorts && s.chance(1, 3) {
            sig.sorts.push("T".into());
        }
        if self.cfg.containers {
            let n = 1 + s.below(3);
            for i in 0..n {
                let kind = *s.pick(&[ContKind::Vec, ContKind::Set, ContKind::MultiSet]);
                // nesting chains up to three levels: K1 over K0, K2 over K1 (deep dirty-id propagation)
                let elem = if i >= 1 && sig.conts.len() == i && s.chance(1, 2) { Ty::Cont(i - 1) } else { Ty::Eq(s.below(sig.sorts.len())) };
                if sig.conts.iter().any(|c: &ContDecl| c.kind == kind && c.elem == elem) {
                    continue;
                }
                sig.conts.push(ContDecl { name: format!("K{i}"), kind, elem });
            }
        }
        let big = self.cfg.big_costs;
        let cost = |s: &mut Src, on: bool| -> Option<i64> {
            if on && s.chance(1, 2) {
                if big && s.chance(1, 4) {
                    Some(*s.pick(&[i64::MAX, i64::MAX - 1, i64::MAX / 2, i64::MAX / 3 + 1]))
                } else {
                    Some(*s.pick(&[0, 1, 2, 3, 5, 10]))
                }
            } else {
                None
            }
        };
        // leaves
        for si in 0..sig.sorts.len() {
            let n = 2 + s.below(3);
            for i in 0..n {
                let c = cost(s, self.cfg.costs);
                sig.funcs.push(FuncDecl {
                    name: format!("{}{}", if si == 0 { "a" } else { "b" }, i),
                    kind: FKind::Ctor { cost: c, unextractable: false },
                    args: vec![],
                    out: Ty::Eq(si),
                });
            }
        }
        if s.chance(1, 2) {
            let c = cost(s, self.cfg.costs);
            sig.funcs.push(FuncDecl { name: "Num".into(), kind: FKind::Ctor { cost: c, unextractable: false }, args: vec![Ty::I64], out: Ty::Eq(0) });
        }
        // inner constructors
        let n_inner = 1 + s.below(3);
        for i in 0..n_inner {
            let out = Ty::Eq(s.below(sig.sorts.len()));
            let arity = 1 + s.below(if i == 0 { 1 } else { 3 }).min(2);
            let mut args = vec![];
            for _ in 0..arity {
                args.push(self_arg_ty(s, &sig, self.cfg.containers, true));
            }
            if i == 0 {
                // guarantee a unary S->S constructor: towers F^k(a)
                args = vec![Ty::Eq(0)];
            }
            let c = cost(s, self.cfg.costs);
            let unext = self.cfg.costs && s.chance(1, 8);
            sig.funcs.push(FuncDecl { name: format!("F{i}"), kind: FKind::Ctor { cost: c, unextractable: unext }, args, out: if i == 0 { Ty::Eq(0) } else { out } });
        }
        if self.cfg.containers {
            // a second unary S->S constructor (wrapper that rewrites collapse), for the in-place container rebuild shapes
            sig.funcs.push(FuncDecl { name: "U".into(), kind: FKind::Ctor { cost: None, unextractable: false }, args: vec![Ty::Eq(0)], out: Ty::Eq(0) });
            // constructor wrapping each container so that containers are stored in rows
            for ci in 0..sig.conts.len() {
                sig.funcs.push(FuncDecl { name: format!("W{ci}"), kind: FKind::Ctor { cost: None, unextractable: false }, args: vec![Ty::Cont(ci)], out: Ty::Eq(0) });
            }
        }
        // relations
        let n_rel = 1 + s.below(3);
        for i in 0..n_rel {
            let arity = 1 + s.below(3);
            let mut args = vec![];
            for _ in 0..arity {
                args.push(self_arg_ty(s, &sig, self.cfg.containers, false));
            }
            sig.funcs.push(FuncDecl { name: format!("R{i}"), kind: FKind::Rel, args, out: Ty::I64 });
        }
        // lattice functions
        if self.cfg.funcs {
            let n_f = s.below(3);
            for i in 0..n_f {
                let arity = 1 + s.below(2);
                let mut args = vec![];
                for _ in 0..arity {
                    // with containers on, functions may be keyed by a container of e-classes (a table with an
                    // eq-container column and no eq-sort column at all)
                    if self.cfg.containers && !self.cfg.no_container_func_keys && !sig.conts.is_empty() && s.chance(1, 4) {
                        args.push(Ty::Cont(s.below(sig.conts.len())));
                    } else {
                        args.push(if s.chance(2, 3) { Ty::Eq(s.below(sig.sorts.len())) } else { Ty::I64 });
                    }
                }
                let (out, merge) = match s.below(6) {
                    0 | 1 => (Ty::I64, Merge::Min),
                    2 => (Ty::I64, Merge::Max),
                    3 => (Ty::I64, Merge::MinNested),
                    4 => (Ty::Bool, Merge::Or),
                    _ => (Ty::Bool, Merge::And),
                };
                sig.funcs.push(FuncDecl { name: format!("G{i}"), kind: FKind::Func { merge }, args, out });
            }
        }
        if self.cfg.faults {
            sig.funcs.push(FuncDecl { name: "NM".into(), kind: FKind::Func { merge: Merge::NoMerge }, args: vec![Ty::Eq(0)], out: Ty::I64 });
            if !sig.funcs.iter().any(|f| f.is_func() && f.out == Ty::I64 && !matches!(f.kind, FKind::Func { merge: Merge::NoMerge })) {
                sig.funcs.push(FuncDecl { name: "GI".into(), kind: FKind::Func { merge: Merge::Max }, args: vec![Ty::I64], out: Ty::I64 });
            }
        }
        let n_rs = s.below(3);
        for i in 0..n_rs {
            sig.rulesets.push(format!("rs{i}"));
        }
        if self.cfg.combined && sig.rulesets.len() >= 2 && s.chance(1, 2) {
            sig.combined.push(("comb".into(), vec![0, 1]));
        }
        if self.cfg.one_container_sort_per_table {
            for f in sig.funcs.iter_mut() {
                let first = f.args.iter().find(|a| matches!(a, Ty::Cont(_))).cloned();
                if let Some(first) = first {
                    for a in f.args.iter_mut() {
                        if matches!(a, Ty::Cont(_)) {
                            *a = first.clone();
                        }
                    }
                }
            }
        }
        self.closed = vec![true; 1 + sig.rulesets.len()];
        self.has_rules = vec![false; 1 + sig.rulesets.len()];
        self.sig = sig;
        self.build_pool();
    }

    fn build_pool(&mut self) {
        let mut pool: Vec<(Ty, Term)> = vec![];
        for (fi, f) in self.sig.funcs.iter().enumerate() {
            if f.is_ctor() && f.args.is_empty() {
                pool.push((f.out.clone(), Term::App(fi, vec![])));
            }
        }
        // depth 1..3
        for _round in 0..3 {
            let n_new = 2 + self.src.below(4);
            for _ in 0..n_new {
                let ctors: Vec<usize> = self.sig.funcs.iter().enumerate().filter(|(_, f)| f.is_ctor() && !f.args.is_empty()).map(|(i, _)| i).collect();
                if ctors.is_empty() {
                    break;
                }
                let fi = *self.src.pick(&ctors);
                let args_ty = self.sig.funcs[fi].args.clone();
                let mut args = vec![];
                let mut ok = true;
                for ty in &args_ty {
                    match self.ground_of(ty, &pool) {
                        Some(t) => args.push(t),
                        None => {
                            ok = false;
                            break;
                        }
                    }
                }
                if !ok {
                    continue;
                }
                let t = Term::App(fi, args);
                let ty = self.sig.funcs[fi].out.clone();
                if t.size() <= 12 && !pool.iter().any(|(_, x)| *x == t) {
                    pool.push((ty, t));
                }
            }
        }
        self.pool = pool;
    }

    fn ground_of(&mut self, ty: &Ty, pool: &[(Ty, Term)]) -> Option<Term> {
        match ty {
            Ty::I64 => Some(Term::I(self.src.range(0, 4))),
            Ty::Bool => Some(Term::B(self.src.bool())),
            Ty::Eq(_) => {
                let c: Vec<&Term> = pool.iter().filter(|(t, _)| t == ty).map(|(_, x)| x).collect();
                if c.is_empty() { None } else { Some((*self.src.pick(&c)).clone()) }
            }
            Ty::Cont(ci) => {
                let decl = self.sig.conts[*ci].clone();
                let mut n = self.src.below(4);
                if self.cfg.no_empty_containers {
                    n = n.max(1);
                }
                let mut elems = vec![];
                for _ in 0..n {
                    elems.push(self.ground_of(&decl.elem, pool)?);
                }
                Some(Term::Prim(cont_ctor(decl.kind).into(), elems))
            }
        }
    }

    pub fn ground(&mut self, ty: &Ty) -> Term {
        let pool = self.pool.clone();
        self.ground_of(ty, &pool).unwrap_or_else(|| {
            // every eq sort has leaves, so this is unreachable; keep total anyway
            Term::I(0)
        })
    }

    // ---------------------------------------------------------------- rules

    fn fresh_var(&mut self) -> String {
        self.var_counter += 1;
        format!("x{}", self.var_counter)
    }

    fn pick_var(&mut self, env: &Env, ty: &Ty) -> Option<String> {
        let c: Vec<&String> = env.iter().filter(|(_, t)| t == ty).map(|(v, _)| v).collect();
        if c.is_empty() { None } else { Some((*self.src.pick(&c)).clone()) }
    }

    /// a pattern argument of type `ty`; may bind new variables
    fn pat_arg(&mut self, env: &mut Env, ty: &Ty, depth: usize) -> Term {
        if let Ty::Cont(ci) = ty {
            // container literal pattern: (vec-of <grounded element patterns>), the #831 shape
            if depth < 2 && self.src.chance(1, 3) {
                let decl = self.sig.conts[*ci].clone();
                let n = 1 + self.src.below(2);
                let mut elems = vec![];
                for _ in 0..n {
                    elems.push(self.grounded_elem(env, &decl.elem, depth + 1));
                }
                return Term::Prim(cont_ctor(decl.kind).into(), elems);
            }
        }
        let choice = self.src.below(16);
        match choice {
            0..=5 => {
                if let Some(v) = self.pick_var(env, ty) {
                    return Term::Var(v);
                }
            }
            6..=11 => {}
            12 | 13 => {
                // constant
                match ty {
                    Ty::I64 => return Term::I(self.src.range(0, 4)),
                    Ty::Bool => return Term::B(self.src.bool()),
                    Ty::Eq(_) => {
                        let leaves: Vec<Term> = self.pool.iter().filter(|(t, x)| t == ty && x.size() == 1).map(|(_, x)| x.clone()).collect();
                        if !leaves.is_empty() {
                            return self.src.pick(&leaves).clone();
                        }
                    }
                    Ty::Cont(_) => {}
                }
            }
            _ => {
                // nested pattern
                if depth < 1 {
                    if let Ty::Eq(_) = ty {
                        let ctors: Vec<usize> =
                            self.sig.funcs.iter().enumerate().filter(|(_, f)| f.is_ctor() && f.out == *ty && !f.args.is_empty()).map(|(i, _)| i).collect();
                        if !ctors.is_empty() {
                            let fi = *self.src.pick(&ctors);
                            let tys = self.sig.funcs[fi].args.clone();
                            let args = tys.iter().map(|t| self.pat_arg(env, t, depth + 1)).collect();
                            return Term::App(fi, args);
                        }
                    }
                }
            }
        }
        let v = self.fresh_var();
        env.push((v.clone(), ty.clone()));
        Term::Var(v)
    }

    /// an element pattern under a container primitive: must be grounded by itself
    /// (constructor pattern, already bound variable, or constant)
    fn grounded_elem(&mut self, env: &mut Env, ty: &Ty, depth: usize) -> Term {
        match ty {
            Ty::Eq(_) => {
                if self.src.chance(1, 3) {
                    if let Some(v) = self.pick_var(env, ty) {
                        return Term::Var(v);
                    }
                }
                let ctors: Vec<usize> = self.sig.funcs.iter().enumerate().filter(|(_, f)| f.is_ctor() && f.out == *ty && !f.args.is_empty() && f.args.iter().all(|a| !matches!(a, Ty::Cont(_)))).map(|(i, _)| i).collect();
                if !ctors.is_empty() && depth <= 2 && self.src.chance(3, 4) {
                    let fi = *self.src.pick(&ctors);
                    let tys = self.sig.funcs[fi].args.clone();
                    let args = tys.iter().map(|t| self.pat_arg(env, t, 2)).collect();
                    return Term::App(fi, args);
                }
                let leaves: Vec<Term> = self.pool.iter().filter(|(t, x)| t == ty && x.size() == 1).map(|(_, x)| x.clone()).collect();
                self.src.pick(&leaves).clone()
            }
            Ty::I64 => Term::I(self.src.range(0, 4)),
            Ty::Bool => Term::B(self.src.bool()),
            Ty::Cont(ci) => {
                let decl = self.sig.conts[*ci].clone();
                if let Some(v) = self.pick_var(env, ty) {
                    return Term::Var(v);
                }
                let mut n = self.src.below(2);
                if self.cfg.no_empty_containers {
                    n = n.max(1);
                }
                let mut elems = vec![];
                for _ in 0..n {
                    elems.push(self.grounded_elem(env, &decl.elem, depth + 1));
                }
                Term::Prim(cont_ctor(decl.kind).into(), elems)
            }
        }
    }

    fn gen_body(&mut self, env: &mut Env, n_atoms: usize) -> (Vec<Fact>, Vec<(usize, Vec<Term>)>) {
        let mut body = vec![];
        let mut ctor_atoms = vec![];
        for _ in 0..n_atoms {
            let weights: Vec<usize> = self
                .sig
                .funcs
                .iter()
                .map(|f| match f.kind {
                    FKind::Ctor { .. } => {
                        if f.args.is_empty() { 1 } else { 6 }
                    }
                    FKind::Rel => 5,
                    FKind::Func { .. } => 4,
                })
                .collect();
            let fi = self.src.pick_weighted(&weights);
            let decl = self.sig.funcs[fi].clone();
            let args: Vec<Term> = decl.args.iter().map(|t| self.pat_arg(env, t, 0)).collect();
            let app = Term::App(fi, args.clone());
            match decl.kind {
                FKind::Rel => body.push(Fact::T(app)),
                FKind::Ctor { .. } => {
                    if args.iter().all(|a| matches!(a, Term::Var(_))) {
                        ctor_atoms.push((fi, args.clone()));
                    }
                    if self.src.chance(3, 4) {
                        let v = if self.src.chance(1, 4) { self.pick_var(env, &decl.out) } else { None };
                        let v = v.unwrap_or_else(|| {
                            let v = self.fresh_var();
                            env.push((v.clone(), decl.out.clone()));
                            v
                        });
                        body.push(Fact::Eq(Term::Var(v), app));
                    } else {
                        body.push(Fact::T(app));
                    }
                }
                FKind::Func { .. } => {
                    if self.src.chance(1, 8) {
                        let c = match decl.out {
                            Ty::Bool => Term::B(self.src.bool()),
                            _ => Term::I(self.src.range(0, 4)),
                        };
                        body.push(Fact::Eq(c, app));
                    } else {
                        let v = self.fresh_var();
                        env.push((v.clone(), decl.out.clone()));
                        body.push(Fact::Eq(Term::Var(v), app));
                    }
                }
            }
        }
        // container primitives over a bound container variable: the match depends on the container's CONTENTS
        // (not on an interned literal), e.g. (= (vec-get v 0) x), (set-contains v x), (= n (vec-length v))
        if self.cfg.containers && self.src.chance(1, 3) {
            let cvars: Vec<(String, usize)> = env.iter().filter_map(|(v, t)| if let Ty::Cont(c) = t { Some((v.clone(), *c)) } else { None }).collect();
            if !cvars.is_empty() {
                let (v, ci) = self.src.pick(&cvars).clone();
                let decl = self.sig.conts[ci].clone();
                let elem_term = |g: &mut Self, env: &Env| -> Option<Term> {
                    match &decl.elem {
                        Ty::Eq(_) => {
                            if g.src.bool() {
                                if let Some(x) = g.pick_var(env, &decl.elem) {
                                    return Some(Term::Var(x));
                                }
                            }
                            let leaves: Vec<Term> = g.pool.iter().filter(|(t, x)| *t == decl.elem && x.size() == 1).map(|(_, x)| x.clone()).collect();
                            if leaves.is_empty() { None } else { Some(g.src.pick(&leaves).clone()) }
                        }
                        _ => None,
                    }
                };
                match (decl.kind, self.src.below(3)) {
                    (ContKind::Vec, 0) | (ContKind::Vec, 1) => {
                        if let Some(e) = elem_term(self, env) {
                            body.push(Fact::Eq(Term::Prim("vec-get".into(), vec![Term::Var(v), Term::I(self.src.range(0, 1))]), e));
                        }
                    }
                    (ContKind::Vec, _) => {
                        let n = self.fresh_var();
                        env.push((n.clone(), Ty::I64));
                        body.push(Fact::Eq(Term::Var(n), Term::Prim("vec-length".into(), vec![Term::Var(v)])));
                    }
                    (ContKind::Set, _) => {
                        if let Some(e) = elem_term(self, env) {
                            body.push(Fact::T(Term::Prim("set-contains".into(), vec![Term::Var(v), e])));
                        }
                    }
                    (ContKind::MultiSet, _) => {
                        if let Some(e) = elem_term(self, env) {
                            body.push(Fact::T(Term::Prim("multiset-contains".into(), vec![Term::Var(v), e])));
                        }
                    }
                }
            }
        }
        // guards
        let ints: Vec<String> = env.iter().filter(|(_, t)| *t == Ty::I64).map(|(v, _)| v.clone()).collect();
        if !ints.is_empty() && self.src.chance(1, 3) {
            let a = Term::Var(self.src.pick(&ints).clone());
            let b = if self.src.bool() { Term::Var(self.src.pick(&ints).clone()) } else { Term::I(self.src.range(0, 4)) };
            match self.src.below(6) {
                0 => body.push(Fact::T(Term::Prim("<".into(), vec![a, b]))),
                1 => body.push(Fact::T(Term::Prim("<=".into(), vec![a, b]))),
                2 => body.push(Fact::T(Term::Prim("!=".into(), vec![a, b]))),
                3 => body.push(Fact::T(Term::Prim(">".into(), vec![a, b]))),
                4 => {
                    let z = self.fresh_var();
                    env.push((z.clone(), Ty::I64));
                    body.push(Fact::Eq(Term::Var(z), Term::Prim("+".into(), vec![a, b])));
                }
                _ => {
                    let z = self.fresh_var();
                    env.push((z.clone(), Ty::I64));
                    body.push(Fact::Eq(Term::Var(z), Term::Prim("max".into(), vec![a, b])));
                }
            }
        }
        // explicit equality between two eq-sort variables
        if self.src.chance(1, 10) {
            let eqs: Vec<(String, Ty)> = env.iter().filter(|(_, t)| matches!(t, Ty::Eq(_))).cloned().collect();
            if eqs.len() >= 2 {
                let (a, ta) = self.src.pick(&eqs).clone();
                let cands: Vec<&(String, Ty)> = eqs.iter().filter(|(v, t)| *t == ta && *v != a).collect();
                if !cands.is_empty() {
                    let b = (*self.src.pick(&cands)).0.clone();
                    body.push(Fact::Eq(Term::Var(a), Term::Var(b)));
                }
            }
        }
        (body, ctor_atoms)
    }

    /// a head argument of type ty built from bound vars / constants (no new terms)
    fn head_arg(&mut self, env: &Env, ty: &Ty) -> Term {
        if self.src.chance(7, 8) {
            if let Some(v) = self.pick_var(env, ty) {
                return Term::Var(v);
            }
        }
        match ty {
            Ty::Cont(ci) => {
                // container built from bound element vars
                let decl = self.sig.conts[*ci].clone();
                let mut n = self.src.below(3);
                if self.cfg.no_empty_containers {
                    n = n.max(1);
                }
                let elems = (0..n).map(|_| self.head_arg(env, &decl.elem)).collect();
                Term::Prim(cont_ctor(decl.kind).into(), elems)
            }
            _ => {
                // constants: leaves only for eq-sorts
                match ty {
                    Ty::Eq(_) => {
                        let leaves: Vec<Term> = self.pool.iter().filter(|(t, x)| t == ty && x.size() == 1).map(|(_, x)| x.clone()).collect();
                        self.src.pick(&leaves).clone()
                    }
                    Ty::I64 => Term::I(self.src.range(0, 4)),
                    Ty::Bool => Term::B(self.src.bool()),
                    Ty::Cont(_) => unreachable!(),
                }
            }
        }
    }

    /// returns (actions, closed)
    fn gen_head(&mut self, env: &Env, ctor_atoms: &[(usize, Vec<Term>)]) -> (Vec<Action>, bool) {
        let n = 1 + self.src.below(2);
        let mut head = vec![];
        let mut closed = true;
        for _ in 0..n {
            let eqvars: Vec<(String, Ty)> = env.iter().filter(|(_, t)| matches!(t, Ty::Eq(_))).cloned().collect();
            let rels: Vec<usize> = self.sig.funcs.iter().enumerate().filter(|(_, f)| f.is_rel()).map(|(i, _)| i).collect();
            let funcs: Vec<usize> = self.sig.funcs.iter().enumerate().filter(|(_, f)| f.is_func()).map(|(i, _)| i).collect();
            let ctors: Vec<usize> = self.sig.funcs.iter().enumerate().filter(|(_, f)| f.is_ctor() && !f.args.is_empty()).map(|(i, _)| i).collect();
            let w = [
                if eqvars.len() >= 2 { 6 } else { 0 },                               // 0 union vars
                if !rels.is_empty() { 5 } else { 0 },                                // 1 relation insert
                if !funcs.is_empty() { 4 } else { 0 },                               // 2 set
                if self.cfg.generative && !ctors.is_empty() { 3 } else { 0 },        // 3 ctor insert
                if self.cfg.generative && !ctors.is_empty() && !eqvars.is_empty() { 3 } else { 0 }, // 4 union var new-term
                if self.cfg.subsume && !ctor_atoms.is_empty() { 3 } else { 0 },      // 5 subsume matched atom
                if !eqvars.is_empty() { 1 } else { 0 },                              // 6 union var leaf
                if self.cfg.delete && !ctor_atoms.is_empty() { 2 } else { 0 },       // 7 delete matched atom
            ];
            if w.iter().sum::<usize>() == 0 {
                break;
            }
            match self.src.pick_weighted(&w) {
                0 => {
                    let (a, ta) = self.src.pick(&eqvars).clone();
                    let cands: Vec<&(String, Ty)> = eqvars.iter().filter(|(_, t)| *t == ta).collect();
                    let b = (*self.src.pick(&cands)).0.clone();
                    head.push(Action::Union(Term::Var(a), Term::Var(b)));
                }
                1 => {
                    let fi = *self.src.pick(&rels);
                    let tys = self.sig.funcs[fi].args.clone();
                    let args = tys.iter().map(|t| self.head_arg(env, t)).collect();
                    head.push(Action::Expr(Term::App(fi, args)));
                }
                2 => {
                    let fi = *self.src.pick(&funcs);
                    let decl = self.sig.funcs[fi].clone();
                    let args: Vec<Term> = decl.args.iter().map(|t| self.head_arg(env, t)).collect();
                    let base = self.head_arg(env, &decl.out);
                    let val = if decl.out == Ty::I64 && self.cfg.generative && self.src.chance(1, 4) {
                        closed = false;
                        Term::Prim("+".into(), vec![base, Term::I(self.src.range(1, 2))])
                    } else if decl.out == Ty::I64 && self.src.chance(1, 4) {
                        let other = self.head_arg(env, &Ty::I64);
                        Term::Prim((*self.src.pick(&["min", "max"])).into(), vec![base, other])
                    } else {
                        base
                    };
                    head.push(Action::Set(fi, args, val));
                }
                3 => {
                    let fi = *self.src.pick(&ctors);
                    let tys = self.sig.funcs[fi].args.clone();
                    let args = tys.iter().map(|t| self.head_arg(env, t)).collect();
                    head.push(Action::Expr(Term::App(fi, args)));
                    closed = false;
                }
                4 => {
                    let (a, ta) = self.src.pick(&eqvars).clone();
                    let cs: Vec<usize> = ctors.iter().copied().filter(|c| self.sig.funcs[*c].out == ta).collect();
                    if cs.is_empty() {
                        continue;
                    }
                    let fi = *self.src.pick(&cs);
                    let tys = self.sig.funcs[fi].args.clone();
                    let args = tys.iter().map(|t| self.head_arg(env, t)).collect();
                    head.push(Action::Union(Term::Var(a), Term::App(fi, args)));
                    closed = false;
                }
                5 => {
                    let (fi, args) = self.src.pick(ctor_atoms).clone();
                    head.push(Action::Subsume(fi, args));
                }
                6 => {
                    let (a, ta) = self.src.pick(&eqvars).clone();
                    let leaves: Vec<Term> = self.pool.iter().filter(|(t, x)| *t == ta && x.size() == 1).map(|(_, x)| x.clone()).collect();
                    let l = self.src.pick(&leaves).clone();
                    head.push(Action::Union(Term::Var(a), l));
                }
                _ => {
                    let (fi, args) = self.src.pick(ctor_atoms).clone();
                    head.push(Action::Delete(fi, args));
                    // a delete next to a rule that re-creates the row can loop forever under saturate
                    closed = false;
                }
            }
        }
        if self.cfg.panics && self.src.chance(1, 5) {
            let pos = self.src.below(head.len() + 1);
            head.insert(pos, Action::Panic("boom".into()));
        }
        if head.is_empty() {
            // always possible: insert into a relation or union with itself is useless; fall back to a leaf insert
            let leaf = self.pool[0].1.clone();
            head.push(Action::Expr(leaf));
        }
        (head, closed)
    }

    fn pick_ruleset(&mut self) -> Option<usize> {
        let n = self.sig.rulesets.len();
        if n == 0 || self.src.chance(1, 2) { None } else { Some(self.src.below(n)) }
    }

    fn note_rule(&mut self, rs: Option<usize>, closed: bool) {
        let i = rs.map(|r| r + 1).unwrap_or(0);
        self.closed[i] &= closed;
        self.has_rules[i] = true;
    }

    pub fn gen_rule(&mut self) -> Cmd {
        let mut env: Env = vec![];
        let n_atoms = 1 + self.src.pick_weighted(&[5, 6, 3, 1]);
        let (body, ctor_atoms) = self.gen_body(&mut env, n_atoms);
        let (head, mut closed) = self.gen_head(&env, &ctor_atoms);
        // a value computed by `+` in the body can grow without bound when it reaches the head: not closed
        if body.iter().any(|f| matches!(f, Fact::Eq(_, Term::Prim(op, _)) if op == "+")) {
            closed = false;
        }
        let rs = self.pick_ruleset();
        self.note_rule(rs, closed);
        self.rule_counter += 1;
        let mut opts = RuleOpts { ruleset: rs, ..Default::default() };
        if self.cfg.rule_opts {
            if self.src.chance(1, 8) {
                opts.naive = true;
            }
            if self.src.chance(1, 8) {
                opts.no_decomp = true;
            }
            if self.src.chance(1, 6) {
                opts.name = Some(format!("rule{}", self.rule_counter));
            }
        }
        Cmd::Rule { body, head, opts }
    }

    pub fn gen_rewrite(&mut self) -> Cmd {
        let mut env: Env = vec![];
        let ctors: Vec<usize> = self.sig.funcs.iter().enumerate().filter(|(_, f)| f.is_ctor() && !f.args.is_empty()).map(|(i, _)| i).collect();
        let fi = *self.src.pick(&ctors);
        let decl = self.sig.funcs[fi].clone();
        let args: Vec<Term> = decl.args.iter().map(|t| self.pat_arg(&mut env, t, 0)).collect();
        let lhs = Term::App(fi, args);
        let out_ty = decl.out.clone();
        let mut closed = true;
        let rhs = if self.src.chance(1, 2) && self.pick_var(&env, &out_ty).is_some() {
            Term::Var(self.pick_var(&env, &out_ty).unwrap())
        } else if self.cfg.generative {
            closed = false;
            let cs: Vec<usize> = ctors.iter().copied().filter(|c| self.sig.funcs[*c].out == out_ty).collect();
            let f2 = *self.src.pick(&cs);
            let tys = self.sig.funcs[f2].args.clone();
            let a = tys.iter().map(|t| self.head_arg(&env, t)).collect();
            Term::App(f2, a)
        } else {
            let leaves: Vec<Term> = self.pool.iter().filter(|(t, x)| *t == out_ty && x.size() == 1).map(|(_, x)| x.clone()).collect();
            self.src.pick(&leaves).clone()
        };
        let mut when = vec![];
        if self.src.chance(1, 4) {
            let rels: Vec<usize> = self.sig.funcs.iter().enumerate().filter(|(_, f)| f.is_rel()).map(|(i, _)| i).collect();
            if !rels.is_empty() {
                let r = *self.src.pick(&rels);
                let tys = self.sig.funcs[r].args.clone();
                // only bound variables / constants, so the condition is grounded by the lhs
                let a = tys.iter().map(|t| self.head_arg(&env, t)).collect();
                when.push(Fact::T(Term::App(r, a)));
            }
        }
        let bi = self.src.chance(1, 6) && matches!(rhs, Term::App(..)) && {
            // birewrite needs rhs to bind all lhs vars
            let mut lv = vec![];
            lhs.vars(&mut lv);
            let mut rv = vec![];
            rhs.vars(&mut rv);
            lv.iter().all(|v| rv.contains(v)) && when.is_empty() && !has_const(&rhs) && !has_prim(&rhs) && !has_prim(&lhs)
        };
        let subsume = self.cfg.subsume && !bi && self.src.chance(1, 3);
        let rs = self.pick_ruleset();
        self.note_rule(rs, closed);
        Cmd::Rewrite { lhs, rhs, when, subsume, bi, ruleset: rs }
    }

    // ---------------------------------------------------------------- commands

    pub fn gen_toplevel_action(&mut self) -> Cmd {
        let eq_tys: Vec<Ty> = (0..self.sig.sorts.len()).map(Ty::Eq).collect();
        let rels: Vec<usize> = self.sig.funcs.iter().enumerate().filter(|(_, f)| f.is_rel()).map(|(i, _)| i).collect();
        let funcs: Vec<usize> = self.sig.funcs.iter().enumerate().filter(|(_, f)| f.is_func()).map(|(i, _)| i).collect();
        let ctors: Vec<usize> = self.sig.funcs.iter().enumerate().filter(|(_, f)| f.is_ctor()).map(|(i, _)| i).collect();
        let w = [
            6,
            7,
            if rels.is_empty() { 0 } else { 5 },
            if funcs.is_empty() { 0 } else { 4 },
            if self.cfg.subsume && !self.cfg.no_toplevel_subsume_delete { 2 } else { 0 },
            if self.cfg.delete && !self.cfg.no_toplevel_subsume_delete { 2 } else { 0 },
            if self.cfg.containers { 5 } else { 0 },
        ];
        match self.src.pick_weighted(&w) {
            0 => {
                let ty = self.src.pick(&eq_tys).clone();
                Cmd::Act(Action::Expr(self.ground(&ty)))
            }
            1 => {
                let ty = self.src.pick(&eq_tys).clone();
                let mut a = self.ground(&ty);
                let mut b = self.ground(&ty);
                // bias towards small operands (their parents then need congruence)
                for _ in 0..2 {
                    let a2 = self.ground(&ty);
                    if a2.size() < a.size() {
                        a = a2;
                    }
                    let b2 = self.ground(&ty);
                    if b2.size() < b.size() {
                        b = b2;
                    }
                }
                Cmd::Act(Action::Union(a, b))
            }
            2 => {
                let fi = *self.src.pick(&rels);
                let tys = self.sig.funcs[fi].args.clone();
                let args = tys.iter().map(|t| self.ground(t)).collect();
                Cmd::Act(Action::Expr(Term::App(fi, args)))
            }
            3 => {
                let fi = *self.src.pick(&funcs);
                let decl = self.sig.funcs[fi].clone();
                let args = decl.args.iter().map(|t| self.ground(t)).collect();
                let v = match decl.out {
                    Ty::Bool => Term::B(self.src.bool()),
                    _ => Term::I(self.src.range(-3, 12)),
                };
                Cmd::Act(Action::Set(fi, args, v))
            }
            4 | 5 => {
                let which = w[4] > 0 && (w[5] == 0 || self.src.bool());
                let cs: Vec<usize> = ctors.iter().copied().filter(|c| !self.sig.funcs[*c].args.is_empty()).collect();
                let fi = *self.src.pick(&cs);
                let tys = self.sig.funcs[fi].args.clone();
                let args: Vec<Term> = tys.iter().map(|t| self.ground(t)).collect();
                if which { Cmd::Act(Action::Subsume(fi, args)) } else { Cmd::Act(Action::Delete(fi, args)) }
            }
            _ => {
                // insert a wrapped container
                let ws: Vec<usize> = self.sig.funcs.iter().enumerate().filter(|(_, f)| f.is_ctor() && f.args.iter().any(|a| matches!(a, Ty::Cont(_)))).map(|(i, _)| i).collect();
                if ws.is_empty() {
                    return Cmd::Act(Action::Expr(self.pool[0].1.clone()));
                }
                let fi = *self.src.pick(&ws);
                let tys = self.sig.funcs[fi].args.clone();
                let args = tys.iter().map(|t| self.ground(t)).collect();
                Cmd::Act(Action::Expr(Term::App(fi, args)))
            }
        }
    }

    fn any_ruleset(&mut self) -> Option<usize> {
        let n = self.sig.rulesets.len() + self.sig.combined.len();
        if n == 0 || self.src.chance(2, 5) { None } else { Some(self.src.below(n)) }
    }

    fn rs_closed(&self, rs: Option<usize>) -> bool {
        match rs {
            None => self.closed[0],
            Some(i) if i < self.sig.rulesets.len() => self.closed[i + 1],
            Some(i) => self.sig.combined[i - self.sig.rulesets.len()].1.iter().all(|m| self.closed[m + 1]),
        }
    }

    pub fn gen_check_facts(&mut self) -> Vec<Fact> {
        let eq_tys: Vec<Ty> = (0..self.sig.sorts.len()).map(Ty::Eq).collect();
        match self.src.below(4) {
            0 | 1 => {
                let ty = self.src.pick(&eq_tys).clone();
                let a = self.ground(&ty);
                let b = self.ground(&ty);
                vec![Fact::Eq(a, b)]
            }
            2 => {
                let rels: Vec<usize> = self.sig.funcs.iter().enumerate().filter(|(_, f)| f.is_rel()).map(|(i, _)| i).collect();
                if rels.is_empty() {
                    return vec![Fact::T(self.pool[0].1.clone())];
                }
                let fi = *self.src.pick(&rels);
                let tys = self.sig.funcs[fi].args.clone();
                let args = tys.iter().map(|t| self.ground(t)).collect();
                vec![Fact::T(Term::App(fi, args))]
            }
            _ => {
                let funcs: Vec<usize> = self.sig.funcs.iter().enumerate().filter(|(_, f)| f.is_func()).map(|(i, _)| i).collect();
                if funcs.is_empty() {
                    let ty = self.src.pick(&eq_tys).clone();
                    return vec![Fact::T(self.ground(&ty))];
                }
                let fi = *self.src.pick(&funcs);
                let decl = self.sig.funcs[fi].clone();
                let args = decl.args.iter().map(|t| self.ground(t)).collect();
                let v = match decl.out {
                    Ty::Bool => Term::B(self.src.bool()),
                    _ => Term::I(self.src.range(-3, 12)),
                };
                vec![Fact::Eq(Term::App(fi, args), v)]
            }
        }
    }

    fn gen_sched(&mut self, depth: usize, allow_unclosed: bool) -> Sched {
        let w = if depth >= 2 { [1, 0, 0, 0] } else { [4, 3, 3, 2] };
        match self.src.pick_weighted(&w) {
            0 => {
                let mut rs = self.any_ruleset();
                if !allow_unclosed && !self.rs_closed(rs) {
                    // find a closed one
                    let all: Vec<Option<usize>> = std::iter::once(None).chain((0..self.sig.rulesets.len() + self.sig.combined.len()).map(Some)).collect();
                    let closed: Vec<Option<usize>> = all.into_iter().filter(|r| self.rs_closed(*r)).collect();
                    if closed.is_empty() {
                        // no closed ruleset: an empty sequence is the only safe schedule
                        return Sched::Seq(vec![]);
                    }
                    rs = *self.src.pick(&closed);
                }
                let until = if self.cfg.until && self.src.chance(1, 6) { self.gen_check_facts() } else { vec![] };
                Sched::Run { rs, until }
            }
            1 => {
                let n = 1 + self.src.below(3);
                let k = 1 + self.src.below(2);
                Sched::Repeat(n, (0..k).map(|_| self.gen_sched(depth + 1, allow_unclosed)).collect())
            }
            2 => {
                let k = 1 + self.src.below(2);
                Sched::Saturate((0..k).map(|_| self.gen_sched(depth + 1, false)).collect())
            }
            _ => {
                let k = 1 + self.src.below(3);
                Sched::Seq((0..k).map(|_| self.gen_sched(depth + 1, allow_unclosed)).collect())
            }
        }
    }

    /// commands that (may) fail at run time
    pub fn gen_fault(&mut self) -> Cmd {
        let nm = self.sig.funcs.iter().position(|f| f.name == "NM");
        let gi: Vec<usize> = self.sig.funcs.iter().enumerate().filter(|(_, f)| f.is_func() && f.out == Ty::I64 && f.name != "NM").map(|(i, _)| i).collect();
        match self.src.below(6) {
            0 | 1 => {
                // :no-merge writes: conflicts arise directly or later through a union collapsing two keys
                if let Some(nm) = nm {
                    let k = self.ground(&Ty::Eq(0));
                    return Cmd::Act(Action::Set(nm, vec![k], Term::I(self.src.range(0, 2))));
                }
            }
            2 => {
                // failing primitive in a top-level action
                if !gi.is_empty() {
                    let g = *self.src.pick(&gi);
                    let tys = self.sig.funcs[g].args.clone();
                    let args = tys.iter().map(|t| self.ground(t)).collect();
                    let bad = if self.src.bool() {
                        Term::Prim("/".into(), vec![Term::I(1), Term::I(0)])
                    } else {
                        Term::Prim("+".into(), vec![Term::I(i64::MAX), Term::I(1)])
                    };
                    return Cmd::Act(Action::Set(g, args, bad));
                }
            }
            3 => {
                // failed lookup in a top-level action
                if !gi.is_empty() {
                    let g = *self.src.pick(&gi);
                    let g2 = *self.src.pick(&gi);
                    let tys = self.sig.funcs[g].args.clone();
                    let args = tys.iter().map(|t| self.ground(t)).collect();
                    let tys2 = self.sig.funcs[g2].args.clone();
                    let args2 = tys2.iter().map(|t| self.ground(t)).collect();
                    return Cmd::Act(Action::Set(g, args, Term::App(g2, args2)));
                }
            }
            4 => {
                // failing primitive inside a rule head
                if !gi.is_empty() {
                    let g = *self.src.pick(&gi);
                    let mut env: Env = vec![];
                    let (body, _) = self.gen_body(&mut env, 1);
                    let tys = self.sig.funcs[g].args.clone();
                    let args = tys.iter().map(|t| self.head_arg(&env, t)).collect();
                    let rs = self.pick_ruleset();
                    self.note_rule(rs, false);
                    return Cmd::Rule { body, head: vec![Action::Set(g, args, Term::Prim("/".into(), vec![Term::I(1), Term::I(0)]))], opts: RuleOpts { ruleset: rs, ..Default::default() } };
                }
            }
            _ => {}
        }
        // a rule that panics, in a ruleset that (typically) also holds union/insert rules
        let mut env: Env = vec![];
        let n = 1 + self.src.below(2);
        let (body, ctor_atoms) = self.gen_body(&mut env, n);
        let (mut head, _) = self.gen_head(&env, &ctor_atoms);
        let pos = self.src.below(head.len() + 1);
        head.insert(pos, Action::Panic("boom".into()));
        let rs = self.pick_ruleset();
        self.note_rule(rs, false);
        Cmd::Rule { body, head, opts: RuleOpts { ruleset: rs, ..Default::default() } }
    }

    pub fn gen_cmd(&mut self) -> Cmd {
        if self.cfg.faults && self.src.chance(1, 5) {
            return self.gen_fault();
        }
        let any_rules = self.has_rules.iter().any(|x| *x);
        let w = [
            10,                                                           // 0 top-level action
            7,                                                            // 1 rule
            if self.cfg.rewrites { 3 } else { 0 },                        // 2 rewrite
            if any_rules { 7 } else { 1 },                                // 3 run n
            if self.cfg.schedules && any_rules { 3 } else { 0 },          // 4 schedule
            if self.cfg.observe { 3 } else { 0 },                         // 5 check
            if self.cfg.push_pop { 2 } else { 0 },                        // 6 push/pop
            if self.cfg.extract_cmds { 2 } else { 0 },                    // 7 extract / print-size
        ];
        match self.src.pick_weighted(&w) {
            0 => self.gen_toplevel_action(),
            1 => self.gen_rule(),
            2 => self.gen_rewrite(),
            3 => {
                let rs = self.any_ruleset();
                let n = 1 + self.src.below(self.cfg.max_run);
                let until = if self.cfg.until && self.src.chance(1, 8) { self.gen_check_facts() } else { vec![] };
                Cmd::RunN { rs, n, until }
            }
            4 => Cmd::Sched(self.gen_sched(0, true)),
            5 => Cmd::Check(self.gen_check_facts()),
            6 => {
                if self.depth > 0 && self.src.bool() {
                    self.depth -= 1;
                    Cmd::Pop
                } else {
                    self.depth += 1;
                    Cmd::Push
                }
            }
            _ => {
                let eq_tys: Vec<Ty> = (0..self.sig.sorts.len()).map(Ty::Eq).collect();
                match self.src.below(6) {
                    0 | 1 => {
                        let ty = self.src.pick(&eq_tys).clone();
                        Cmd::Extract(self.ground(&ty), None)
                    }
                    2 => {
                        let ty = self.src.pick(&eq_tys).clone();
                        Cmd::Extract(self.ground(&ty), Some(1 + self.src.below(4)))
                    }
                    3 => Cmd::PrintSize(None),
                    4 => Cmd::PrintSize(Some(self.src.below(self.sig.funcs.len()))),
                    _ => Cmd::PrintFunction(self.src.below(self.sig.funcs.len()), 1 + self.src.below(20)),
                }
            }
        }
    }

    /// A rule that collapses a wrapper (`(rewrite (U x) x)`), a row holding a container whose element
    /// contains the wrapper, and a rule whose body is a container literal pattern: the body becomes
    /// matchable only through the container being rebuilt in place.
    fn container_scenario(&mut self) -> Vec<Cmd> {
        let mut cmds = vec![];
        let find = |sig: &Sig, n: &str| sig.funcs.iter().position(|f| f.name == n);
        let (Some(u), Some(k)) = (find(&self.sig, "U"), find(&self.sig, "F0")) else { return cmds };
        // wrappers over a container of S (directly or nested)
        let ws: Vec<usize> = self.sig.funcs.iter().enumerate().filter(|(_, f)| f.name.starts_with('W')).map(|(i, _)| i).collect();
        if ws.is_empty() {
            return cmds;
        }
        let w = *self.src.pick(&ws);
        let Ty::Cont(ci) = self.sig.funcs[w].args[0].clone() else { return cmds };
        let s0 = Ty::Eq(0);
        let leaves: Vec<Term> = self.pool.iter().filter(|(t, x)| *t == s0 && x.size() == 1).map(|(_, x)| x.clone()).collect();
        let leaf = self.src.pick(&leaves).clone();
        let x = Term::Var("sx".into());
        // element term with the wrapper somewhere: U(F0(leaf)) or F0(U(leaf))
        let (elem_ground, elem_pat) = if self.src.bool() {
            (Term::App(u, vec![Term::App(k, vec![leaf.clone()])]), Term::App(k, vec![x.clone()]))
        } else {
            (Term::App(k, vec![Term::App(u, vec![leaf.clone()])]), Term::App(k, vec![x.clone()]))
        };
        fn wrap(sig: &Sig, ci: usize, ground: &Term, pat: &Term, extra: &Option<Term>) -> Option<(Term, Term)> {
            let decl = &sig.conts[ci];
            let ctor = cont_ctor(decl.kind).to_string();
            match &decl.elem {
                Ty::Eq(0) => {
                    let mut g = vec![ground.clone()];
                    let mut p = vec![pat.clone()];
                    if let Some(e) = extra {
                        g.push(e.clone());
                        p.push(e.clone());
                    }
                    Some((Term::Prim(ctor.clone(), g), Term::Prim(ctor, p)))
                }
                Ty::Cont(inner) => {
                    let (g, p) = wrap(sig, *inner, ground, pat, extra)?;
                    Some((Term::Prim(ctor.clone(), vec![g]), Term::Prim(ctor, vec![p])))
                }
                _ => None,
            }
        }
        let extra = if self.src.chance(1, 3) { Some(self.src.pick(&leaves).clone()) } else { None };
        let Some((cg, cp)) = wrap(&self.sig, ci, &elem_ground, &elem_pat, &extra) else { return cmds };
        cmds.push(Cmd::Act(Action::Expr(Term::App(w, vec![cg]))));
        let rs = None;
        cmds.push(Cmd::Rewrite { lhs: Term::App(u, vec![x.clone()]), rhs: x.clone(), when: vec![], subsume: false, bi: false, ruleset: rs });
        self.note_rule(rs, true);
        let y = Term::Var("sy".into());
        let rels: Vec<usize> = self.sig.funcs.iter().enumerate().filter(|(_, f)| f.is_rel() && f.args == vec![Ty::Eq(0)]).map(|(i, _)| i).collect();
        let head = if !rels.is_empty() && self.src.bool() {
            vec![Action::Expr(Term::App(*self.src.pick(&rels), vec![y.clone()]))]
        } else {
            vec![Action::Union(y.clone(), x.clone())]
        };
        let direct_vec = self.sig.conts[ci].kind == ContKind::Vec && self.sig.conts[ci].elem == Ty::Eq(0);
        if direct_vec && self.src.bool() {
            // contents read through a non-interning primitive: no container literal in the query
            let v = Term::Var("sv".into());
            cmds.push(Cmd::Rule {
                body: vec![Fact::Eq(y.clone(), Term::App(w, vec![v.clone()])), Fact::Eq(Term::Prim("vec-get".into(), vec![v, Term::I(0)]), elem_pat.clone())],
                head,
                opts: RuleOpts::default(),
            });
        } else {
            cmds.push(Cmd::Rule { body: vec![Fact::Eq(y.clone(), Term::App(w, vec![cp]))], head, opts: RuleOpts::default() });
        }
        self.note_rule(rs, true);
        if self.src.bool() {
            cmds.push(Cmd::Sched(Sched::Saturate(vec![Sched::Run { rs: None, until: vec![] }])));
        } else {
            cmds.push(Cmd::RunN { rs: None, n: 2 + self.src.below(3), until: vec![] });
        }
        cmds
    }

    /// A lattice function keyed by a container of e-classes: two rows whose keys differ in one leaf,
    /// then the leaves are unioned, so the two keys become the same container and the rows must
    /// merge. Observed through print-size, print-function and checks on the looked-up value.
    fn keyed_function_scenario(&mut self) -> Vec<Cmd> {
        let mut cmds = vec![];
        let gs: Vec<usize> = self
            .sig
            .funcs
            .iter()
            .enumerate()
            .filter(|(_, f)| f.is_func() && f.args.iter().any(|a| matches!(a, Ty::Cont(_))) && matches!(f.out, Ty::I64 | Ty::Bool))
            .map(|(i, _)| i)
            .collect();
        if gs.is_empty() {
            return cmds;
        }
        let g = *self.src.pick(&gs);
        let decl = self.sig.funcs[g].clone();
        let s0 = Ty::Eq(0);
        let leaves: Vec<Term> = self.pool.iter().filter(|(t, x)| *t == s0 && x.size() == 1).map(|(_, x)| x.clone()).collect();
        if leaves.len() < 2 {
            return cmds;
        }
        let ia = self.src.below(leaves.len());
        let mut ib = self.src.below(leaves.len() - 1);
        if ib >= ia {
            ib += 1;
        }
        let (a, b) = (leaves[ia].clone(), leaves[ib].clone());
        let shared = if self.src.chance(1, 2) { Some(self.src.pick(&leaves).clone()) } else { None };
        fn lit(sig: &Sig, ci: usize, leaf: &Term, shared: &Option<Term>) -> Option<Term> {
            let d = &sig.conts[ci];
            let ctor = cont_ctor(d.kind).to_string();
            match &d.elem {
                Ty::Eq(0) => {
                    let mut v = vec![leaf.clone()];
                    if let Some(e) = shared {
                        v.push(e.clone());
                    }
                    Some(Term::Prim(ctor, v))
                }
                Ty::Cont(inner) => Some(Term::Prim(ctor, vec![lit(sig, *inner, leaf, shared)?])),
                _ => None,
            }
        }
        let mut ka = vec![];
        let mut kb = vec![];
        for t in &decl.args {
            match t {
                Ty::Cont(ci) => {
                    let (Some(x), Some(y)) = (lit(&self.sig, *ci, &a, &shared), lit(&self.sig, *ci, &b, &shared)) else { return cmds };
                    ka.push(x);
                    kb.push(y);
                }
                Ty::I64 => {
                    let n = Term::I(self.src.below(3) as i64);
                    ka.push(n.clone());
                    kb.push(n);
                }
                other => {
                    let c: Vec<Term> = self.pool.iter().filter(|(t, x)| t == other && x.size() == 1).map(|(_, x)| x.clone()).collect();
                    if c.is_empty() {
                        return cmds;
                    }
                    let x = self.src.pick(&c).clone();
                    ka.push(x.clone());
                    kb.push(x);
                }
            }
        }
        let (va, vb) = match decl.out {
            Ty::I64 => (Term::I(self.src.below(9) as i64), Term::I(self.src.below(9) as i64)),
            _ => (Term::B(self.src.bool()), Term::B(self.src.bool())),
        };
        cmds.push(Cmd::Act(Action::Set(g, ka.clone(), va)));
        cmds.push(Cmd::Act(Action::Set(g, kb.clone(), vb)));
        cmds.push(Cmd::PrintSize(Some(g)));
        cmds.push(Cmd::Act(Action::Union(a, b)));
        if self.src.bool() {
            cmds.push(Cmd::RunN { rs: None, n: 1, until: vec![] });
        }
        cmds.push(Cmd::PrintSize(Some(g)));
        cmds.push(Cmd::PrintFunction(g, 10));
        // the looked-up value under either key: a query variable bound to the function's output
        let v = Term::Var("kv".into());
        let key = if self.src.bool() { ka } else { kb };
        cmds.push(Cmd::Check(vec![Fact::Eq(v, Term::App(g, key))]));
        cmds
    }

    /// Rules that keep changing the database for several iterations.
    fn dynamics_scenario(&mut self) -> Vec<Cmd> {
        let mut cmds = vec![];
        let rs = self.pick_ruleset();
        // binary relation over one type
        let bins: Vec<usize> = self.sig.funcs.iter().enumerate().filter(|(_, f)| f.is_rel() && f.args.len() == 2 && f.args[0] == f.args[1] && !matches!(f.args[0], Ty::Cont(_))).map(|(i, _)| i).collect();
        let counters: Vec<usize> = self
            .sig
            .funcs
            .iter()
            .enumerate()
            .filter(|(_, f)| matches!(f.kind, FKind::Func { merge: Merge::Max | Merge::MaxNested }) && f.out == Ty::I64)
            .map(|(i, _)| i)
            .collect();
        let unary: Vec<usize> = self.sig.funcs.iter().enumerate().filter(|(_, f)| f.is_ctor() && f.args.len() == 1 && f.args[0] == f.out).map(|(i, _)| i).collect();
        let w = [if bins.is_empty() { 0 } else { 4 }, if counters.is_empty() { 0 } else { 3 }, if unary.is_empty() || !self.cfg.generative { 0 } else { 3 }];
        if w.iter().sum::<usize>() == 0 {
            return cmds;
        }
        match self.src.pick_weighted(&w) {
            0 => {
                let r = *self.src.pick(&bins);
                let ty = self.sig.funcs[r].args[0].clone();
                // a chain of 3..6 distinct values
                let n = 3 + self.src.below(4);
                let vals: Vec<Term> = match ty {
                    Ty::I64 => (0..n as i64).map(Term::I).collect(),
                    _ => {
                        let mut v: Vec<Term> = self.pool.iter().filter(|(t, _)| *t == ty).map(|(_, x)| x.clone()).collect();
                        v.truncate(n);
                        v
                    }
                };
                for wdw in vals.windows(2) {
                    cmds.push(Cmd::Act(Action::Expr(Term::App(r, vec![wdw[0].clone(), wdw[1].clone()]))));
                }
                let (x, y, z) = (Term::Var("tx".into()), Term::Var("ty".into()), Term::Var("tz".into()));
                cmds.push(Cmd::Rule {
                    body: vec![Fact::T(Term::App(r, vec![x.clone(), y.clone()])), Fact::T(Term::App(r, vec![y, z.clone()]))],
                    head: vec![Action::Expr(Term::App(r, vec![x, z]))],
                    opts: RuleOpts { ruleset: rs, ..Default::default() },
                });
                self.note_rule(rs, true);
            }
            1 => {
                let g = *self.src.pick(&counters);
                let decl = self.sig.funcs[g].clone();
                let args: Vec<Term> = decl.args.iter().map(|t| self.ground(t)).collect();
                cmds.push(Cmd::Act(Action::Set(g, args, Term::I(0))));
                let vars: Vec<Term> = (0..decl.args.len()).map(|i| Term::Var(format!("cv{i}"))).collect();
                let v = Term::Var("cval".into());
                let bound = 2 + self.src.below(5) as i64;
                cmds.push(Cmd::Rule {
                    body: vec![Fact::Eq(v.clone(), Term::App(g, vars.clone())), Fact::T(Term::Prim("<".into(), vec![v.clone(), Term::I(bound)]))],
                    head: vec![Action::Set(g, vars, Term::Prim("+".into(), vec![v, Term::I(1)]))],
                    opts: RuleOpts { ruleset: rs, ..Default::default() },
                });
                // bounded by the guard: terminates, finite
                self.note_rule(rs, true);
            }
            _ => {
                // tower growth with fuel: (rule ((= y (F x)) (Fuel n) ...)) is overkill; use depth-bounded rewrite F(F(x)) -> F(x) plus growth F(x) for leaves only
                let f = *self.src.pick(&unary);
                let ty = self.sig.funcs[f].out.clone();
                let leaves: Vec<Term> = self.pool.iter().filter(|(t, x)| *t == ty && x.size() == 1).map(|(_, x)| x.clone()).collect();
                let l = self.src.pick(&leaves).clone();
                let mut t = l.clone();
                let k = 2 + self.src.below(4);
                for _ in 0..k {
                    t = Term::App(f, vec![t]);
                }
                cmds.push(Cmd::Act(Action::Expr(t)));
                let x = Term::Var("gx".into());
                // collapse one level per iteration: F(F(x)) = F(x)
                cmds.push(Cmd::Rewrite { lhs: Term::App(f, vec![Term::App(f, vec![x.clone()])]), rhs: Term::App(f, vec![x]), when: vec![], subsume: false, bi: false, ruleset: rs });
                self.note_rule(rs, true);
            }
        }
        let n = 2 + self.src.below(4);
        if self.src.chance(1, 3) {
            cmds.push(Cmd::Sched(Sched::Saturate(vec![Sched::Run { rs, until: vec![] }])));
        } else {
            cmds.push(Cmd::RunN { rs, n, until: vec![] });
        }
        cmds
    }

    pub fn gen_prog(&mut self) -> Prog {
        self.gen_sig();
        let n = self.cfg.min_cmds + self.src.below(self.cfg.max_cmds - self.cfg.min_cmds + 1);
        let mut cmds = vec![];
        // phase 0: optional congruence towers F^k(a), F^k(b) whose leaves are unioned later
        let mut pending_unions: Vec<Cmd> = vec![];
        let unary: Vec<usize> = self.sig.funcs.iter().enumerate().filter(|(_, f)| f.is_ctor() && f.args.len() == 1 && f.args[0] == f.out).map(|(i, _)| i).collect();
        if !unary.is_empty() && self.src.chance(1, 2) {
            let f = *self.src.pick(&unary);
            let ty = self.sig.funcs[f].out.clone();
            let leaves: Vec<Term> = self.pool.iter().filter(|(t, x)| *t == ty && x.size() == 1).map(|(_, x)| x.clone()).collect();
            if leaves.len() >= 2 {
                let a = self.src.pick(&leaves).clone();
                let b = self.src.pick(&leaves).clone();
                let k = 1 + self.src.below(5);
                let tower = |mut t: Term| {
                    for _ in 0..k {
                        t = Term::App(f, vec![t]);
                    }
                    t
                };
                let (ta, tb) = (tower(a.clone()), tower(b.clone()));
                self.pool.push((ty.clone(), ta.clone()));
                self.pool.push((ty.clone(), tb.clone()));
                cmds.push(Cmd::Act(Action::Expr(ta)));
                cmds.push(Cmd::Act(Action::Expr(tb)));
                pending_unions.push(Cmd::Act(Action::Union(a, b)));
            }
        }
        // phase 0b: in-place container rebuild scenario (#831 / nested dirty-id shapes)
        if self.cfg.containers && self.src.chance(1, 2) {
            let sc = self.container_scenario();
            cmds.extend(sc);
        }
        // phase 0b': rows of a container-keyed function whose keys collapse after a union
        if self.cfg.containers && !self.cfg.no_container_func_keys && self.sig.funcs.iter().any(|f| f.is_func() && f.args.iter().any(|a| matches!(a, Ty::Cont(_)))) && self.src.chance(2, 3) {
            let sc = self.keyed_function_scenario();
            cmds.extend(sc);
        }
        // phase 0c: multi-iteration dynamics (transitive closure over a binary relation / bounded counter)
        if self.src.chance(2, 5) {
            let sc = self.dynamics_scenario();
            cmds.extend(sc);
        }
        // phase 1: populate
        let n_pop = 1 + self.src.below(5);
        for _ in 0..n_pop {
            let c = self.gen_toplevel_action();
            cmds.push(c);
        }
        for _ in 0..n {
            if self.src.exhausted() && cmds.len() >= self.cfg.min_cmds {
                break;
            }
            if !pending_unions.is_empty() && self.src.chance(1, 4) {
                cmds.push(pending_unions.pop().unwrap());
                continue;
            }
            let c = self.gen_cmd();
            cmds.push(c);
        }
        cmds.extend(pending_unions);
        Prog { sig: self.sig.clone(), cmds }
    }
}

fn has_prim(t: &Term) -> bool {
    match t {
        Term::Prim(..) => true,
        Term::App(_, a) => a.iter().any(has_prim),
        _ => false,
    }
}

fn has_const(t: &Term) -> bool {
    match t {
        Term::I(_) | Term::B(_) => true,
        Term::Var(_) => false,
        Term::App(_, a) | Term::Prim(_, a) => a.is_empty() || a.iter().any(has_const),
    }
}

pub fn cont_ctor(k: ContKind) -> &'static str {
    match k {
        ContKind::Vec => "vec-of",
        ContKind::Set => "set-of",
        ContKind::MultiSet => "multiset-of",
    }
}

fn self_arg_ty(s: &mut Src, sig: &Sig, containers: bool, for_ctor: bool) -> Ty {
    let _ = for_ctor;
    match s.below(8) {
        0 | 1 => Ty::I64,
        2 if containers && !sig.conts.is_empty() => Ty::Cont(s.below(sig.conts.len())),
        _ => Ty::Eq(s.below(sig.sorts.len())),
    }
}

/// Generic structural simplification of a program: drop one command, or one body
/// fact / head action of a rule.
pub fn simplify_prog(p: &Prog) -> Vec<Prog> {
    let mut out = vec![];
    // drop suffixes first (fast)
    if p.cmds.len() > 1 {
        let mut q = p.clone();
        q.cmds.truncate(p.cmds.len() / 2);
        out.push(q);
    }
    for i in (0..p.cmds.len()).rev() {
        let mut q = p.clone();
        q.cmds.remove(i);
        out.push(q);
    }
    for i in 0..p.cmds.len() {
        if let Cmd::Rule { body, head, opts } = &p.cmds[i] {
            if body.len() > 1 {
                for j in 0..body.len() {
                    let mut b = body.clone();
                    b.remove(j);
                    let mut q = p.clone();
                    q.cmds[i] = Cmd::Rule { body: b, head: head.clone(), opts: opts.clone() };
                    out.push(q);
                }
            }
            if head.len() > 1 {
                for j in 0..head.len() {
                    let mut h = head.clone();
                    h.remove(j);
                    let mut q = p.clone();
                    q.cmds[i] = Cmd::Rule { body: body.clone(), head: h, opts: opts.clone() };
                    out.push(q);
                }
            }
            if opts.naive || opts.no_decomp || opts.name.is_some() {
                let mut q = p.clone();
                q.cmds[i] = Cmd::Rule { body: body.clone(), head: head.clone(), opts: RuleOpts { ruleset: opts.ruleset, ..Default::default() } };
                out.push(q);
            }
        }
        if let Cmd::RunN { rs, n, until } = &p.cmds[i] {
            if *n > 1 {
                let mut q = p.clone();
                q.cmds[i] = Cmd::RunN { rs: *rs, n: n - 1, until: until.clone() };
                out.push(q);
            }
        }
    }
    out
}
