use vh::fw::{install_quiet_panic_hook, Report, Tier};

fn usage() -> ! {
    eprintln!("usage: vcheck <PROPERTY> [--tier quick|thorough] [--seed N] [--replay FILE]\n       vcheck --child <kind>   (internal)");
    std::process::exit(2)
}

fn main() {
    let args: Vec<String> = std::env::args().skip(1).collect();
    if args.is_empty() {
        usage();
    }
    if args[0] == "--child" {
        std::process::exit(vh::child::child_main(&args[1..]));
    }
    let prop = args[0].clone();
    let mut tier = match std::env::var("VERIF_TIER").as_deref() {
        Ok("thorough") => Tier::Thorough,
        _ => Tier::Quick,
    };
    let mut seed: u64 = std::env::var("VERIF_SEED").ok().and_then(|s| s.parse().ok()).unwrap_or(0);
    let mut replay: Option<String> = None;
    let mut i = 1;
    while i < args.len() {
        match args[i].as_str() {
            "--tier" => {
                tier = match args.get(i + 1).map(|s| s.as_str()) {
                    Some("quick") => Tier::Quick,
                    Some("thorough") => Tier::Thorough,
                    _ => usage(),
                };
                i += 2;
            }
            "--seed" => {
                seed = args.get(i + 1).and_then(|s| s.parse().ok()).unwrap_or_else(|| usage());
                i += 2;
            }
            "--replay" => {
                replay = Some(args.get(i + 1).cloned().unwrap_or_else(|| usage()));
                i += 2;
            }
            _ => usage(),
        }
    }
    install_quiet_panic_hook();
    let wd = std::env::var("VERIF_WATCHDOG_S").ok().and_then(|s| s.parse().ok()).unwrap_or(match tier { Tier::Quick => 420u64, Tier::Thorough => 1800 });
    vh::fw::spawn_watchdog(std::time::Duration::from_secs(wd));
    let mut rep = Report::new(&prop, tier, seed);
    if let Some(path) = replay {
        rep.strict = true;
        std::process::exit(vh::registry::replay(&rep, &path));
    }
    if !vh::registry::run(&rep) {
        eprintln!("unknown property {prop}");
        std::process::exit(2);
    }
    std::process::exit(rep.finish());
}
