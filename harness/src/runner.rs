//! Generic program runner: execute egglog text command by command under a
//! configuration, in-process or in a child (for env-gated parallel cut-offs,
//! crash isolation and time-outs). Used by the differential checks over the
//! repository's own .egg corpus and by C05/C06/C20.

use crate::child::{run_child, ChildJob, ChildResult};
use crate::eng::{canon_dump, err_kind, render_output};
use crate::fw::catch;
use egglog::{CommandOutput, EGraph};
use serde::{Deserialize, Serialize};
use std::collections::BTreeMap;
use std::time::Duration;

#[derive(Clone, Debug, Serialize, Deserialize)]
pub struct RunCfg {
    pub seminaive: bool,
    pub threads: usize,
    /// plain | term | proofs
    pub mode: String,
    pub no_decomp: bool,
    /// record a dump hash after every command (localises a divergence)
    pub dump_every: bool,
    /// include the final canonical dump
    pub final_dump: bool,
    /// include serde_json of every run report with durations zeroed
    pub reports: bool,
}

impl Default for RunCfg {
    fn default() -> Self {
        RunCfg { seminaive: true, threads: 1, mode: "plain".into(), no_decomp: false, dump_every: false, final_dump: true, reports: false }
    }
}

#[derive(Clone, Debug, Serialize, Deserialize, PartialEq)]
pub struct CmdOut {
    /// ok | err:<Kind> | panic
    pub res: String,
    pub text: String,
    pub out: Vec<String>,
    /// snapshot_stable_under_proof_encoding rendering
    pub stable: String,
    pub err: String,
}

#[derive(Clone, Debug, Serialize, Deserialize, Default)]
pub struct RunResult {
    pub parse_error: Option<String>,
    pub cmds: Vec<CmdOut>,
    pub dump: BTreeMap<String, Vec<String>>,
    pub dump_hashes: Vec<String>,
    pub reports: Vec<String>,
    pub sizes: BTreeMap<String, usize>,
    /// verif-hooks coverage counters (which size-gated code paths this process entered)
    #[serde(default)]
    pub paths: BTreeMap<String, u64>,
}

/// process-wide counters from the verif-hooks feature of core-relations
pub fn path_counters() -> BTreeMap<String, u64> {
    egglog_core_relations::verif::snapshot().into_iter().map(|(k, v)| (k.to_string(), v)).collect()
}

pub fn make_egraph(cfg: &RunCfg) -> EGraph {
    let mut eg = match cfg.mode.as_str() {
        "term" => EGraph::new_with_term_encoding(),
        "proofs" => EGraph::new_with_proofs(),
        _ => EGraph::default(),
    };
    if cfg.threads != 1 {
        eg = eg.with_num_threads(cfg.threads);
    }
    eg.seminaive = cfg.seminaive;
    eg.no_decomp = cfg.no_decomp;
    eg
}

fn zero_durations(j: &mut serde_json::Value) {
    match j {
        serde_json::Value::Object(m) => {
            if m.len() == 2 && m.contains_key("secs") && m.contains_key("nanos") {
                m.insert("secs".into(), 0.into());
                m.insert("nanos".into(), 0.into());
                return;
            }
            // maps keyed by rule name: sort is implicit in serde_json's BTreeMap (preserve_order off)
            for (_, v) in m.iter_mut() {
                zero_durations(v);
            }
        }
        serde_json::Value::Array(a) => a.iter_mut().for_each(zero_durations),
        _ => {}
    }
}

/// JSON text with object keys sorted (independent of serde_json's map flavour)
pub fn canon_json(j: &serde_json::Value) -> String {
    match j {
        serde_json::Value::Object(m) => {
            let mut keys: Vec<&String> = m.keys().collect();
            keys.sort();
            let parts: Vec<String> = keys.iter().map(|k| format!("{}:{}", serde_json::Value::String((*k).clone()), canon_json(&m[*k]))).collect();
            format!("{{{}}}", parts.join(","))
        }
        serde_json::Value::Array(a) => format!("[{}]", a.iter().map(canon_json).collect::<Vec<_>>().join(",")),
        other => other.to_string(),
    }
}

pub fn report_json(r: &egglog_reports::RunReport) -> String {
    let mut j = serde_json::to_value(r).unwrap_or(serde_json::Value::Null);
    zero_durations(&mut j);
    canon_json(&j)
}

/// Run `text` command by command. `file` is the name handed to the parser (spans, include resolution).
pub fn run_text(file: Option<String>, text: &str, cfg: &RunCfg) -> RunResult {
    let mut eg = make_egraph(cfg);
    let mut res = RunResult::default();
    let cmds = match catch(|| eg.parse_program(file.clone(), text)) {
        Ok(Ok(c)) => c,
        Ok(Err(e)) => {
            res.parse_error = Some(e.to_string());
            return res;
        }
        Err(p) => {
            res.parse_error = Some(format!("PANIC {p}"));
            return res;
        }
    };
    for c in cmds {
        let text = c.to_string();
        let r = catch(|| eg.run_program(vec![c]));
        let co = match r {
            Ok(Ok(outs)) => {
                if cfg.reports {
                    for o in &outs {
                        if let CommandOutput::RunSchedule(rep) = o {
                            res.reports.push(report_json(rep));
                        }
                    }
                }
                CmdOut {
                    res: "ok".into(),
                    text,
                    out: outs.iter().map(render_output).collect(),
                    stable: CommandOutput::snapshot_stable_under_proof_encoding(&outs),
                    err: String::new(),
                }
            }
            Ok(Err(e)) => CmdOut { res: format!("err:{:?}", err_kind(&e)), text, out: vec![], stable: String::new(), err: e.to_string() },
            Err(p) => CmdOut { res: "panic".into(), text, out: vec![], stable: String::new(), err: p },
        };
        let stop = co.res == "panic";
        res.cmds.push(co);
        if cfg.dump_every {
            res.dump_hashes.push(format!("{:016x}", canon_dump(&eg).hash()));
        }
        if stop {
            break;
        }
    }
    if cfg.final_dump {
        if let Ok(d) = catch(|| canon_dump(&eg)) {
            res.dump = d.tables;
        }
    }
    for (n, f) in eg.functions_iter() {
        if !f.is_hidden() && !n.starts_with('@') {
            res.sizes.insert(n.clone(), eg.get_size(n));
        }
    }
    res.paths = path_counters();
    res
}

/// child kind "run-prog": payload {file?, text, cfg}
pub fn child_run_prog(payload: &serde_json::Value) -> Option<serde_json::Value> {
    let cfg: RunCfg = serde_json::from_value(payload["cfg"].clone()).ok()?;
    let file = payload["file"].as_str().map(|s| s.to_string());
    let text = match payload["text"].as_str() {
        Some(t) => t.to_string(),
        None => std::fs::read_to_string(file.as_ref()?).ok()?,
    };
    let r = run_text(file, &text, &cfg);
    serde_json::to_value(r).ok()
}

pub enum ChildRun {
    Done(RunResult),
    Crashed(String),
    Deadlock,
    Timeout,
    Broken(String),
}

pub fn run_in_child(file: Option<&str>, text: Option<&str>, cfg: &RunCfg, env: &[(String, String)], timeout: Duration, cwd: Option<&str>) -> ChildRun {
    let mut payload = serde_json::json!({"cfg": cfg});
    if let Some(f) = file {
        payload["file"] = f.into();
    }
    if let Some(t) = text {
        payload["text"] = t.into();
    }
    let r = run_child(ChildJob { kind: "run-prog", payload, env: env.to_vec(), timeout, cwd: cwd.map(std::path::PathBuf::from) });
    match r {
        ChildResult::Ok(j) => match serde_json::from_value::<RunResult>(j) {
            Ok(r) => ChildRun::Done(r),
            Err(e) => ChildRun::Broken(e.to_string()),
        },
        ChildResult::Crashed { status, stderr } => ChildRun::Crashed(format!("{status}: {}", stderr.lines().rev().take(5).collect::<Vec<_>>().join(" | "))),
        ChildResult::Quiescent { .. } => ChildRun::Deadlock,
        ChildResult::Busy => ChildRun::Timeout,
        ChildResult::Broken(m) => ChildRun::Broken(m),
    }
}
