//! C05 — a function's value is the merge of everything ever written to its key.
//!
//! Case = one function with an ACI merge (min/max/nested, or/and,
//! set-union/set-intersect), a multiset of writes per key, a permutation and a
//! batching of those writes (one `set` per command / through a rule fed from a
//! relation in one iteration / across iterations / EGraph::update batches),
//! optionally eq-sort keys `(K i)` collapsed by unions before, between and after
//! the writes. Oracle: expected value per final key class = fold of the merge
//! over all values written to keys of that class; compared exactly with the
//! function's rows, in every configuration (threads x parallel cut-offs, in child
//! processes because the cut-offs are read once per process). For :no-merge:
//! the command that creates two different values for one key must fail, equal
//! values must not.

use crate::child::{run_child, ChildJob, ChildResult};
use crate::choice::{fnv_str, Src};
use crate::eng::{self, canon_dump, CmdRes};
use crate::fw::{catch, Outcome, Report, Stage, Tier};
use egglog::EGraph;
use serde::{Deserialize, Serialize};
use std::collections::{BTreeMap, BTreeSet};
use std::time::Duration;

#[derive(Clone, Copy, Debug, Serialize, Deserialize, PartialEq, Eq)]
pub enum MergeK {
    Min,
    Max,
    MinNested,
    Or,
    And,
    SetUnion,
    SetIntersect,
    /// (set-union old (set-union new old)) -- still ACI, result differs from both operands
    SetUnionNested,
    NoMerge,
}

#[derive(Clone, Debug, Serialize, Deserialize, PartialEq, Eq, PartialOrd, Ord)]
pub enum Val {
    I(i64),
    B(bool),
    S(BTreeSet<i64>),
}

#[derive(Clone, Copy, Debug, Serialize, Deserialize, PartialEq, Eq)]
pub enum Batching {
    /// every write is its own top-level command
    PerCommand,
    /// all pending writes go through relation W and one rule iteration
    RuleOneIteration,
    /// EGraph::update(|fs| { fs.set(..); fs.set(..); .. }) batches
    UpdateApi,
}

#[derive(Clone, Debug, Serialize, Deserialize)]
pub enum Op {
    Write(usize, Val),
    /// union of two keys (only with eq-sort keys)
    Union(usize, usize),
    /// flush the pending batch (rule run / update call)
    Flush,
}

#[derive(Clone, Debug, Serialize, Deserialize)]
pub struct Case {
    pub merge: MergeK,
    pub eq_keys: bool,
    pub batching: Batching,
    pub n_keys: usize,
    pub ops: Vec<Op>,
}

#[derive(Clone, Debug, Serialize, Deserialize)]
pub struct Config {
    pub threads: usize,
    pub cutoff0: bool,
}

fn val_sort(m: MergeK) -> &'static str {
    match m {
        MergeK::Min | MergeK::Max | MergeK::MinNested | MergeK::NoMerge => "i64",
        MergeK::Or | MergeK::And => "bool",
        _ => "IS",
    }
}

fn merge_text(m: MergeK) -> &'static str {
    match m {
        MergeK::Min => ":merge (min old new)",
        MergeK::Max => ":merge (max old new)",
        MergeK::MinNested => ":merge (min old (min new old))",
        MergeK::Or => ":merge (or old new)",
        MergeK::And => ":merge (and old new)",
        MergeK::SetUnion => ":merge (set-union old new)",
        MergeK::SetIntersect => ":merge (set-intersect old new)",
        MergeK::SetUnionNested => ":merge (set-union old (set-union new old))",
        MergeK::NoMerge => ":no-merge",
    }
}

fn fold(m: MergeK, a: &Val, b: &Val) -> Val {
    match (m, a, b) {
        (MergeK::Min | MergeK::MinNested, Val::I(x), Val::I(y)) => Val::I(*x.min(y)),
        (MergeK::Max, Val::I(x), Val::I(y)) => Val::I(*x.max(y)),
        (MergeK::Or, Val::B(x), Val::B(y)) => Val::B(*x || *y),
        (MergeK::And, Val::B(x), Val::B(y)) => Val::B(*x && *y),
        (MergeK::SetUnion | MergeK::SetUnionNested, Val::S(x), Val::S(y)) => Val::S(x.union(y).cloned().collect()),
        (MergeK::SetIntersect, Val::S(x), Val::S(y)) => Val::S(x.intersection(y).cloned().collect()),
        _ => a.clone(),
    }
}

fn val_text(v: &Val) -> String {
    match v {
        Val::I(i) => i.to_string(),
        Val::B(b) => b.to_string(),
        Val::S(s) => {
            if s.is_empty() {
                "(set-empty)".into()
            } else {
                format!("(set-of {})", s.iter().map(|x| x.to_string()).collect::<Vec<_>>().join(" "))
            }
        }
    }
}

/// rendering used by the canonical dump
fn val_dump(v: &Val) -> String {
    match v {
        Val::S(s) => {
            let mut parts: Vec<String> = s.iter().map(|x| x.to_string()).collect();
            parts.sort();
            if parts.is_empty() { "(set-of)".into() } else { format!("(set-of {})", parts.join(" ")) }
        }
        other => val_text(other),
    }
}

fn key_text(c: &Case, k: usize) -> String {
    if c.eq_keys { format!("(K {k})") } else { k.to_string() }
}

fn prelude(c: &Case) -> Vec<String> {
    let mut p = vec![];
    if val_sort(c.merge) == "IS" {
        p.push("(sort IS (Set i64))".to_string());
    }
    let ks = if c.eq_keys {
        p.push("(sort S)".into());
        p.push("(constructor K (i64) S)".into());
        "S"
    } else {
        "i64"
    };
    p.push(format!("(function f ({ks}) {} {})", val_sort(c.merge), merge_text(c.merge)));
    if c.batching == Batching::RuleOneIteration {
        p.push(format!("(relation W ({ks} {}))", val_sort(c.merge)));
        p.push("(rule ((W k v)) ((set (f k) v)))".into());
    }
    p
}

pub struct Expected {
    /// canonical key name -> value rendering
    pub rows: BTreeMap<String, String>,
    pub collisions: usize,
    pub result_differs_from_operands: bool,
    pub key_collapse: bool,
}

/// Expected final table: fold over all values written to keys of the same final class.
pub fn expected(c: &Case) -> Expected {
    let mut parent: Vec<usize> = (0..c.n_keys).collect();
    fn find(p: &Vec<usize>, mut x: usize) -> usize {
        while p[x] != x {
            x = p[x];
        }
        x
    }
    let mut key_collapse = false;
    for op in &c.ops {
        if let Op::Union(a, b) = op {
            let (ra, rb) = (find(&parent, *a), find(&parent, *b));
            if ra != rb {
                let (lo, hi) = (ra.min(rb), ra.max(rb));
                parent[hi] = lo;
                key_collapse = true;
            }
        }
    }
    let mut vals: BTreeMap<usize, Vec<Val>> = BTreeMap::new();
    for op in &c.ops {
        if let Op::Write(k, v) = op {
            vals.entry(find(&parent, *k)).or_default().push(v.clone());
        }
    }
    let mut rows = BTreeMap::new();
    let mut collisions = 0;
    let mut differs = false;
    for (root, vs) in &vals {
        let mut acc = vs[0].clone();
        for v in &vs[1..] {
            let r = fold(c.merge, &acc, v);
            if *v != acc {
                collisions += 1;
            }
            if r != acc && r != *v {
                differs = true;
            }
            acc = r;
        }
        // least-term name of the class = smallest member by (size, string); all members have the same size
        let name = if c.eq_keys {
            let mut members: Vec<String> = (0..c.n_keys).filter(|k| find(&parent, *k) == *root).map(|k| format!("(K {k})")).collect();
            members.sort();
            members[0].clone()
        } else {
            root.to_string()
        };
        rows.insert(name, val_dump(&acc));
    }
    Expected { rows, collisions, result_differs_from_operands: differs, key_collapse }
}

pub struct Observed {
    pub rows: BTreeMap<String, String>,
    pub error: Option<String>,
}

fn set_via_update(eg: &mut EGraph, c: &Case, batch: &[(usize, Val)]) -> Result<(), String> {
    // keys are i64 only in this mode
    let _ = c;
    let r = catch(|| {
        eg.update(|mut fs| {
            use egglog::Write;
            for (k, v) in batch {
                match v {
                    Val::I(i) => fs.set("f", (*k as i64,), *i)?,
                    Val::B(b) => fs.set("f", (*k as i64,), *b)?,
                    Val::S(_) => unreachable!(),
                }
            }
            Ok(())
        })
    });
    match r {
        Ok(Ok(())) => Ok(()),
        Ok(Err(e)) => Err(e.to_string()),
        Err(p) => Err(format!("PANIC {p}")),
    }
}

/// Execute the case on a fresh e-graph with `threads` threads (cut-offs come from the process environment).
pub fn execute(c: &Case, threads: usize) -> Observed {
    let mut eg = EGraph::default();
    if threads != 1 {
        eg = eg.with_num_threads(threads);
    }
    let fail = |e: String| Observed { rows: BTreeMap::new(), error: Some(e) };
    for d in prelude(c) {
        if let CmdRes::Err(_, e) | CmdRes::Panic(e) = eng::run(&mut eg, &d) {
            return fail(format!("prelude `{d}`: {e}"));
        }
    }
    if c.eq_keys {
        for k in 0..c.n_keys {
            if let CmdRes::Err(_, e) | CmdRes::Panic(e) = eng::run(&mut eg, &format!("(K {k})")) {
                return fail(e);
            }
        }
    }
    let mut pending: Vec<(usize, Val)> = vec![];
    let mut flush = |eg: &mut EGraph, pending: &mut Vec<(usize, Val)>| -> Result<(), String> {
        if pending.is_empty() {
            return Ok(());
        }
        match c.batching {
            Batching::PerCommand => {}
            Batching::RuleOneIteration => {
                let text: String = pending.iter().map(|(k, v)| format!("(W {} {})\n", key_text(c, *k), val_text(v))).collect();
                if let CmdRes::Err(_, e) | CmdRes::Panic(e) = eng::run(eg, &text) {
                    return Err(e);
                }
                if let CmdRes::Err(_, e) | CmdRes::Panic(e) = eng::run(eg, "(run 1)") {
                    return Err(e);
                }
            }
            Batching::UpdateApi => set_via_update(eg, c, pending)?,
        }
        pending.clear();
        Ok(())
    };
    for op in &c.ops {
        match op {
            Op::Write(k, v) => {
                if c.batching == Batching::PerCommand {
                    let t = format!("(set (f {}) {})", key_text(c, *k), val_text(v));
                    if let CmdRes::Err(_, e) | CmdRes::Panic(e) = eng::run(&mut eg, &t) {
                        return fail(format!("`{t}`: {e}"));
                    }
                } else {
                    pending.push((*k, v.clone()));
                }
            }
            Op::Union(a, b) => {
                if let Err(e) = flush(&mut eg, &mut pending) {
                    return fail(e);
                }
                let t = format!("(union (K {a}) (K {b}))");
                if let CmdRes::Err(_, e) | CmdRes::Panic(e) = eng::run(&mut eg, &t) {
                    return fail(format!("`{t}`: {e}"));
                }
            }
            Op::Flush => {
                if let Err(e) = flush(&mut eg, &mut pending) {
                    return fail(e);
                }
            }
        }
    }
    if let Err(e) = flush(&mut eg, &mut pending) {
        return fail(e);
    }
    let d = canon_dump(&eg);
    let mut rows = BTreeMap::new();
    for r in d.tables.get("f").cloned().unwrap_or_default() {
        // "(key) -> value"
        if let Some((k, v)) = r.split_once(" -> ") {
            if k.len() >= 2 {
                rows.insert(k[1..k.len() - 1].to_string(), v.to_string());
            }
        }
    }
    Observed { rows, error: None }
}

pub fn cutoff_env(zero: bool) -> Vec<(String, String)> {
    if !zero {
        return vec![];
    }
    ["DB_LEVEL_OP", "INDEX_CONSTRUCTION", "REBUILD", "INTRA_CONTAINER", "INTER_CONTAINER", "TABLE_OP"]
        .iter()
        .map(|n| (format!("EGGLOG_PARALLEL_{n}_CUTOFF"), "0".to_string()))
        .collect()
}

pub struct C05 {
    pub configs: Vec<Config>,
    pub name: &'static str,
}

fn gen_val(s: &mut Src, m: MergeK) -> Val {
    match val_sort(m) {
        "i64" => Val::I(s.range(-2, 6)),
        "bool" => Val::B(s.bool()),
        _ => {
            let n = s.below(4);
            Val::S((0..n).map(|_| s.range(0, 5)).collect())
        }
    }
}

impl C05 {
    fn compare(&self, c: &Case, exp: &Expected, obs: &Observed, label: &str, out: &mut Outcome) -> bool {
        if let Some(e) = &obs.error {
            if e.starts_with("PANIC") || e.contains("PANIC") {
                out.fail(format!("panic:{}", crate::fw::panic_key(e)), format!("[{label}] panicked: {e}"));
            } else {
                out.fail("unexpected-error", format!("[{label}] a write/union/run failed although the merge is total: {e}"));
            }
            return false;
        }
        if obs.rows != exp.rows {
            let kind = if exp.result_differs_from_operands { "merge-result-neither-operand" } else { "merge-result-is-an-operand" };
            out.fail(
                format!("wrong-merged-value:{}:{kind}", if label.contains("cutoff0") && label.contains("threads>1") { "parallel" } else { "serial" }),
                format!("[{label}] function f holds {:?} but the fold of {:?} over everything written per key class is {:?}", obs.rows, c.merge, exp.rows),
            );
            return false;
        }
        true
    }
}

impl Stage for C05 {
    type Input = Case;
    fn name(&self) -> &'static str {
        self.name
    }
    fn decode(&self, s: &mut Src) -> Case {
        let merge = *s.pick(&[MergeK::Min, MergeK::Max, MergeK::MinNested, MergeK::Or, MergeK::And, MergeK::SetUnion, MergeK::SetIntersect, MergeK::SetUnionNested, MergeK::SetUnion]);
        let eq_keys = s.chance(1, 2);
        let mut batching = *s.pick(&[Batching::PerCommand, Batching::RuleOneIteration, Batching::RuleOneIteration, Batching::UpdateApi]);
        if batching == Batching::UpdateApi && (eq_keys || val_sort(merge) == "IS") {
            batching = Batching::RuleOneIteration;
        }
        let n_keys = 1 + s.below(5);
        let n_ops = 2 + s.below(14);
        let mut ops = vec![];
        for _ in 0..n_ops {
            match s.below(10) {
                0 | 1 if eq_keys && n_keys >= 2 => ops.push(Op::Union(s.below(n_keys), s.below(n_keys))),
                2 => ops.push(Op::Flush),
                _ => ops.push(Op::Write(s.below(n_keys), gen_val(s, merge))),
            }
        }
        Case { merge, eq_keys, batching, n_keys, ops }
    }
    fn simplify(&self, c: &Case) -> Vec<Case> {
        let mut v = vec![];
        for i in (0..c.ops.len()).rev() {
            let mut d = c.clone();
            d.ops.remove(i);
            v.push(d);
        }
        v
    }
    fn render(&self, c: &Case) -> serde_json::Value {
        let ops: Vec<String> = c
            .ops
            .iter()
            .map(|o| match o {
                Op::Write(k, v) => format!("write f[{}] := {}", key_text(c, *k), val_text(v)),
                Op::Union(a, b) => format!("(union (K {a}) (K {b}))"),
                Op::Flush => "flush batch".into(),
            })
            .collect();
        serde_json::json!({"prelude": prelude(c), "batching": format!("{:?}", c.batching), "ops": ops})
    }
    fn check(&self, c: &Case) -> Outcome {
        let mut out = Outcome::new(fnv_str(&serde_json::to_string(c).unwrap()));
        let exp = expected(c);
        // in-process, one thread, default cut-offs
        let obs = execute(c, 1);
        if !self.compare(c, &exp, &obs, "threads=1 default cut-offs (in-process)", &mut out) {
            return out;
        }
        for cfg in &self.configs {
            let label = format!("threads{}{} {}", if cfg.threads > 1 { ">1=" } else { "=" }, cfg.threads, if cfg.cutoff0 { "cutoff0" } else { "default cut-offs" });
            let job = ChildJob {
                kind: "c05-case",
                payload: serde_json::json!({"case": c, "threads": cfg.threads}),
                env: cutoff_env(cfg.cutoff0),
                timeout: Duration::from_secs(60),
                cwd: None,
            };
            match run_child(job) {
                ChildResult::Ok(j) => {
                    out.count("child_runs", 1);
                    if let Some(m) = j["paths"].as_object() {
                        for (k, v) in m {
                            let n = v.as_u64().unwrap_or(0);
                            if n > 0 {
                                out.count(format!("path:{k}"), n);
                            }
                        }
                    }
                    let rows: BTreeMap<String, String> = serde_json::from_value(j["rows"].clone()).unwrap_or_default();
                    let error = j["error"].as_str().map(|s| s.to_string());
                    let obs = Observed { rows, error };
                    if !self.compare(c, &exp, &obs, &label, &mut out) {
                        return out;
                    }
                }
                ChildResult::Crashed { status, stderr } => {
                    out.fail(format!("child-crash:{}", crate::fw::panic_key(&stderr)), format!("[{label}] child crashed ({status}): {stderr}"));
                    return out;
                }
                ChildResult::Quiescent { .. } => {
                    out.fail("child-deadlock", format!("[{label}] child quiescent and unfinished"));
                    return out;
                }
                ChildResult::Busy | ChildResult::Broken(_) => {
                    out.class("child-inconclusive");
                }
            }
        }
        out.class(format!("merge:{:?}", c.merge));
        out.class(format!("batching:{:?}", c.batching));
        if exp.key_collapse {
            out.class("keys-collapsed-by-union");
        }
        if exp.result_differs_from_operands {
            out.class("merge-result-neither-operand");
        }
        out.nontrivial = exp.collisions >= 1;
        out
    }
}

// ---------------------------------------------------------------------------
// :no-merge stage
// ---------------------------------------------------------------------------

pub struct NoMergeStage;

impl Stage for NoMergeStage {
    type Input = Case;
    fn name(&self) -> &'static str {
        "no-merge"
    }
    fn decode(&self, s: &mut Src) -> Case {
        let eq_keys = s.chance(2, 3);
        let n_keys = 1 + s.below(4);
        let n_ops = 2 + s.below(8);
        let mut ops = vec![];
        for _ in 0..n_ops {
            match s.below(8) {
                0..=2 if eq_keys && n_keys >= 2 => ops.push(Op::Union(s.below(n_keys), s.below(n_keys))),
                _ => ops.push(Op::Write(s.below(n_keys), Val::I(s.range(0, 2)))),
            }
        }
        Case { merge: MergeK::NoMerge, eq_keys, batching: Batching::PerCommand, n_keys, ops }
    }
    fn simplify(&self, c: &Case) -> Vec<Case> {
        C05 { configs: vec![], name: "x" }.simplify(c)
    }
    fn render(&self, c: &Case) -> serde_json::Value {
        C05 { configs: vec![], name: "x" }.render(c)
    }
    fn check(&self, c: &Case) -> Outcome {
        let mut out = Outcome::new(fnv_str(&serde_json::to_string(c).unwrap()));
        let mut eg = EGraph::default();
        for d in prelude(c) {
            if !eng::run(&mut eg, &d).is_ok() {
                out.class("prelude-rejected");
                return out;
            }
        }
        if c.eq_keys {
            for k in 0..c.n_keys {
                eng::run(&mut eg, &format!("(K {k})"));
            }
        }
        // model: class -> value
        let mut parent: Vec<usize> = (0..c.n_keys).collect();
        fn find(p: &Vec<usize>, mut x: usize) -> usize {
            while p[x] != x {
                x = p[x];
            }
            x
        }
        let mut vals: BTreeMap<usize, i64> = BTreeMap::new();
        let mut conflicts_seen = 0;
        let mut equal_rewrites = 0;
        for (i, op) in c.ops.iter().enumerate() {
            let (text, expect_err) = match op {
                Op::Write(k, Val::I(v)) => {
                    let r = find(&parent, *k);
                    let conflict = matches!(vals.get(&r), Some(old) if old != v);
                    if vals.get(&r) == Some(v) {
                        equal_rewrites += 1;
                    }
                    if !conflict {
                        vals.insert(r, *v);
                    }
                    (format!("(set (f {}) {v})", key_text(c, *k)), conflict)
                }
                Op::Union(a, b) => {
                    let (ra, rb) = (find(&parent, *a), find(&parent, *b));
                    let conflict = ra != rb && matches!((vals.get(&ra), vals.get(&rb)), (Some(x), Some(y)) if x != y);
                    if ra != rb && !conflict {
                        let (lo, hi) = (ra.min(rb), ra.max(rb));
                        parent[hi] = lo;
                        if let Some(v) = vals.remove(&hi) {
                            vals.insert(lo, v);
                        }
                    }
                    (format!("(union (K {a}) (K {b}))"), conflict)
                }
                _ => continue,
            };
            let r = eng::run(&mut eg, &text);
            match (&r, expect_err) {
                (CmdRes::Panic(p), _) => {
                    out.fail(format!("panic:{}", crate::fw::panic_key(p)), format!("op #{i} `{text}` panicked: {p}"));
                    return out;
                }
                (CmdRes::Ok(_), true) => {
                    out.fail("no-merge-conflict-silently-accepted", format!("op #{i} `{text}` gives one key two different values of a :no-merge function, but the command returned Ok"));
                    return out;
                }
                (CmdRes::Err(..), true) => {
                    conflicts_seen += 1;
                    // the state after a failed command is C04's business; stop here
                    break;
                }
                (CmdRes::Err(_, e), false) => {
                    out.fail("no-merge-spurious-error", format!("op #{i} `{text}` writes no conflicting value, but failed: {e}"));
                    return out;
                }
                (CmdRes::Ok(_), false) => {}
            }
        }
        if conflicts_seen > 0 {
            out.class("conflict-rejected");
        }
        if equal_rewrites > 0 {
            out.class("equal-value-rewritten");
        }
        out.nontrivial = conflicts_seen > 0 || equal_rewrites > 0;
        out
    }
}

pub fn child(kind: &str, payload: &serde_json::Value) -> Option<serde_json::Value> {
    if kind != "c05-case" {
        return None;
    }
    let c: Case = serde_json::from_value(payload["case"].clone()).ok()?;
    let threads = payload["threads"].as_u64().unwrap_or(1) as usize;
    let obs = execute(&c, threads);
    Some(serde_json::json!({"rows": obs.rows, "error": obs.error, "paths": crate::runner::path_counters()}))
}

fn configs(t: Tier) -> Vec<Config> {
    match t {
        Tier::Quick => vec![Config { threads: 4, cutoff0: true }, Config { threads: 1, cutoff0: true }],
        Tier::Thorough => vec![
            Config { threads: 4, cutoff0: true },
            Config { threads: 1, cutoff0: true },
            Config { threads: 2, cutoff0: true },
            Config { threads: 16, cutoff0: true },
            Config { threads: 4, cutoff0: false },
        ],
    }
}

pub fn replay(rep: &Report, stage: &str, j: &serde_json::Value) -> i32 {
    match stage {
        "no-merge" => crate::registry::replay_stage(rep, &NoMergeStage, j),
        _ => crate::registry::replay_stage(rep, &C05 { configs: configs(Tier::Thorough), name: "merge-fold" }, j),
    }
}

pub fn run(rep: &Report) {
    rep.set_rule(
        "cases = one function with an ACI merge (min, max, nested min, or, and, set-union, set-intersect, nested set-union), 1-5 keys (i64 or eq-sort keys collapsed by unions), 2-15 writes/unions/flushes in a generated order and batching (per command / one rule iteration fed from a relation / EGraph::update batches), from proptest bytes; \
         expected table = fold of the merge over all values written per final key class; compared exactly in-process (1 thread) and in child processes with threads in {1,2,4,16} and all EGGLOG_PARALLEL_*_CUTOFF=0 so the parallel insert/rebuild paths run on small inputs; \
         :no-merge stage: the command creating two different values for one key (directly or through a key-collapsing union) must fail, equal values must not. \
         non-trivial = distinct case with at least one key collision with different values (resp. a rejected conflict or an accepted equal re-write)",
    );
    rep.assume("merge expressions used are associative, commutative and idempotent by construction");
    let st = C05 { configs: configs(rep.tier), name: "merge-fold" };
    rep.run_regressions(&st);
    rep.explore(&st, rep.tier.pick(500, 6000), 120);
    rep.run_regressions(&NoMergeStage);
    rep.explore(&NoMergeStage, rep.tier.pick(3000, 40_000), 80);
}
