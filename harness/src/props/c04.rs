//! C04 — the database is canonical and consistent after every command.
//!
//! Generated histories (all features, not only monotone) INCLUDING fault
//! sequences — rules that panic in the same iteration as rules that union /
//! insert, :no-merge conflicts (direct and through a union collapsing two
//! keys), failing primitives and failed lookups in actions — and after EVERY
//! command, failed or not, the validity predicate of inv.rs over the raw dump:
//! one row per key, every stored e-class id canonical (also inside
//! containers), no two congruent rows, equal container contents share one id,
//! serialize() agrees with the read API; plus "visible to the very next query":
//! `(check (= (f args..) <least term of its class>))` on a clone.

use super::*;
use crate::choice::{fnv_str, Src};
use crate::eng::{name_classes, raw_dump, TableKind, Val};
use crate::fw::{Outcome, Report, Stage};
use crate::inv;
use crate::pgen::{simplify_prog, Gen, GenCfg};
use egglog::EGraph;

pub struct C04 {
    pub cfg: GenCfg,
    pub name: &'static str,
}

/// Which kind of run-time failure a failing command was (for signatures and classes).
fn failure_kind(text: &str, err: &str) -> &'static str {
    if err.contains("boom") || err.contains("anic") && text.starts_with("(run") {
        "rule-panic"
    } else if err.contains("erge") || err.contains("NM") {
        "no-merge-conflict"
    } else if text.contains("(/ 1 0)") || text.contains("9223372036854775807") {
        "failing-primitive"
    } else {
        "other-runtime-error"
    }
}

/// (f) everything recorded as equal is visible to the next query
fn visible_probe(eg: &EGraph, probe: &mut Probe, out: &mut Outcome, idx: usize) {
    let d = raw_dump(eg);
    let namer = name_classes(&d);
    let ctor_tables: Vec<&crate::eng::RawTable> = d.tables.iter().filter(|t| t.kind == TableKind::Constructor && !t.hidden && !t.name.starts_with('@') && !t.rows.is_empty()).collect();
    if ctor_tables.is_empty() {
        return;
    }
    let mut clone = eg.clone();
    for _ in 0..3 {
        let t = ctor_tables[probe.below(ctor_tables.len())];
        let r = &t.rows[probe.below(t.rows.len())];
        let (outv, ins) = r.vals.split_last().unwrap();
        let Val::Class(..) = outv else { continue };
        let Some((_, oname)) = namer.name(outv) else { continue };
        let args: Option<Vec<String>> = ins.iter().map(|v| namer.name(v).map(|x| x.1)).collect();
        let Some(args) = args else { continue };
        if oname.contains(['?', '#', '[']) || args.iter().any(|a| a.contains(['?', '#', '['])) {
            continue;
        }
        let term = if args.is_empty() { format!("({})", t.name) } else { format!("({} {})", t.name, args.join(" ")) };
        let text = format!("(check (= {term} {oname}))");
        out.count("visibility_probes", 1);
        match eng::run(&mut clone, &text) {
            CmdRes::Ok(_) => {}
            CmdRes::Panic(p) => {
                out.fail(format!("panic:{}", crate::fw::panic_key(&p)), format!("after command #{idx}: `{text}` panicked: {p}"));
                return;
            }
            other => {
                out.fail(
                    "stored-row-not-visible-to-query",
                    format!("after command #{idx}: the read API shows the row {term} in the class of {oname}, but `{text}` gives {}", other.short()),
                );
                return;
            }
        }
    }
}

impl Stage for C04 {
    type Input = Prog;
    fn name(&self) -> &'static str {
        self.name
    }
    fn decode(&self, src: &mut Src) -> Prog {
        Gen::new(src, self.cfg.clone()).gen_prog()
    }
    fn render(&self, inp: &Prog) -> serde_json::Value {
        serde_json::json!(inp.text().lines().collect::<Vec<_>>())
    }
    fn simplify(&self, inp: &Prog) -> Vec<Prog> {
        simplify_prog(inp)
    }
    fn check(&self, prog: &Prog) -> Outcome {
        let mut out = Outcome::new(fnv_str(&prog.text()));
        let mut eg = engine();
        if !declare(&mut eg, &prog.sig, &mut out) {
            return out;
        }
        let mut probe = Probe(out.key);
        let mut uf_grew = false;
        let mut failed_then_continued = false;
        let mut pending_failure: Option<&'static str> = None;
        let mut last_total_classes = 0usize;
        for (i, c) in prog.cmds.iter().enumerate() {
            let text = prog.sig.cmd(c);
            let r = eng::run(&mut eg, &text);
            let mut failed: Option<&'static str> = None;
            match &r {
                CmdRes::Panic(p) => {
                    out.fail(format!("panic:{}", crate::fw::panic_key(p)), format!("command #{i} `{text}` panicked: {p}"));
                    return out;
                }
                CmdRes::Err(ErrKind::Static, m) => {
                    // generator produced something the type checker rejects: no effect expected; keep going
                    out.class("static-reject");
                    if std::env::var("VERIF_DEBUG").is_ok() {
                        eprintln!("static reject: {text}: {m}");
                    }
                }
                CmdRes::Err(ErrKind::Runtime, m) => {
                    let k = failure_kind(&text, m);
                    failed = Some(k);
                    out.class(format!("runtime-failure:{k}"));
                }
                _ => {}
            }
            if pending_failure.is_some() {
                failed_then_continued = true;
            }
            if failed.is_some() {
                pending_failure = failed;
            }
            // the validity predicate, after every command, failed or not
            if let Some(v) = inv::check_all(&eg) {
                let ctx = match failed.or(pending_failure) {
                    Some(k) => format!("-after-{k}"),
                    None => String::new(),
                };
                out.fail(format!("{}{}", v.sig, ctx), format!("after command #{i} `{text}` ({}): {}", r.short(), v.detail));
                return out;
            }
            visible_probe(&eg, &mut probe, &mut out, i);
            if out.fail.is_some() {
                return out;
            }
            // did the union-find grow? (number of distinct classes mentioned shrank while rows remain, or a union command succeeded)
            if matches!(c, Cmd::Act(Action::Union(..))) && r.is_ok() {
                uf_grew = true;
            }
            let d = raw_dump(&eg);
            let mut classes = std::collections::BTreeSet::new();
            for t in &d.tables {
                for row in &t.rows {
                    if let Some(Val::Class(s, _, c)) = row.vals.last() {
                        classes.insert((s.clone(), *c));
                    }
                }
            }
            if classes.len() < last_total_classes {
                uf_grew = true;
            }
            last_total_classes = classes.len();
        }
        if uf_grew {
            out.class("union-find-grew");
        }
        if failed_then_continued {
            out.class("failure-then-further-commands");
        }
        out.nontrivial = uf_grew || failed_then_continued;
        out
    }
}

pub fn cfg_plain() -> GenCfg {
    GenCfg { max_cmds: 18, min_cmds: 5, subsume: true, delete: true, containers: true, push_pop: true, extract_cmds: true, ..GenCfg::default() }
}
pub fn cfg_faults() -> GenCfg {
    GenCfg { faults: true, panics: true, ..cfg_plain() }
}

pub fn replay(rep: &Report, stage: &str, j: &serde_json::Value) -> i32 {
    match stage {
        "invariants-faults" => crate::registry::replay_stage(rep, &C04 { cfg: cfg_faults(), name: "invariants-faults" }, j),
        "many-containers" => crate::registry::replay_stage(rep, &super::c14::ManyContainers, j),
        "large-table" => crate::registry::replay_stage(rep, &super::c01::LargeTable, j),
        _ => crate::registry::replay_stage(rep, &C04 { cfg: cfg_plain(), name: "invariants" }, j),
    }
}

pub fn run(rep: &Report) {
    rep.set_rule(
        "cases = typed egglog histories with every feature (containers, subsume, delete, push/pop, schedules) and, in the fault stage, commands failing at run time (rule panic in the same iteration as union/insert rules, :no-merge conflicts direct or via key collapse, failing primitive or failed lookup in an action) at arbitrary positions; \
         after EVERY command the raw dump must satisfy: one row per key, all stored ids canonical (also inside containers), no congruent rows, equal container contents share an id, serialize() = read API, stored rows visible to (check ..) on a clone. \
         non-trivial = distinct history in which the union-find grew, or a command failed at run time on a non-empty database and further commands followed",
    );
    let plain = C04 { cfg: cfg_plain(), name: "invariants" };
    rep.run_regressions(&plain);
    rep.explore(&plain, rep.tier.pick(10_000, 80_000), 600);
    let faults = C04 { cfg: cfg_faults(), name: "invariants-faults" };
    rep.run_regressions(&faults);
    rep.explore(&faults, rep.tier.pick(12_000, 100_000), 600);
    // the same invariants on a state large enough for the incremental (index / val_index driven) rebuild paths, which
    // the short histories above never enter: C14's many-containers stage (bulk load of >1000 containers, directed
    // age-ordered unions, invariants after every command) is run here too
    rep.explore(&super::c14::ManyContainers, rep.tier.pick(80, 2500), 80);
    // likewise C01's large-table stage (>10 000 rows, a handful of unions: incremental, index-driven table rebuild);
    // its per-command checks include "no stored id is non-canonical"
    rep.explore(&super::c01::LargeTable, rep.tier.pick(32, 1000), 64);
}
