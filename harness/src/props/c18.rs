//! C18 — custom schedulers are offered every match, lose none, and keep the DB sound.
//!
//! A case = a typed program (signature, ground set-up actions, 1..5 named rules in the
//! rulesets `ra`/`rb`, combined as `rc`; a rule may be declared between two steps, when the
//! scheduler has stepped its ruleset already) x a scheduler policy implemented here (choose
//! all, choose none for k steps then all, pseudo-random subsets driven by a bit string
//! of the input, one at a time, back-off with bans and `can_stop`) x a script of steps;
//! every step = some top-level WRITES (unions of terms occurring in deferred matches,
//! subsumption of rows under deferred matches, inserts) followed by one
//! `EGraph::step_rules_with_scheduler`. The instrumented scheduler records every match
//! it is offered (raw values), what it chose and what it returned.
//!
//! Oracles, per step:
//!  (i)   offers. With E = all substitutions satisfying the rule body NOW (computed by
//!        the reference interpreter's nested-loop matcher `refegg::Model::matches` over
//!        the rows read through the public read API), R = the matches offered earlier
//!        and not chosen (harness bookkeeping), H = everything offered earlier, all
//!        projected on the variables the head uses and compared through least-term names
//!        under the equalities that hold just before the step:
//!        (a) every element of R is offered again (nothing dropped),
//!        (b) if the scheduler asked for new matches (its last `filter_matches` for the
//!            rule returned true, or the rule is new), every element of E that is not in
//!            H is offered (nothing lost; matches that arose while the scheduler did not
//!            seek must turn up when it seeks again),
//!        (c) every offered match is in R or in E (E is computed without subsumed rows:
//!            no fresh offer rests on a subsumed row).
//!        NOT asserted (the API does not promise it): order of offers, absence of
//!        duplicate offers, that applied matches are never offered again.
//!  (ii)  a choose-all scheduler gives, step by step, the same canonical dump as
//!        `EGraph::step_rules` on a second engine fed the same commands.
//!  (iii) fair stage (closed, subsume-free, lattice-free rules): draining with a fair
//!        variant of the policy reaches the same canonical dump as stepping the built-in
//!        runner to saturation on a fresh engine that got all writes up front.
//!  (iv)  `inv::check_all` after every step (also failing ones), plus: the canonical dump
//!        equals that of a reference engine on which precisely the chosen matches were
//!        applied as top-level actions (head instantiated with the least terms of the
//!        chosen values = "interpreted modulo the equalities that hold when applied").
//!  (v)   a step that fails (a chosen match of a `(panic "boom")` rule) returns Err, never
//!        unwinds; later steps with the same scheduler work and (i) keeps holding.
//!  (vi)  documented `can_stop` contract: it is only called in a step that did not change
//!        the database, and the report never says can_stop when the scheduler said no.
//!
//! Deviations from the brief, forced by the API: `Matches` exposes values only by variable
//! NAME (`Match::get_value`, which unwraps), and the names are those of the canonicalised
//! core rule. The module therefore prints `(= x (F y))` as `(= (F y) x)` (the core
//! canonicaliser substitutes the left variable of an equality away), probes candidate names
//! under catch_unwind inside `filter_matches`, and discards (counted) the rare case whose
//! head variables were renamed to generated names. Values are decoded against the engine
//! itself (no clone: clones share the ActionRegistry).

use super::*;
use crate::choice::{fnv_str, Src};
use crate::eng::{canon_from_raw, decode_val, name_classes, raw_dump, CanonDump, CanonOpts, Namer, RawDump, TableKind, Val};
use crate::fw::{catch, panic_key, Outcome, Report, Stage};
use crate::inv;
use crate::pgen::{Gen, GenCfg};
use crate::refegg::{Row, V};
use egglog::scheduler::{Matches, Scheduler, SchedulerId};
use egglog::{ArcSort, Value};
use egglog_numeric_id::NumericId;
use serde::{Deserialize, Serialize};
use serde_json::json;
use std::collections::{BTreeMap, BTreeSet};
use std::panic::AssertUnwindSafe;
use std::sync::{Arc, Mutex};

// ---------------------------------------------------------------------------
// input
// ---------------------------------------------------------------------------

#[derive(Clone, Debug, Serialize, Deserialize, PartialEq)]
pub struct RuleSpec {
    pub body: Vec<Fact>,
    pub head: Vec<Action>,
    /// 0 = ruleset ra, 1 = ruleset rb
    pub rs: u8,
    /// 0 = declared with the set-up; t > 0 = declared just before step t (the scheduler has stepped the ruleset already)
    #[serde(default)]
    pub add_at: u8,
}

#[derive(Clone, Debug, Serialize, Deserialize, PartialEq)]
pub enum Policy {
    /// choose everything, always seek (by `choose_all` or index by index)
    All { by_index: bool },
    /// choose nothing in the first k steps, everything afterwards
    NoneThenAll { k: u8 },
    /// per match one bit of `bits` (cyclic); two more bits decide whether to seek
    Random { bits: Vec<u8> },
    /// one match per rule and step (pick: 0 smallest, 1 largest, 2 middle raw tuple; dup = choose it twice)
    One { pick: u8, dup: bool },
    /// more than `limit` matches: ban the rule for `ban` steps (choose nothing, do not seek, can_stop=false), doubling both
    BackOff { limit: u8, ban: u8 },
}

#[derive(Clone, Debug, Serialize, Deserialize, PartialEq)]
pub enum Write {
    Static(Cmd),
    /// union the i-th eq-sort value occurring in a deferred match with the j-th other class of its sort
    UnionDeferred { i: u8, j: u8 },
    /// subsume the i-th constructor row touching a class that occurs in a deferred match
    SubsumeDeferred { i: u8 },
}

#[derive(Clone, Debug, Serialize, Deserialize, PartialEq)]
pub struct StepSpec {
    /// 0 ra, 1 rb, 2 rc (combined)
    pub rs: u8,
    pub writes: Vec<Write>,
}

#[derive(Clone, Debug, Serialize, Deserialize, PartialEq)]
pub struct Case {
    pub sig: Sig,
    pub setup: Vec<Cmd>,
    pub rules: Vec<RuleSpec>,
    pub policy: Policy,
    pub steps: Vec<StepSpec>,
}

#[derive(Clone, Copy, PartialEq, Eq, Debug)]
pub enum Mode {
    /// closed rules, subsume, lattice functions, failing steps
    Main,
    /// closed, subsume-free, lattice-free rules; fair drain; confluence clause
    Fair,
    /// generative rules, bounded steps
    Generative,
}

pub struct C18 {
    pub name: &'static str,
    pub mode: Mode,
}

const RS_NAMES: [&str; 3] = ["ra", "rb", "rc"];

fn policy_name(p: &Policy) -> &'static str {
    match p {
        Policy::All { by_index: false } => "all",
        Policy::All { by_index: true } => "all-by-index",
        Policy::NoneThenAll { .. } => "none-then-all",
        Policy::Random { .. } => "random",
        Policy::One { .. } => "one-at-a-time",
        Policy::BackOff { .. } => "back-off",
    }
}

// ---------------------------------------------------------------------------
// printing
// ---------------------------------------------------------------------------

/// `(= x (F y))` is printed as `(= (F y) x)`: the core canonicaliser replaces the LEFT variable of an
/// equality atom by the right-hand side, so this keeps the user's name `x` in the compiled rule.
fn fact_text(sig: &Sig, f: &Fact) -> String {
    match f {
        Fact::Eq(a @ Term::Var(_), b) if !matches!(b, Term::Var(_)) => format!("(= {} {})", sig.term(b), sig.term(a)),
        _ => sig.fact(f),
    }
}

fn rule_name(i: usize) -> String {
    format!("r{i}")
}

fn rule_text(sig: &Sig, i: usize, r: &RuleSpec) -> String {
    format!(
        "(rule ({}) ({}) :ruleset {} :name \"{}\")",
        r.body.iter().map(|f| fact_text(sig, f)).collect::<Vec<_>>().join(" "),
        r.head.iter().map(|a| sig.action(a)).collect::<Vec<_>>().join(" "),
        RS_NAMES[(r.rs as usize).min(1)],
        rule_name(i)
    )
}

fn write_text(sig: &Sig, w: &Write) -> String {
    match w {
        Write::Static(c) => sig.cmd(c),
        Write::UnionDeferred { i, j } => format!("<union deferred value #{i} with class #{j} of its sort>"),
        Write::SubsumeDeferred { i } => format!("<subsume row #{i} under a deferred match>"),
    }
}

// ---------------------------------------------------------------------------
// static analysis of a rule: variables, their types, aliases
// ---------------------------------------------------------------------------

struct RuleMeta {
    name: String,
    body: Vec<Fact>,
    head: Vec<Action>,
    rs: u8,
    /// all surface variables (body then head)
    cands: Vec<String>,
    types: BTreeMap<String, Ty>,
    /// variables equated with each other by explicit `(= x y)` body facts
    alias: Vec<BTreeSet<String>>,
    has_panic: bool,
}

fn action_terms(a: &Action) -> Vec<Term> {
    match a {
        Action::Expr(t) => vec![t.clone()],
        Action::Union(x, y) => vec![x.clone(), y.clone()],
        Action::Set(_, args, v) => args.iter().cloned().chain(std::iter::once(v.clone())).collect(),
        Action::Subsume(_, args) | Action::Delete(_, args) => args.clone(),
        Action::Panic(_) => vec![],
    }
}

fn is_int_prim(op: &str) -> bool {
    matches!(op, "+" | "-" | "*" | "min" | "max" | "<" | "<=" | ">" | ">=" | "!=")
}

fn infer_term(sig: &Sig, t: &Term, want: Option<&Ty>, env: &mut BTreeMap<String, Ty>) {
    match t {
        Term::Var(v) => {
            if let Some(ty) = want {
                env.entry(v.clone()).or_insert_with(|| ty.clone());
            }
        }
        Term::App(f, args) => {
            for (a, ty) in args.iter().zip(sig.funcs[*f].args.iter()) {
                infer_term(sig, a, Some(ty), env);
            }
        }
        Term::Prim(op, args) => {
            if is_int_prim(op) {
                for a in args {
                    infer_term(sig, a, Some(&Ty::I64), env);
                }
            }
        }
        _ => {}
    }
}

fn static_ty(sig: &Sig, t: &Term, env: &BTreeMap<String, Ty>) -> Option<Ty> {
    match t {
        Term::Var(v) => env.get(v).cloned(),
        Term::I(_) => Some(Ty::I64),
        Term::B(_) => Some(Ty::Bool),
        Term::App(f, _) => {
            let d = &sig.funcs[*f];
            if d.is_rel() { None } else { Some(d.out.clone()) }
        }
        Term::Prim(op, _) => matches!(op.as_str(), "+" | "-" | "*" | "min" | "max").then_some(Ty::I64),
    }
}

fn infer_types(sig: &Sig, body: &[Fact]) -> BTreeMap<String, Ty> {
    let mut env = BTreeMap::new();
    for _ in 0..3 {
        for f in body {
            match f {
                Fact::T(t) => infer_term(sig, t, None, &mut env),
                Fact::Eq(a, b) => {
                    infer_term(sig, a, None, &mut env);
                    infer_term(sig, b, None, &mut env);
                    let (ta, tb) = (static_ty(sig, a, &env), static_ty(sig, b, &env));
                    if let Some(t) = ta.clone().or(tb.clone()) {
                        infer_term(sig, a, Some(&t), &mut env);
                        infer_term(sig, b, Some(&t), &mut env);
                    }
                }
            }
        }
    }
    env
}

fn rule_meta(sig: &Sig, i: usize, r: &RuleSpec) -> RuleMeta {
    let mut cands = vec![];
    for f in &r.body {
        match f {
            Fact::Eq(a, b) => {
                a.vars(&mut cands);
                b.vars(&mut cands);
            }
            Fact::T(t) => t.vars(&mut cands),
        }
    }
    for a in &r.head {
        for t in action_terms(a) {
            t.vars(&mut cands);
        }
    }
    let mut alias: Vec<BTreeSet<String>> = vec![];
    for f in &r.body {
        if let Fact::Eq(Term::Var(a), Term::Var(b)) = f {
            let mut g: BTreeSet<String> = [a.clone(), b.clone()].into_iter().collect();
            let mut rest = vec![];
            for s in alias.drain(..) {
                if s.contains(a) || s.contains(b) {
                    g.extend(s);
                } else {
                    rest.push(s);
                }
            }
            rest.push(g);
            alias = rest;
        }
    }
    RuleMeta {
        name: rule_name(i),
        body: r.body.clone(),
        head: r.head.clone(),
        rs: r.rs.min(1),
        cands,
        types: infer_types(sig, &r.body),
        alias,
        has_panic: r.head.iter().any(|a| matches!(a, Action::Panic(_))),
    }
}

fn subst_term(t: &Term, s: &BTreeMap<String, Term>) -> Option<Term> {
    Some(match t {
        Term::Var(v) => s.get(v)?.clone(),
        Term::App(f, args) => Term::App(*f, args.iter().map(|a| subst_term(a, s)).collect::<Option<Vec<_>>>()?),
        Term::Prim(p, args) => Term::Prim(p.clone(), args.iter().map(|a| subst_term(a, s)).collect::<Option<Vec<_>>>()?),
        other => other.clone(),
    })
}

fn subst_action(a: &Action, s: &BTreeMap<String, Term>) -> Option<Action> {
    let st = |t: &Term| subst_term(t, s);
    let sv = |ts: &[Term]| ts.iter().map(|t| subst_term(t, s)).collect::<Option<Vec<_>>>();
    Some(match a {
        Action::Expr(t) => Action::Expr(st(t)?),
        Action::Union(x, y) => Action::Union(st(x)?, st(y)?),
        Action::Set(f, args, v) => Action::Set(*f, sv(args)?, st(v)?),
        Action::Subsume(f, args) => Action::Subsume(*f, sv(args)?),
        Action::Delete(f, args) => Action::Delete(*f, sv(args)?),
        Action::Panic(m) => Action::Panic(m.clone()),
    })
}

// ---------------------------------------------------------------------------
// the instrumented scheduler
// ---------------------------------------------------------------------------

#[derive(Clone, Debug)]
struct Call {
    rule: String,
    n: usize,
    tuple_len: usize,
    /// None: the rule has head variables but was never offered a match, so its names are not known yet
    vars: Option<Vec<String>>,
    tuples: Vec<Vec<u32>>,
    /// chosen indices, sorted, deduplicated (all of them after `choose_all`)
    chosen: Vec<usize>,
    seek: bool,
}

#[derive(Default)]
struct Shared {
    step_no: usize,
    force_all: bool,
    calls: Vec<Call>,
    can_stop: Vec<bool>,
    vars: BTreeMap<String, Vec<String>>,
    opaque: Vec<String>,
    bitpos: usize,
    /// back-off: rule -> (limit, ban length, banned until step)
    bo: BTreeMap<String, (usize, usize, usize)>,
    holding: BTreeMap<String, usize>,
    seeking: BTreeMap<String, bool>,
}

#[derive(Clone)]
struct Sched {
    policy: Policy,
    cands: Arc<BTreeMap<String, Vec<String>>>,
    sh: Arc<Mutex<Shared>>,
}

impl Sched {
    fn bit(&self, sh: &mut Shared) -> bool {
        let Policy::Random { bits } = &self.policy else { return false };
        if bits.is_empty() {
            return false;
        }
        let p = sh.bitpos;
        sh.bitpos += 1;
        (bits[(p / 8) % bits.len()] >> (p % 8)) & 1 == 1
    }
}

impl Scheduler for Sched {
    fn can_stop(&mut self, rules: &[&str], _ruleset: &str) -> bool {
        let mut sh = self.sh.lock().unwrap();
        let step = sh.step_no;
        let ok = sh.force_all
            || rules.iter().all(|r| {
                sh.holding.get(*r).copied().unwrap_or(0) == 0 && sh.seeking.get(*r).copied().unwrap_or(true) && sh.bo.get(*r).map(|b| b.2 <= step).unwrap_or(true)
            });
        sh.can_stop.push(ok);
        ok
    }

    fn filter_matches(&mut self, rule: &str, _ruleset: &str, m: &mut Matches) -> bool {
        let mut guard = self.sh.lock().unwrap();
        let sh = &mut *guard;
        let n = m.match_size();
        let tl = m.tuple_len();
        let vars: Option<Vec<String>> = if tl == 0 {
            Some(vec![])
        } else if let Some(v) = sh.vars.get(rule) {
            Some(v.clone())
        } else if n == 0 {
            None
        } else {
            // `Match::get_value` unwraps on an unknown name: probe under catch_unwind (inside our own frame)
            let mut got = vec![];
            for c in self.cands.get(rule).map(|v| v.as_slice()).unwrap_or(&[]) {
                let ok = std::panic::catch_unwind(AssertUnwindSafe(|| {
                    let _ = m.get_match(0).get_value(c);
                }))
                .is_ok();
                if ok {
                    got.push(c.clone());
                }
            }
            if got.len() != tl {
                sh.opaque.push(rule.to_string());
            }
            sh.vars.insert(rule.to_string(), got.clone());
            Some(got)
        };
        let names: Vec<String> = vars.clone().unwrap_or_default();
        let tuples: Vec<Vec<u32>> = (0..n).map(|i| names.iter().map(|v| m.get_match(i).get_value(v).rep()).collect()).collect();
        let mut order: Vec<usize> = (0..n).collect();
        order.sort_by(|a, b| tuples[*a].cmp(&tuples[*b]).then(a.cmp(b)));

        let step = sh.step_no;
        let mut picks: Vec<usize> = vec![];
        let mut all = false;
        let mut seek = true;
        if sh.force_all || sh.opaque.iter().any(|r| r == rule) {
            all = true;
        } else {
            match &self.policy {
                Policy::All { by_index } => {
                    if *by_index {
                        picks = order.iter().rev().copied().collect();
                    } else {
                        all = true;
                    }
                }
                Policy::NoneThenAll { k } => {
                    if step > *k as usize {
                        all = true;
                    }
                }
                Policy::Random { .. } => {
                    for i in &order {
                        if self.bit(sh) {
                            picks.push(*i);
                        }
                    }
                    let (b0, b1) = (self.bit(sh), self.bit(sh));
                    seek = b0 || b1;
                }
                Policy::One { pick, dup } => {
                    if n > 0 {
                        let i = match pick % 3 {
                            0 => order[0],
                            1 => order[n - 1],
                            _ => order[n / 2],
                        };
                        picks.push(i);
                        if *dup {
                            picks.push(i);
                        }
                    }
                }
                Policy::BackOff { limit, ban } => {
                    let e = sh.bo.entry(rule.to_string()).or_insert((*limit as usize, (*ban as usize).max(1), 0));
                    if step < e.2 {
                        seek = false;
                    } else if n > e.0 {
                        e.2 = step + e.1;
                        e.0 = (e.0 * 2).max(1);
                        e.1 *= 2;
                        seek = false;
                    } else {
                        all = true;
                    }
                }
            }
        }
        if all {
            m.choose_all();
        } else {
            for i in &picks {
                m.choose(*i);
            }
        }
        let mut chosen: Vec<usize> = if all { (0..n).collect() } else { picks.clone() };
        chosen.sort_unstable();
        chosen.dedup();
        sh.holding.insert(rule.to_string(), n - chosen.len());
        sh.seeking.insert(rule.to_string(), seek);
        sh.calls.push(Call { rule: rule.to_string(), n, tuple_len: tl, vars, tuples, chosen, seek });
        seek
    }
}

// ---------------------------------------------------------------------------
// matches by the reference matcher over the rows of the read API
// ---------------------------------------------------------------------------

/// A `refegg::Model` whose state mirrors the raw dump (classes = canonical ids). Returns the model and
/// the class table (model class index -> (sort name, canonical id)).
fn model_from_dump(sig: &Sig, d: &RawDump) -> Option<(Model, Vec<(String, u32)>)> {
    let mut m = Model::new(sig);
    let mut idx: BTreeMap<(String, u32), usize> = BTreeMap::new();
    let mut classes: Vec<(String, u32)> = vec![];
    for (fi, f) in sig.funcs.iter().enumerate() {
        let t = d.tables.iter().find(|t| t.name == f.name)?;
        for r in &t.rows {
            let (out, ins) = r.vals.split_last()?;
            let mut conv = |v: &Val, ty: &Ty, m: &mut Model| -> Option<V> {
                match (v, ty) {
                    (Val::Class(s, _, c), Ty::Eq(si)) => {
                        let key = (s.clone(), *c);
                        let i = match idx.get(&key) {
                            Some(i) => *i,
                            None => {
                                let i = m.st.parent.len();
                                m.st.parent.push(i);
                                m.st.class_sort.push(*si);
                                idx.insert(key.clone(), i);
                                classes.push(key);
                                i
                            }
                        };
                        Some(V::C(i))
                    }
                    (Val::Base(s), Ty::I64) => s.parse::<i64>().ok().map(V::I),
                    (Val::Base(s), Ty::Bool) => s.parse::<bool>().ok().map(V::B),
                    _ => None,
                }
            };
            let mut key = vec![];
            for (v, ty) in ins.iter().zip(f.args.iter()) {
                key.push(conv(v, ty, &mut m)?);
            }
            let o = if f.is_rel() { V::Unit } else { conv(out, &f.out, &mut m)? };
            let e = m.st.tables[fi].entry(key).or_insert(Row { out: o, subsumed: r.subsumed });
            e.subsumed &= r.subsumed;
        }
    }
    Some((m, classes))
}

fn clean(name: &str) -> bool {
    !name.contains(['?', '#', '['])
}

fn name_v(v: &V, classes: &[(String, u32)], namer: &Namer) -> Option<String> {
    match v {
        V::I(i) => Some(i.to_string()),
        V::B(b) => Some(b.to_string()),
        V::C(c) => {
            let n = namer.names.get(classes.get(*c)?)?.1.clone();
            clean(&n).then_some(n)
        }
        _ => None,
    }
}

// ---------------------------------------------------------------------------
// one run
// ---------------------------------------------------------------------------

struct Run<'a> {
    sig: &'a Sig,
    mode: Mode,
    metas: Vec<RuleMeta>,
    a: EGraph,
    id: SchedulerId,
    sh: Arc<Mutex<Shared>>,
    /// reference: precisely the chosen matches applied as top-level actions
    b: Option<EGraph>,
    /// built-in stepping (choose-all policies only)
    c: Option<EGraph>,
    /// fresh engine that gets every write and is saturated at the end (fair stage)
    d: Option<EGraph>,
    sorts: BTreeMap<String, ArcSort>,
    add_at: Vec<u8>,
    n_steps: usize,
    /// index of the scripted step being executed (drain steps count on)
    step_idx: usize,
    history: BTreeMap<String, BTreeSet<Vec<u32>>>,
    /// rule -> (raw tuple, canonical ids when it was last looked at)
    residual: BTreeMap<String, Vec<(Vec<u32>, Vec<u32>)>>,
    sought: BTreeMap<String, bool>,
    known_vals: BTreeSet<(String, u32)>,
    // statistics
    deferred_across_union: u64,
    deferred_total: u64,
    applied_deferred: u64,
    err_steps: u64,
    ok_after_err: u64,
    offers: u64,
    dup_offers: u64,
    dup_offers_var_free: u64,
    expected_total: u64,
    expected_new: u64,
    completeness_checks: u64,
    steps_done: u64,
    unnameable: u64,
    match_discards: u64,
    subsumed_seen: bool,
    var_free_offered: bool,
    not_seeking_steps: u64,
    can_stop_calls: u64,
}

enum StepEnd {
    Continue { changed: bool, can_stop: bool, offered: usize },
    Stop,
}

fn feed(eg: &mut Option<EGraph>, text: &str) {
    if let Some(e) = eg {
        if !eng::run(e, text).is_ok() {
            *eg = None;
        }
    }
}

impl<'a> Run<'a> {
    fn rules_of(&self, rs: u8) -> Vec<usize> {
        (0..self.metas.len()).filter(|i| self.declared_by(*i) && (rs >= 2 || self.metas[*i].rs == rs)).collect()
    }

    fn declared_by(&self, i: usize) -> bool {
        let at = self.add_at[i] as usize;
        at == 0 || at >= self.n_steps || at <= self.step_idx
    }

    fn canon_of(&self, sort: &str, rep: u32) -> u32 {
        match self.sorts.get(sort) {
            Some(s) => match decode_val(&self.a, s, Value::new_const(rep), 0) {
                Val::Class(_, _, c) => c,
                _ => rep,
            },
            None => rep,
        }
    }

    /// canonical ids of the eq-sort components of a raw tuple (base components as they are)
    fn canon_tuple(&self, meta: &RuleMeta, vars: &[String], reps: &[u32]) -> Vec<u32> {
        vars.iter()
            .zip(reps.iter())
            .map(|(v, r)| match meta.types.get(v) {
                Some(Ty::Eq(s)) => self.canon_of(&self.sig.sorts[*s], *r),
                _ => *r,
            })
            .collect()
    }

    /// least-term names of a raw tuple under the equalities of `namer` (`stale`: raw id -> canonical id there)
    fn name_tuple(&self, meta: &RuleMeta, vars: &[String], reps: &[u32], namer: &Namer, stale: &BTreeMap<(String, u32), u32>) -> Option<Vec<String>> {
        let mut out = vec![];
        for (v, r) in vars.iter().zip(reps.iter()) {
            let ty = meta.types.get(v)?;
            match ty {
                Ty::Eq(s) => {
                    let sn = self.sig.sorts[*s].clone();
                    let canon = stale.get(&(sn.clone(), *r)).copied().unwrap_or(*r);
                    let n = namer.names.get(&(sn, canon))?.1.clone();
                    if !clean(&n) {
                        return None;
                    }
                    out.push(n);
                }
                Ty::I64 | Ty::Bool => {
                    let sort = self.sorts.get(&self.sig.ty_name(ty))?;
                    match decode_val(&self.a, sort, Value::new_const(*r), 0) {
                        Val::Base(s) => out.push(s),
                        _ => return None,
                    }
                }
                Ty::Cont(_) => return None,
            }
        }
        Some(out)
    }

    /// resolve a write against the current database; None = nothing suitable
    fn resolve_write(&self, w: &Write) -> Option<String> {
        match w {
            Write::Static(c) => Some(self.sig.cmd(c)),
            Write::UnionDeferred { i, j } => {
                let d = raw_dump(&self.a);
                let namer = name_classes(&d);
                let mut deferred: BTreeSet<(String, u32)> = BTreeSet::new();
                for (rule, res) in &self.residual {
                    let meta = self.metas.iter().find(|m| &m.name == rule)?;
                    let vars = self.sh.lock().unwrap().vars.get(rule).cloned().unwrap_or_default();
                    for (raw, _) in res {
                        for (v, r) in vars.iter().zip(raw.iter()) {
                            if let Some(Ty::Eq(s)) = meta.types.get(v) {
                                let sn = self.sig.sorts[*s].clone();
                                let c = self.canon_of(&sn, *r);
                                deferred.insert((sn, c));
                            }
                        }
                    }
                }
                let all: Vec<(&(String, u32), &String)> = namer.names.iter().filter(|(_, n)| clean(&n.1)).map(|(k, n)| (k, &n.1)).collect();
                let mut firsts: Vec<(&(String, u32), &String)> = all.iter().filter(|(k, _)| deferred.contains(*k)).cloned().collect();
                if firsts.is_empty() {
                    firsts = all.clone();
                }
                if firsts.is_empty() {
                    return None;
                }
                firsts.sort_by(|x, y| x.1.cmp(y.1));
                let (ka, na) = firsts[*i as usize % firsts.len()];
                let mut others: Vec<&String> = all.iter().filter(|(k, _)| k.0 == ka.0 && *k != ka).map(|(_, n)| *n).collect();
                others.sort();
                if others.is_empty() {
                    return None;
                }
                let nb = others[*j as usize % others.len()];
                Some(format!("(union {na} {nb})"))
            }
            Write::SubsumeDeferred { i } => {
                let d = raw_dump(&self.a);
                let namer = name_classes(&d);
                let mut deferred: BTreeSet<(String, u32)> = BTreeSet::new();
                for (rule, res) in &self.residual {
                    let meta = self.metas.iter().find(|m| &m.name == rule)?;
                    let vars = self.sh.lock().unwrap().vars.get(rule).cloned().unwrap_or_default();
                    for (raw, _) in res {
                        for (v, r) in vars.iter().zip(raw.iter()) {
                            if let Some(Ty::Eq(s)) = meta.types.get(v) {
                                let sn = self.sig.sorts[*s].clone();
                                let c = self.canon_of(&sn, *r);
                                deferred.insert((sn, c));
                            }
                        }
                    }
                }
                let mut rows: Vec<(bool, String)> = vec![];
                for t in &d.tables {
                    if t.kind != TableKind::Constructor || t.hidden || t.name.starts_with('@') || t.in_sorts.is_empty() {
                        continue;
                    }
                    for r in &t.rows {
                        if r.subsumed {
                            continue;
                        }
                        let (_, ins) = r.vals.split_last()?;
                        let args: Option<Vec<String>> = ins.iter().map(|v| namer.name(v).map(|x| x.1)).collect();
                        let Some(args) = args else { continue };
                        if args.iter().any(|a| !clean(a)) {
                            continue;
                        }
                        let touches = r.vals.iter().any(|v| matches!(v, Val::Class(s, _, c) if deferred.contains(&(s.clone(), *c))));
                        rows.push((touches, format!("(subsume ({} {}))", t.name, args.join(" "))));
                    }
                }
                let mut pick: Vec<&String> = rows.iter().filter(|r| r.0).map(|r| &r.1).collect();
                if pick.is_empty() {
                    pick = rows.iter().map(|r| &r.1).collect();
                }
                pick.sort();
                if pick.is_empty() {
                    return None;
                }
                Some(pick[*i as usize % pick.len()].clone())
            }
        }
    }

    fn do_write(&mut self, w: &Write, out: &mut Outcome) -> bool {
        let Some(text) = self.resolve_write(w) else {
            out.count("writes_unresolved", 1);
            return true;
        };
        match eng::run(&mut self.a, &text) {
            CmdRes::Ok(_) => {
                out.count("writes", 1);
                if text.starts_with("(union") {
                    out.count("writes_union", 1);
                }
                if text.starts_with("(subsume") {
                    out.count("writes_subsume", 1);
                }
                feed(&mut self.b, &text);
                feed(&mut self.c, &text);
                feed(&mut self.d, &text);
                true
            }
            CmdRes::Panic(p) => {
                out.fail(format!("panic:{}", panic_key(&p)), format!("top-level write `{text}` between scheduler steps panicked: {p}"));
                false
            }
            CmdRes::Err(..) => {
                out.count("writes_rejected", 1);
                true
            }
        }
    }

    /// One scheduler step on ruleset `rs`, with all oracles. `t` is only for messages.
    fn step(&mut self, t: usize, rs: u8, force_all: bool, out: &mut Outcome) -> StepEnd {
        let rs_name = RS_NAMES[rs as usize % 3];
        self.step_idx = t;
        let in_rs = self.rules_of(rs % 3);

        // ---- before the step: rows, names, stale ids, residual drift
        if let Some(v) = inv::check_all(&self.a) {
            // not this property's business (top-level commands: C04); do not build on a broken database
            out.class("pre-step-database-not-canonical");
            let _ = v;
            return StepEnd::Stop;
        }
        let pre = raw_dump(&self.a);
        if pre.tables.iter().map(|t| t.rows.len()).sum::<usize>() > 700 {
            out.class("too-big");
            return StepEnd::Stop;
        }
        if pre.tables.iter().any(|t| t.rows.iter().any(|r| r.subsumed)) {
            self.subsumed_seen = true;
        }
        let pre_namer = name_classes(&pre);
        let pre_canon = canon_from_raw(&pre, &CanonOpts::default());
        let stale: BTreeMap<(String, u32), u32> = self.known_vals.iter().map(|(s, r)| ((s.clone(), *r), self.canon_of(s, *r))).collect();
        let mut stale_in_residual = false;
        {
            let vars_map = self.sh.lock().unwrap().vars.clone();
            let mut updates: Vec<(String, usize, Vec<u32>)> = vec![];
            for (rule, res) in &self.residual {
                let Some(meta) = self.metas.iter().find(|m| &m.name == rule) else { continue };
                let vars = vars_map.get(rule).cloned().unwrap_or_default();
                for (k, (raw, seen)) in res.iter().enumerate() {
                    let now = self.canon_tuple(meta, &vars, raw);
                    if now != *seen {
                        updates.push((rule.clone(), k, now.clone()));
                    }
                    if now != *raw {
                        stale_in_residual = true;
                    }
                }
            }
            for (rule, k, now) in updates {
                self.deferred_across_union += 1;
                self.residual.get_mut(&rule).unwrap()[k].1 = now;
            }
        }
        let expected = model_from_dump(self.sig, &pre);

        // ---- the step
        {
            let mut sh = self.sh.lock().unwrap();
            sh.step_no += 1;
            sh.force_all = force_all;
            sh.calls.clear();
            sh.can_stop.clear();
        }
        let id = self.id;
        let res = catch(|| self.a.step_rules_with_scheduler(id, rs_name));
        let (calls, can_stop_log, opaque) = {
            let sh = self.sh.lock().unwrap();
            (sh.calls.clone(), sh.can_stop.clone(), sh.opaque.clone())
        };
        self.steps_done += 1;
        let step_result = match res {
            Err(p) => {
                let sig = if stale_in_residual && p.contains("subsume lookup failed") {
                    "scheduler-residual-not-rebuilt:panic-on-apply".to_string()
                } else {
                    format!("panic:{}", panic_key(&p))
                };
                out.fail(sig, format!("step {t} (`{rs_name}`): step_rules_with_scheduler unwound instead of returning: {p}"));
                return StepEnd::Stop;
            }
            Ok(r) => r,
        };
        if !opaque.is_empty() {
            out.class("discard:head-variable-renamed-by-canonicaliser");
            return StepEnd::Stop;
        }
        let report_can_stop = step_result.as_ref().map(|r| r.can_stop).unwrap_or(false);
        let step_err = step_result.as_ref().err().map(|e| e.to_string());
        if let Some(e) = &step_err {
            self.err_steps += 1;
            let expected_err = self.metas.iter().any(|m| m.has_panic);
            if !expected_err {
                out.fail("scheduler-step-error", format!("step {t} (`{rs_name}`): no rule can fail, but the step returned Err: {e}"));
                return StepEnd::Stop;
            }
        } else if self.err_steps > 0 {
            self.ok_after_err += 1;
        }

        // ---- (i) offers
        let mut offered_total = 0usize;
        let mut chosen_named: Vec<(usize, Vec<String>, bool)> = vec![]; // (rule idx, names, was deferred)
        let mut ref_lost = false;
        for ri in &in_rs {
            let meta = &self.metas[*ri];
            let rule = meta.name.clone();
            let Some(call) = calls.iter().find(|c| c.rule == rule) else {
                if step_err.is_none() {
                    out.fail("filter-matches-not-called", format!("step {t} (`{rs_name}`): rule {rule} is in the ruleset but the scheduler was not consulted for it"));
                    return StepEnd::Stop;
                }
                continue;
            };
            offered_total += call.n;
            self.offers += call.n as u64;
            if call.tuple_len == 0 && call.n > 0 {
                self.var_free_offered = true;
            }
            if !call.seek {
                self.not_seeking_steps += 1;
            }
            let sought = self.sought.get(&rule).copied().unwrap_or(true);
            // expected matches now
            let e_set: Option<BTreeSet<Vec<String>>> = match &expected {
                None => None,
                Some((model, classes)) => match model.matches(&meta.body, false) {
                    Err(_) => {
                        self.match_discards += 1;
                        None
                    }
                    Ok(ms) => {
                        let proj: Vec<String> = match &call.vars {
                            Some(v) => v.clone(),
                            None => meta.cands.clone(),
                        };
                        let mut set = BTreeSet::new();
                        let mut ok = true;
                        for s in &ms {
                            let row: Option<Vec<String>> = proj.iter().map(|v| s.get(v).and_then(|x| name_v(x, classes, &pre_namer))).collect();
                            match row {
                                Some(r) => {
                                    set.insert(r);
                                }
                                None => ok = false,
                            }
                        }
                        if ok { Some(set) } else {
                            self.unnameable += 1;
                            None
                        }
                    }
                },
            };
            let Some(vars) = call.vars.clone() else {
                // never offered anything so far: then nothing may be pending
                if let Some(e) = &e_set {
                    if sought && !e.is_empty() {
                        out.fail(
                            "match-not-offered",
                            format!("step {t} (`{rs_name}`): rule {rule} `{}` has {} satisfying substitution(s), e.g. {:?} over {:?}, the scheduler sought new matches, but none was offered", rule_body_text(self.sig, meta), e.len(), e.iter().next().unwrap(), meta.cands),
                        );
                        return StepEnd::Stop;
                    }
                }
                self.sought.insert(rule.clone(), call.seek);
                continue;
            };
            let o_names: Vec<Option<Vec<String>>> = call.tuples.iter().map(|tp| self.name_tuple(meta, &vars, tp, &pre_namer, &stale)).collect();
            if o_names.iter().any(|x| x.is_none()) {
                self.unnameable += 1;
            }
            let o_set: BTreeSet<&Vec<String>> = o_names.iter().flatten().collect();
            if o_names.iter().flatten().count() > o_set.len() {
                if vars.is_empty() {
                    self.dup_offers_var_free += 1;
                } else {
                    self.dup_offers += 1;
                }
            }
            let all_named = o_names.iter().all(|x| x.is_some());
            let res_entries = self.residual.get(&rule).cloned().unwrap_or_default();
            let res_names: Vec<Option<Vec<String>>> = res_entries.iter().map(|(raw, _)| self.name_tuple(meta, &vars, raw, &pre_namer, &stale)).collect();
            let h_names: BTreeSet<Vec<String>> = self.history.get(&rule).map(|h| h.iter().filter_map(|raw| self.name_tuple(meta, &vars, raw, &pre_namer, &stale)).collect()).unwrap_or_default();
            // (a) residual offered again
            if all_named {
                for (k, rn) in res_names.iter().enumerate() {
                    let Some(rn) = rn else { continue };
                    if !o_set.contains(rn) {
                        out.fail(
                            "deferred-match-dropped",
                            format!(
                                "step {t} (`{rs_name}`): rule {rule}: the match {:?} = {:?} (raw ids {:?}) was offered earlier, not chosen, and is not offered in this step (offered now: {:?})",
                                vars, rn, res_entries[k].0, o_names
                            ),
                        );
                        return StepEnd::Stop;
                    }
                }
            }
            if let Some(e) = &e_set {
                // (b) nothing lost
                self.expected_total += e.len() as u64;
                if sought && all_named {
                    self.completeness_checks += 1;
                    self.expected_new += e.iter().filter(|m| !h_names.contains(*m)).count() as u64;
                    for m in e {
                        if !h_names.contains(m) && !o_set.contains(m) {
                            out.fail(
                                "match-not-offered",
                                format!(
                                    "step {t} (`{rs_name}`): rule {rule} `{}`: the substitution {:?} = {:?} satisfies the body, was never offered before, the scheduler sought new matches, but it is not among the {} offered matches {:?}",
                                    rule_body_text(self.sig, meta), vars, m, call.n, o_names
                                ),
                            );
                            return StepEnd::Stop;
                        }
                    }
                }
                // (c) every offer is deferred or a current match on live rows
                let res_set: BTreeSet<&Vec<String>> = res_names.iter().flatten().collect();
                let res_all_named = res_names.iter().all(|x| x.is_some());
                for (k, on) in o_names.iter().enumerate() {
                    let Some(on) = on else { continue };
                    if !e.contains(on) && !res_set.contains(on) && res_all_named {
                        let was = if h_names.contains(on) { "it was offered and applied earlier; " } else { "" };
                        out.fail(
                            "offered-match-not-satisfying-body",
                            format!(
                                "step {t} (`{rs_name}`): rule {rule} `{}`: offered match {:?} = {:?} (raw ids {:?}) is neither a deferred match nor a substitution satisfying the body over non-subsumed rows ({was}current satisfying substitutions: {:?})",
                                rule_body_text(self.sig, meta), vars, on, call.tuples[k], e
                            ),
                        );
                        return StepEnd::Stop;
                    }
                }
            }
            // chosen matches, named, for the reference engine
            let res_raw: BTreeSet<&Vec<u32>> = res_entries.iter().map(|(r, _)| r).collect();
            for k in &call.chosen {
                let deferred = res_raw.contains(&call.tuples[*k]) || res_names.iter().flatten().any(|r| Some(r) == o_names[*k].as_ref());
                if deferred {
                    self.applied_deferred += 1;
                }
                match &o_names[*k] {
                    Some(n) => chosen_named.push((*ri, n.clone(), deferred)),
                    None => ref_lost = true,
                }
            }
            // bookkeeping for the next step
            let chosen: BTreeSet<usize> = call.chosen.iter().copied().collect();
            let mut new_res = vec![];
            for (k, tp) in call.tuples.iter().enumerate() {
                self.history.entry(rule.clone()).or_default().insert(tp.clone());
                for (v, r) in vars.iter().zip(tp.iter()) {
                    if let Some(Ty::Eq(s)) = meta.types.get(v) {
                        self.known_vals.insert((self.sig.sorts[*s].clone(), *r));
                    }
                }
                if !chosen.contains(&k) {
                    new_res.push(tp.clone());
                }
            }
            self.deferred_total += new_res.len() as u64;
            self.sought.insert(rule.clone(), call.seek);
            self.residual.insert(rule, new_res.into_iter().map(|r| (r, vec![])).collect());
        }

        // ---- (iv) the database is canonical after the step, failed or not
        if let Some(v) = inv::check_all(&self.a) {
            let sig = if stale_in_residual { "scheduler-residual-not-rebuilt:noncanonical-row-after-step".to_string() } else { format!("{}-after-scheduler-step", v.sig) };
            out.fail(
                sig,
                format!(
                    "step {t} (`{rs_name}`, {}): the database is not canonical after the step{}: {}",
                    if step_err.is_some() { "returned Err" } else { "returned Ok" },
                    if stale_in_residual { " (a match deferred in an earlier step holds an e-class id that a union has displaced since)" } else { "" },
                    v.detail
                ),
            );
            return StepEnd::Stop;
        }
        let post = raw_dump(&self.a);
        let post_canon = canon_from_raw(&post, &CanonOpts::default());
        // refresh the canonical view of what is deferred now (unions of this step included)
        {
            let vars_map = self.sh.lock().unwrap().vars.clone();
            let keys: Vec<String> = self.residual.keys().cloned().collect();
            for rule in keys {
                let Some(mi) = self.metas.iter().position(|m| m.name == rule) else { continue };
                let vars = vars_map.get(&rule).cloned().unwrap_or_default();
                let entries = self.residual.get(&rule).cloned().unwrap_or_default();
                let upd: Vec<(Vec<u32>, Vec<u32>)> = entries.into_iter().map(|(raw, seen)| if seen.is_empty() { let c = self.canon_tuple(&self.metas[mi], &vars, &raw); (raw, c) } else { (raw, seen) }).collect();
                self.residual.insert(rule, upd);
            }
        }
        let changed = pre_canon != post_canon;

        // ---- (vi) can_stop contract
        self.can_stop_calls += can_stop_log.len() as u64;
        if !can_stop_log.is_empty() && changed && step_err.is_none() {
            out.fail(
                "can-stop-called-although-database-changed",
                format!("step {t} (`{rs_name}`): Scheduler::can_stop was called (documented: only when the runner is otherwise saturated) but the step changed the database:\n{}", pre_canon.diff(&post_canon)),
            );
            return StepEnd::Stop;
        }
        if report_can_stop && !can_stop_log.iter().any(|x| *x) {
            out.fail("report-can-stop-without-scheduler-consent", format!("step {t} (`{rs_name}`): the report says can_stop=true but Scheduler::can_stop returned {:?}", can_stop_log));
            return StepEnd::Stop;
        }

        if step_err.is_some() {
            // what a failed step leaves applied is engine-defined: the references cannot follow
            self.b = None;
            self.c = None;
            self.d = None;
            return StepEnd::Continue { changed, can_stop: false, offered: offered_total };
        }

        // ---- (iv) precisely the chosen matches were applied
        if ref_lost {
            self.b = None;
            out.count("reference_lost_unnameable", 1);
        }
        if self.b.is_some() {
            let mut seen: BTreeSet<(usize, Vec<String>)> = BTreeSet::new();
            let mut texts: Vec<String> = vec![];
            let mut ok = true;
            for (ri, names, _) in &chosen_named {
                if !seen.insert((*ri, names.clone())) {
                    continue;
                }
                let meta = &self.metas[*ri];
                let vars = self.sh.lock().unwrap().vars.get(&meta.name).cloned().unwrap_or_default();
                let mut s: BTreeMap<String, Term> = BTreeMap::new();
                for (v, n) in vars.iter().zip(names.iter()) {
                    match self.sig.parse_term(n) {
                        Some(t) => {
                            s.insert(v.clone(), t);
                        }
                        None => ok = false,
                    }
                }
                for g in &meta.alias {
                    if let Some(t) = g.iter().find_map(|v| s.get(v).cloned()) {
                        for v in g {
                            s.entry(v.clone()).or_insert_with(|| t.clone());
                        }
                    }
                }
                for act in &meta.head {
                    if matches!(act, Action::Panic(_)) {
                        continue;
                    }
                    match subst_action(act, &s) {
                        Some(a2) => texts.push(self.sig.action(&a2)),
                        None => ok = false,
                    }
                }
            }
            if !ok {
                self.b = None;
                out.count("reference_lost_head_variable", 1);
            } else {
                for tx in &texts {
                    if let Some(b) = &mut self.b {
                        match eng::run(b, tx) {
                            CmdRes::Ok(_) => {}
                            _ => {
                                self.b = None;
                                out.count("reference_lost_action_error", 1);
                            }
                        }
                    }
                }
            }
            if let Some(b) = &self.b {
                let db = canon_dump(b);
                out.count("reference_comparisons", 1);
                if db != post_canon {
                    let chosen_txt: Vec<String> = chosen_named.iter().map(|(ri, n, d)| format!("{}{:?}{}", self.metas[*ri].name, n, if *d { " (deferred earlier)" } else { "" })).collect();
                    out.fail(
                        "step-differs-from-applying-chosen-matches",
                        format!(
                            "step {t} (`{rs_name}`): database after the scheduler step (left) differs from a reference engine on which precisely the chosen matches {:?} were applied as top-level actions (right):\n{}",
                            chosen_txt,
                            post_canon.diff(&db)
                        ),
                    );
                    return StepEnd::Stop;
                }
            }
        }

        // ---- (ii) choose-all == built-in stepping
        if let Some(c) = &mut self.c {
            match catch(|| c.step_rules(rs_name)) {
                Ok(Ok(_)) => {
                    let dc = canon_dump(c);
                    out.count("builtin_comparisons", 1);
                    if dc != post_canon {
                        out.fail(
                            "choose-all-differs-from-builtin-stepping",
                            format!("step {t} (`{rs_name}`): database after a choose-all scheduler step (left) differs from EGraph::step_rules on an engine fed the same commands (right):\n{}", post_canon.diff(&dc)),
                        );
                        return StepEnd::Stop;
                    }
                }
                Ok(Err(e)) => {
                    out.fail("choose-all-differs-from-builtin-stepping", format!("step {t} (`{rs_name}`): the scheduler step returned Ok but EGraph::step_rules on an engine fed the same commands returned Err: {e}"));
                    return StepEnd::Stop;
                }
                Err(p) => {
                    out.fail(format!("panic:{}", panic_key(&p)), format!("step {t}: EGraph::step_rules(`{rs_name}`) panicked: {p}"));
                    return StepEnd::Stop;
                }
            }
        }
        StepEnd::Continue { changed, can_stop: report_can_stop, offered: offered_total }
    }

    fn residual_len(&self) -> usize {
        self.residual.values().map(|v| v.len()).sum()
    }
}

fn rule_body_text(sig: &Sig, m: &RuleMeta) -> String {
    format!("({}) => ({})", m.body.iter().map(|f| fact_text(sig, f)).collect::<Vec<_>>().join(" "), m.head.iter().map(|a| sig.action(a)).collect::<Vec<_>>().join(" "))
}

fn saturate_builtin(eg: &mut EGraph, rs: &str, max: usize) -> Option<CanonDump> {
    let mut last = canon_dump(eg);
    for _ in 0..max {
        match catch(|| eg.step_rules(rs)) {
            Ok(Ok(_)) => {}
            _ => return None,
        }
        let now = canon_dump(eg);
        if now == last {
            return Some(now);
        }
        last = now;
    }
    None
}

// ---------------------------------------------------------------------------
// generation
// ---------------------------------------------------------------------------

fn rename_rw(t: &Term) -> Term {
    match t {
        Term::Var(v) if v == "@rw" => Term::Var("rw0".into()),
        Term::App(f, a) => Term::App(*f, a.iter().map(rename_rw).collect()),
        Term::Prim(p, a) => Term::Prim(p.clone(), a.iter().map(rename_rw).collect()),
        o => o.clone(),
    }
}

fn map_terms_fact(f: &Fact, g: &dyn Fn(&Term) -> Term) -> Fact {
    match f {
        Fact::Eq(a, b) => Fact::Eq(g(a), g(b)),
        Fact::T(t) => Fact::T(g(t)),
    }
}

fn map_terms_action(a: &Action, g: &dyn Fn(&Term) -> Term) -> Action {
    match a {
        Action::Expr(t) => Action::Expr(g(t)),
        Action::Union(x, y) => Action::Union(g(x), g(y)),
        Action::Set(f, args, v) => Action::Set(*f, args.iter().map(g).collect(), g(v)),
        Action::Subsume(f, args) => Action::Subsume(*f, args.iter().map(g).collect()),
        Action::Delete(f, args) => Action::Delete(*f, args.iter().map(g).collect()),
        Action::Panic(m) => Action::Panic(m.clone()),
    }
}

fn plus_to_max(t: &Term) -> Term {
    match t {
        Term::Prim(p, a) if p == "+" => Term::Prim("max".into(), a.iter().map(plus_to_max).collect()),
        Term::App(f, a) => Term::App(*f, a.iter().map(plus_to_max).collect()),
        Term::Prim(p, a) => Term::Prim(p.clone(), a.iter().map(plus_to_max).collect()),
        o => o.clone(),
    }
}

impl C18 {
    fn cfg(&self) -> GenCfg {
        let base = GenCfg { max_cmds: 8, min_cmds: 2, containers: false, delete: false, schedules: false, push_pop: false, observe: false, rule_opts: false, combined: false, until: false, panics: false, faults: false, ..GenCfg::default() };
        match self.mode {
            Mode::Main => GenCfg { generative: false, subsume: true, funcs: true, ..base },
            Mode::Fair => GenCfg { generative: false, subsume: false, funcs: false, ..base },
            Mode::Generative => GenCfg { generative: true, subsume: true, funcs: true, ..base },
        }
    }

    fn decode_case(&self, src: &mut Src) -> Case {
        let mode = self.mode;
        let mut g = Gen::new(src, self.cfg());
        g.gen_sig();
        g.sig.rulesets.clear();
        g.sig.combined.clear();
        let mut setup = vec![];
        let n_setup = 4 + g.src.below(12);
        for _ in 0..n_setup {
            setup.push(g.gen_toplevel_action());
        }
        let n_rules = 1 + g.src.below(4);
        let mut rules: Vec<RuleSpec> = vec![];
        for _ in 0..n_rules {
            let cmd = if g.src.chance(1, 4) { g.gen_rewrite() } else { g.gen_rule() };
            let (body, head) = match cmd {
                Cmd::Rule { body, head, .. } => (body, head),
                Cmd::Rewrite { lhs, rhs, when, subsume, .. } => {
                    let (b, h) = Model::desugar_rewrite(&lhs, &rhs, &when, subsume);
                    (b.iter().map(|f| map_terms_fact(f, &rename_rw)).collect(), h.iter().map(|a| map_terms_action(a, &rename_rw)).collect())
                }
                _ => continue,
            };
            let mut head: Vec<Action> = head.into_iter().filter(|a| !matches!(a, Action::Delete(..))).collect();
            let mut body = body;
            if mode == Mode::Fair {
                // `(= z (+ a b))` feeding a head grows without bound; the confluence clause needs termination
                body = body.iter().map(|f| map_terms_fact(f, &plus_to_max)).collect();
                head = head.iter().map(|a| map_terms_action(a, &plus_to_max)).collect();
            }
            // heads that use no variable
            if g.src.chance(1, 6) {
                let rels: Vec<usize> = g.sig.funcs.iter().enumerate().filter(|(_, f)| f.is_rel()).map(|(i, _)| i).collect();
                if !rels.is_empty() && g.src.bool() {
                    let fi = *g.src.pick(&rels);
                    let tys = g.sig.funcs[fi].args.clone();
                    let args = tys.iter().map(|t| g.ground(t)).collect();
                    head = vec![Action::Expr(Term::App(fi, args))];
                } else {
                    let a = g.ground(&Ty::Eq(0));
                    let b = g.ground(&Ty::Eq(0));
                    head = vec![Action::Union(a, b)];
                }
            }
            if head.is_empty() {
                continue;
            }
            let rs = if g.src.chance(1, 3) { 1 } else { 0 };
            rules.push(RuleSpec { body, head, rs, add_at: 0 });
        }
        if mode != Mode::Fair && !rules.is_empty() && g.src.chance(1, 4) {
            // a failing rule, preferably next to others in rb
            let k = g.src.below(rules.len());
            let pos = g.src.below(rules[k].head.len() + 1);
            rules[k].head.insert(pos, Action::Panic("boom".into()));
            rules[k].rs = 1;
        }
        let policy = match g.src.below(10) {
            0 => Policy::All { by_index: false },
            1 => Policy::All { by_index: true },
            2 | 3 => Policy::NoneThenAll { k: 1 + g.src.below(3) as u8 },
            4 | 5 => {
                let n = 1 + g.src.below(6);
                Policy::Random { bits: (0..n).map(|_| g.src.byte()).collect() }
            }
            6 | 7 => Policy::One { pick: g.src.below(3) as u8, dup: g.src.chance(1, 3) },
            _ => Policy::BackOff { limit: g.src.below(4) as u8, ban: 1 + g.src.below(2) as u8 },
        };
        let n_steps = match mode {
            Mode::Generative => 2 + g.src.below(4),
            _ => 3 + g.src.below(6),
        };
        for k in 1..rules.len() {
            if g.src.chance(1, 5) {
                rules[k].add_at = 1 + g.src.below(n_steps - 1) as u8;
            }
        }
        let subsume = mode != Mode::Fair;
        let mut steps = vec![];
        for s in 0..n_steps {
            let rs = *g.src.pick(&[0u8, 2, 0, 1, 2]);
            let mut writes = vec![];
            if s > 0 {
                let n_w = g.src.pick_weighted(&[3, 5, 2]);
                for _ in 0..n_w {
                    let w = match g.src.pick_weighted(&[6, if subsume { 2 } else { 0 }, 3]) {
                        0 => Write::UnionDeferred { i: g.src.below(8) as u8, j: g.src.below(8) as u8 },
                        1 => Write::SubsumeDeferred { i: g.src.below(8) as u8 },
                        _ => Write::Static(g.gen_toplevel_action()),
                    };
                    writes.push(w);
                }
            }
            steps.push(StepSpec { rs, writes });
        }
        let mut sig = g.sig.clone();
        sig.rulesets = vec!["ra".into(), "rb".into()];
        sig.combined = vec![("rc".into(), vec![0, 1])];
        Case { sig, setup, rules, policy, steps }
    }
}

// ---------------------------------------------------------------------------
// the stage
// ---------------------------------------------------------------------------

impl Stage for C18 {
    type Input = Case;
    fn name(&self) -> &'static str {
        self.name
    }
    fn decode(&self, src: &mut Src) -> Case {
        self.decode_case(src)
    }
    fn render(&self, c: &Case) -> serde_json::Value {
        json!({
            "declarations": c.sig.prelude(),
            "setup": c.setup.iter().map(|x| c.sig.cmd(x)).collect::<Vec<_>>(),
            "rules": c.rules.iter().enumerate().map(|(i, r)| if r.add_at == 0 { rule_text(&c.sig, i, r) } else { format!("{}   ; declared just before step {}", rule_text(&c.sig, i, r), r.add_at) }).collect::<Vec<_>>(),
            "policy": format!("{:?}", c.policy),
            "steps": c.steps.iter().map(|s| json!({"ruleset": RS_NAMES[s.rs as usize % 3], "writes_before": s.writes.iter().map(|w| write_text(&c.sig, w)).collect::<Vec<_>>()})).collect::<Vec<_>>(),
        })
    }
    fn simplify(&self, c: &Case) -> Vec<Case> {
        let mut out = vec![];
        for i in (0..c.steps.len()).rev() {
            if c.steps.len() > 1 {
                let mut q = c.clone();
                q.steps.remove(i);
                out.push(q);
            }
            for j in 0..c.steps[i].writes.len() {
                let mut q = c.clone();
                q.steps[i].writes.remove(j);
                out.push(q);
            }
            if c.steps[i].rs != 0 {
                let mut q = c.clone();
                q.steps[i].rs = 0;
                out.push(q);
            }
        }
        for i in (0..c.rules.len()).rev() {
            if c.rules.len() > 1 {
                let mut q = c.clone();
                q.rules.remove(i);
                out.push(q);
            }
            if c.rules[i].body.len() > 1 {
                for j in 0..c.rules[i].body.len() {
                    let mut q = c.clone();
                    q.rules[i].body.remove(j);
                    out.push(q);
                }
            }
            if c.rules[i].head.len() > 1 {
                for j in 0..c.rules[i].head.len() {
                    let mut q = c.clone();
                    q.rules[i].head.remove(j);
                    out.push(q);
                }
            }
            if c.rules[i].rs != 0 {
                let mut q = c.clone();
                q.rules[i].rs = 0;
                out.push(q);
            }
        }
        for i in (0..c.setup.len()).rev() {
            let mut q = c.clone();
            q.setup.remove(i);
            out.push(q);
        }
        match &c.policy {
            Policy::NoneThenAll { k } if *k > 1 => {
                let mut q = c.clone();
                q.policy = Policy::NoneThenAll { k: k - 1 };
                out.push(q);
            }
            Policy::One { pick, dup } if *dup || *pick != 0 => {
                let mut q = c.clone();
                q.policy = Policy::One { pick: 0, dup: false };
                out.push(q);
            }
            Policy::Random { bits } if bits.len() > 1 => {
                let mut q = c.clone();
                q.policy = Policy::Random { bits: bits[..bits.len() - 1].to_vec() };
                out.push(q);
            }
            _ => {}
        }
        out
    }

    fn check(&self, case: &Case) -> Outcome {
        let rendered = serde_json::to_string(&self.render(case)).unwrap_or_default();
        let mut out = Outcome::new(fnv_str(&rendered));
        let sig = &case.sig;
        let pol = policy_name(&case.policy);
        out.class(format!("policy:{pol}"));
        let metas: Vec<RuleMeta> = case.rules.iter().enumerate().map(|(i, r)| rule_meta(sig, i, r)).collect();
        let choose_all = matches!(case.policy, Policy::All { .. });

        // ---- engines
        let mut a = EGraph::default();
        if !declare(&mut a, sig, &mut out) {
            return out;
        }
        let mut b = Some(EGraph::default());
        let mut c = if choose_all { Some(EGraph::default()) } else { None };
        let mut d = if self.mode == Mode::Fair { Some(EGraph::default()) } else { None };
        for e in [&mut b, &mut c, &mut d] {
            if let Some(x) = e {
                let mut scratch = Outcome::new(0);
                if !declare(x, sig, &mut scratch) {
                    *e = None;
                }
            }
        }
        let mut texts: Vec<String> = case.setup.iter().map(|x| sig.cmd(x)).collect();
        let n_setup = texts.len();
        texts.extend(case.rules.iter().enumerate().filter(|(_, r)| r.add_at == 0 || r.add_at as usize >= case.steps.len()).map(|(i, r)| rule_text(sig, i, r)));
        for (k, t) in texts.iter().enumerate() {
            match eng::run(&mut a, t) {
                CmdRes::Ok(_) => {
                    feed(&mut b, t);
                    feed(&mut c, t);
                    feed(&mut d, t);
                }
                CmdRes::Panic(p) => {
                    out.fail(format!("panic:{}", panic_key(&p)), format!("set-up command `{t}` panicked: {p}"));
                    return out;
                }
                CmdRes::Err(kind, m) => {
                    if k >= n_setup || kind == ErrKind::Static {
                        out.class("gen-invalid");
                        out.count("gen_invalid", 1);
                        if std::env::var("VERIF_DEBUG").is_ok() {
                            eprintln!("rejected: {t}: {m}");
                        }
                        return out;
                    }
                    // a set-up action failing at run time: skip it everywhere
                    out.count("setup_runtime_errors", 1);
                }
            }
        }
        let mut sorts: BTreeMap<String, ArcSort> = BTreeMap::new();
        for n in sig.sorts.iter().map(|s| s.as_str()).chain(["i64", "bool"]) {
            if let Some(s) = a.get_sort_by_name(n) {
                sorts.insert(n.to_string(), s.clone());
            }
        }
        let sh = Arc::new(Mutex::new(Shared::default()));
        let cands: BTreeMap<String, Vec<String>> = metas.iter().map(|m| (m.name.clone(), m.cands.clone())).collect();
        let id = a.add_scheduler(Box::new(Sched { policy: case.policy.clone(), cands: Arc::new(cands), sh: sh.clone() }));
        let mut run = Run {
            sig,
            mode: self.mode,
            metas,
            a,
            id,
            sh,
            b,
            c,
            d,
            sorts,
            add_at: case.rules.iter().map(|r| r.add_at).collect(),
            n_steps: case.steps.len(),
            step_idx: 0,
            history: BTreeMap::new(),
            residual: BTreeMap::new(),
            sought: BTreeMap::new(),
            known_vals: BTreeSet::new(),
            deferred_across_union: 0,
            deferred_total: 0,
            applied_deferred: 0,
            err_steps: 0,
            ok_after_err: 0,
            offers: 0,
            dup_offers: 0,
            dup_offers_var_free: 0,
            expected_total: 0,
            expected_new: 0,
            completeness_checks: 0,
            steps_done: 0,
            unnameable: 0,
            match_discards: 0,
            subsumed_seen: false,
            var_free_offered: false,
            not_seeking_steps: 0,
            can_stop_calls: 0,
        };

        // ---- scripted steps
        let mut stopped = false;
        'steps: for (t, st) in case.steps.iter().enumerate() {
            for (i, r) in case.rules.iter().enumerate() {
                if t > 0 && r.add_at as usize == t {
                    let text = rule_text(sig, i, r);
                    match eng::run(&mut run.a, &text) {
                        CmdRes::Ok(_) => {
                            out.count("rules_added_between_steps", 1);
                            feed(&mut run.b, &text);
                            feed(&mut run.c, &text);
                            feed(&mut run.d, &text);
                        }
                        CmdRes::Panic(p) => {
                            out.fail(format!("panic:{}", panic_key(&p)), format!("declaring `{text}` between scheduler steps panicked: {p}"));
                            stopped = true;
                            break 'steps;
                        }
                        CmdRes::Err(..) => {
                            out.class("gen-invalid");
                            stopped = true;
                            break 'steps;
                        }
                    }
                }
            }
            for w in &st.writes {
                if !run.do_write(w, &mut out) {
                    stopped = true;
                    break 'steps;
                }
            }
            match run.step(t, st.rs % 3, false, &mut out) {
                StepEnd::Continue { .. } => {}
                StepEnd::Stop => {
                    stopped = true;
                    break;
                }
            }
        }

        // ---- (iii) fair drain and confluence
        if run.mode == Mode::Fair && !stopped && out.fail.is_none() {
            let mut quiescent = false;
            // fair variant of the policy: one step as the policy says, then two steps choosing everything; the database is
            // saturated when the second of those (every rule was seeking on entry) changes nothing and defers nothing
            for k in 0..45 {
                match run.step(case.steps.len() + k, 2, k % 3 != 0, &mut out) {
                    StepEnd::Stop => {
                        stopped = true;
                        break;
                    }
                    StepEnd::Continue { changed, can_stop, offered } => {
                        if !changed && run.residual_len() == 0 && (can_stop || offered == 0) && k % 3 == 2 {
                            quiescent = true;
                            break;
                        }
                    }
                }
            }
            if quiescent && !stopped {
                out.class("drained");
                if let Some(dd) = &mut run.d {
                    match saturate_builtin(dd, "rc", 80) {
                        Some(want) => {
                            let got = canon_dump(&run.a);
                            out.count("confluence_comparisons", 1);
                            if got != want {
                                out.fail(
                                    "fair-scheduler-saturates-differently",
                                    format!(
                                        "closed, subsume-free rules: after draining the fair `{pol}` scheduler the database (left) differs from stepping the built-in runner to saturation on a fresh engine that got the same set-up and writes (right):\n{}",
                                        got.diff(&want)
                                    ),
                                );
                            }
                        }
                        None => out.class("builtin-saturation-unfinished"),
                    }
                }
            } else if !stopped {
                out.class("drain-unfinished");
            }
        }

        // ---- classification
        out.count("steps", run.steps_done);
        out.count("offers", run.offers);
        out.count("deferred_matches", run.deferred_total);
        out.count("deferred_across_union", run.deferred_across_union);
        out.count("applied_deferred", run.applied_deferred);
        out.count("err_steps", run.err_steps);
        out.count("ok_steps_after_err", run.ok_after_err);
        out.count("duplicate_offer_calls", run.dup_offers);
        out.count("duplicate_offer_calls_variable_free_head", run.dup_offers_var_free);
        out.count("expected_matches", run.expected_total);
        out.count("expected_matches_never_offered_before", run.expected_new);
        out.count("completeness_checks", run.completeness_checks);
        out.count("unnameable", run.unnameable);
        out.count("matcher_discards", run.match_discards);
        out.count("not_seeking_calls", run.not_seeking_steps);
        out.count("can_stop_calls", run.can_stop_calls);
        if run.deferred_total > 0 {
            out.class(format!("policy:{pol}:deferred"));
        }
        if run.deferred_across_union > 0 {
            out.class("deferred-across-union");
            out.class(format!("policy:{pol}:deferred-across-union"));
        }
        if run.applied_deferred > 0 {
            out.class("deferred-match-applied-later");
        }
        if run.err_steps > 0 {
            out.class("err-step");
            if run.ok_after_err > 0 {
                out.class("ok-step-after-err-step");
            }
        }
        if run.subsumed_seen {
            out.class("subsumed-rows-present");
        }
        if run.var_free_offered {
            out.class("variable-free-head-offered");
        }
        if run.dup_offers > 0 {
            out.class("duplicate-offer-observed");
        }
        if run.not_seeking_steps > 0 {
            out.class("not-seeking-observed");
        }
        out.nontrivial = run.deferred_across_union > 0;
        out
    }
}

// ---------------------------------------------------------------------------
// golden cases (the confirmed defect: deferred matches are not rebuilt)
// ---------------------------------------------------------------------------

fn golden_cases() -> Vec<Case> {
    let ctor = |n: &str, args: Vec<Ty>| FuncDecl { name: n.into(), kind: FKind::Ctor { cost: None, unextractable: false }, args, out: Ty::Eq(0) };
    let sig = Sig {
        sorts: vec!["S".into()],
        conts: vec![],
        funcs: vec![ctor("a0", vec![]), ctor("a1", vec![]), ctor("F0", vec![Ty::Eq(0)]), FuncDecl { name: "R0".into(), kind: FKind::Rel, args: vec![Ty::Eq(0)], out: Ty::I64 }],
        rulesets: vec!["ra".into(), "rb".into()],
        combined: vec![("rc".into(), vec![0, 1])],
    };
    let (a0, a1) = (Term::App(0, vec![]), Term::App(1, vec![]));
    let setup = vec![Cmd::Act(Action::Expr(Term::App(2, vec![a0.clone()]))), Cmd::Act(Action::Expr(Term::App(2, vec![a1.clone()])))];
    let (x, y) = (Term::Var("x".into()), Term::Var("y".into()));
    let insert = RuleSpec { body: vec![Fact::Eq(x.clone(), Term::App(2, vec![y.clone()]))], head: vec![Action::Expr(Term::App(3, vec![y.clone()]))], rs: 0, add_at: 0 };
    let subsume = RuleSpec { body: vec![Fact::Eq(x.clone(), Term::App(2, vec![y.clone()]))], head: vec![Action::Subsume(2, vec![y.clone()])], rs: 0, add_at: 0 };
    let mut out = vec![];
    for rule in [insert, subsume] {
        for (p, q) in [(a0.clone(), a1.clone()), (a1.clone(), a0.clone())] {
            for policy in [Policy::NoneThenAll { k: 1 }, Policy::One { pick: 0, dup: false }, Policy::One { pick: 1, dup: true }] {
                out.push(Case {
                    sig: sig.clone(),
                    setup: setup.clone(),
                    rules: vec![rule.clone()],
                    policy,
                    steps: vec![
                        StepSpec { rs: 0, writes: vec![] },
                        StepSpec { rs: 0, writes: vec![Write::Static(Cmd::Act(Action::Union(p.clone(), q.clone())))] },
                        StepSpec { rs: 2, writes: vec![] },
                    ],
                });
            }
        }
    }
    out
}

fn stage(name: &str) -> C18 {
    match name {
        "fair-confluence" => C18 { name: "fair-confluence", mode: Mode::Fair },
        "generative" => C18 { name: "generative", mode: Mode::Generative },
        _ => C18 { name: "scheduler-steps", mode: Mode::Main },
    }
}

pub fn child(_kind: &str, _payload: &serde_json::Value) -> Option<serde_json::Value> {
    None
}

pub fn replay(rep: &Report, stage_name: &str, j: &serde_json::Value) -> i32 {
    crate::registry::replay_stage(rep, &stage(stage_name), j)
}

pub fn run(rep: &Report) {
    rep.set_rule(
        "cases = typed egglog program (signature, ground set-up actions, 1..5 named rules in rulesets ra/rb combined as rc; rules and desugared rewrites with unions of bound variables, relation inserts, lattice sets, subsume, heads that use no variable, optionally one `(panic \"boom\")` rule, optionally a rule declared between two steps) \
         x scheduler policy implemented by the harness (choose all by choose_all / index by index, choose none for k steps then all, subsets from a bit string of the input, one at a time incl. choosing an index twice, back-off with bans, not seeking and can_stop=false) \
         x script of 2..8 steps, each = top-level writes resolved against the live database (union of a value occurring in a deferred match with another class, subsume of a row under a deferred match, generated inserts/unions/sets) then one step_rules_with_scheduler on ra, rb or rc; all from proptest bytes. \
         Per step: offers vs. the reference matcher over the read API (deferred matches kept, new satisfying substitutions offered when the scheduler seeks, every offer deferred or satisfying the body on non-subsumed rows), inv::check_all, canonical dump == reference engine with precisely the chosen matches applied as top-level actions, \
         choose-all == EGraph::step_rules, can_stop contract, Err steps return Err and later steps still work; fair stage: drained database == built-in saturation. \
         non-trivial = distinct case in which at least one match stayed deferred across a write or step that changed the canonical id of one of its values (a union displaced it)",
    );
    rep.assume("container-sorted rule variables are outside this check (residual matches holding container ids are canonicalised through the same union-find lookup by the fix, but the harness cannot name container values as ground terms)");
    rep.assume("not asserted because the Scheduler API does not promise it: order of offers, absence of duplicate offers, that an applied match is never offered again after its rows changed, when can_stop is called beyond 'only in a step without database change'");
    let main = stage("scheduler-steps");
    rep.run_regressions(&main);
    // VERIF_C18_SKIP_GOLDEN: sensitivity experiments only (does the random search find a defect without the hand-made cases?)
    for g in golden_cases().into_iter().filter(|_| std::env::var("VERIF_C18_SKIP_GOLDEN").is_err()) {
        rep.run_one(&main, &g);
    }
    rep.explore(&main, rep.tier.pick(24_000, 400_000), 600);
    let fair = stage("fair-confluence");
    rep.run_regressions(&fair);
    rep.explore(&fair, rep.tier.pick(8_000, 120_000), 600);
    let generative = stage("generative");
    rep.run_regressions(&generative);
    rep.explore(&generative, rep.tier.pick(8_000, 120_000), 600);
}
