//! One module per property, plus helpers shared by the model-based ones.

use crate::eng::{self, canon_dump, canon_from_raw, CanonOpts, CmdRes, ErrKind};
use crate::fw::Outcome;
use crate::prog::*;
use crate::refegg::{Model, Stop};
use egglog::EGraph;

pub mod c01;
pub mod c02;
pub mod c03;
pub mod c04;
pub mod c05;
pub mod c06;
pub mod c07;
pub mod c08;
pub mod c09;
pub mod c10;
pub mod c11;
pub mod c12;
pub mod c13;
pub mod c14;
pub mod lockstep;
pub mod corpus;
pub mod c15;
pub mod c16;
pub mod c17;
pub mod c18;
pub mod c19;
pub mod c20;

/// A fresh plain engine; in the "parallel-cutoff0" sub-run (EGGLOG_PARALLEL_*_CUTOFF=0 in the environment) it gets
/// 4 threads so that the parallel implementations of insert / delete / rehash / rebuild / container rebuild run.
pub fn engine() -> EGraph {
    if std::env::var("VERIF_SUBRUN").as_deref() == Ok("parallel-cutoff0") {
        EGraph::default().with_num_threads(3)
    } else {
        EGraph::default()
    }
}

/// Re-run the calling check once more in a sub-process with all parallel cut-offs at 0 (see `engine`).
pub fn parallel_subrun(rep: &crate::fw::Report) {
    if std::env::var("VERIF_SUBRUN").is_err() {
        let env: Vec<(String, String)> = ["DB_LEVEL_OP", "INDEX_CONSTRUCTION", "REBUILD", "INTRA_CONTAINER", "INTER_CONTAINER", "TABLE_OP"]
            .iter()
            .map(|n| (format!("EGGLOG_PARALLEL_{n}_CUTOFF"), "0".to_string()))
            .collect();
        rep.run_self_with_env("parallel-cutoff0", &env);
    }
}

/// Deterministic pseudo-random stream derived from the case itself (a pure
/// function of the input; used only to choose which observations to make).
pub struct Probe(pub u64);
impl Probe {
    pub fn next(&mut self) -> u64 {
        self.0 = self.0.wrapping_mul(6364136223846793005).wrapping_add(1442695040888963407);
        (self.0 >> 33) ^ (self.0 >> 11)
    }
    pub fn below(&mut self, n: usize) -> usize {
        if n == 0 { 0 } else { (self.next() % n as u64) as usize }
    }
}

pub enum Step {
    /// both sides executed the command
    Both,
    /// stop the case here (model refuses / generator produced something the engine rejects statically)
    Stop,
}

/// Declare the signature; None if the engine rejects a declaration (generator bug: counted, not a violation).
pub fn declare(eg: &mut EGraph, sig: &Sig, out: &mut Outcome) -> bool {
    for d in sig.prelude() {
        match eng::run(eg, &d) {
            CmdRes::Ok(_) => {}
            CmdRes::Panic(p) => {
                out.fail(format!("panic:{}", crate::fw::panic_key(&p)), format!("declaration `{d}` panicked: {p}"));
                return false;
            }
            CmdRes::Err(_, e) => {
                out.class("gen-invalid-decl");
                out.count("gen_invalid", 1);
                if std::env::var("VERIF_DEBUG").is_ok() {
                    eprintln!("declaration rejected: {d}: {e}");
                }
                return false;
            }
        }
    }
    true
}

/// Run one command on the model and on the engine and compare the command-level
/// result (Ok/Err, check outcome). Does not compare dumps.
pub fn step_both(eg: &mut EGraph, model: &mut Model, sig: &Sig, idx: usize, c: &Cmd, out: &mut Outcome) -> Step {
    let text = sig.cmd(c);
    let m = model.apply(c);
    match &m {
        Err(Stop::Discard(why)) => {
            out.class(format!("model-discard:{}", why.split(':').next().unwrap_or(why)));
            return Step::Stop;
        }
        _ => {}
    }
    let e = eng::run(eg, &text);
    match (&m, &e) {
        (_, CmdRes::Panic(p)) => {
            out.fail(format!("panic:{}", crate::fw::panic_key(p)), format!("command #{idx} `{text}` panicked: {p}"));
            Step::Stop
        }
        (Err(Stop::Discard(_)), _) => Step::Stop,
        (Err(Stop::Error(me)), CmdRes::Err(..)) => {
            let _ = me;
            out.class("both-error");
            // after a failing command the model's state is not defined; stop here
            Step::Stop
        }
        (Err(Stop::Error(me)), CmdRes::Ok(_)) => {
            out.fail("engine-accepted-erroneous-command", format!("command #{idx} `{text}`: model says error ({me}) but engine returned Ok"));
            Step::Stop
        }
        (Ok(_), CmdRes::Err(ErrKind::Static, msg)) => {
            out.class("gen-invalid-cmd");
            out.count("gen_invalid", 1);
            if std::env::var("VERIF_DEBUG").is_ok() {
                eprintln!("command rejected statically: {text}: {msg}");
            }
            Step::Stop
        }
        (Ok(Some(expected)), CmdRes::Err(ErrKind::Check, _)) => {
            if *expected {
                out.fail("check-false-negative", format!("command #{idx} `{text}`: holds in the reference model but the engine's check failed"));
                Step::Stop
            } else {
                Step::Both
            }
        }
        (Ok(Some(expected)), CmdRes::Ok(_)) => {
            if !*expected {
                out.fail("check-false-positive", format!("command #{idx} `{text}`: does not hold in the reference model but the engine's check succeeded"));
                Step::Stop
            } else {
                Step::Both
            }
        }
        (Ok(_), CmdRes::Err(k, msg)) => {
            out.fail(format!("engine-error:{:?}", k), format!("command #{idx} `{text}` is valid (the model executes it) but the engine returned: {msg}"));
            Step::Stop
        }
        (Ok(None), CmdRes::Ok(_)) => Step::Both,
    }
}

/// Compare canonical dumps of engine and model.
pub fn compare_dumps(eg: &EGraph, model: &Model, what: &str, out: &mut Outcome) -> bool {
    let ed = canon_dump(eg);
    let md = canon_from_raw(&model.raw_dump(), &CanonOpts::default());
    if ed != md {
        out.fail("dump-differs-from-model", format!("{what}: engine database (left) differs from reference model (right):\n{}", ed.diff(&md)));
        false
    } else {
        true
    }
}
