//! Model-based lockstep stage shared by C01 (congruence closure), C13
//! (subsumption / deletion) and C14 (containers).
//!
//! Generated histories run in lockstep on the engine and on the naive
//! reference interpreter. After EVERY command: (1) canonical dumps must be
//! isomorphic (every table, every class named by its least term), (2) on a clone
//! of the engine, `(check (= t1 t2))` for sampled pairs of ground terms must
//! succeed exactly for the pairs the model puts in one class, (3) `(extract t)`
//! must print a term of t's class, equal for equal terms and different otherwise.

use super::*;
use crate::choice::{fnv_str, Src};
use crate::fw::{Outcome, Stage};
use crate::pgen::{simplify_prog, Gen, GenCfg};
use serde::{Deserialize, Serialize};

#[derive(Clone, Serialize, Deserialize)]
pub struct Case {
    pub prog: Prog,
    pub probe: u64,
}

#[derive(Clone, Copy, PartialEq, Eq)]
pub enum Mode {
    C01,
    C13,
    C14,
}

pub struct Lockstep {
    pub name: &'static str,
    pub mode: Mode,
    pub cfg: GenCfg,
    pub pairs_per_prefix: usize,
    /// run the engine with semi-naive evaluation off (needed once `delete` makes the program non-monotone)
    pub naive_engine: bool,
}

pub fn all_ground_terms(p: &Prog) -> Vec<Term> {
    fn walk_fact(f: &Fact, out: &mut Vec<Term>) {
        match f {
            Fact::Eq(a, b) => {
                collect(a, out);
                collect(b, out);
            }
            Fact::T(t) => collect(t, out),
        }
    }
    fn ground(t: &Term) -> bool {
        let mut v = vec![];
        t.vars(&mut v);
        v.is_empty()
    }
    fn collect(t: &Term, out: &mut Vec<Term>) {
        let mut subs = vec![];
        t.subterms(&mut subs);
        for s in subs {
            if matches!(s, Term::App(..)) && ground(&s) && !out.contains(&s) {
                out.push(s);
            }
        }
    }
    let mut out = vec![];
    for c in &p.cmds {
        match c {
            Cmd::Act(Action::Expr(t)) => collect(t, &mut out),
            Cmd::Act(Action::Union(a, b)) => {
                collect(a, &mut out);
                collect(b, &mut out);
            }
            Cmd::Act(Action::Set(f, args, _)) | Cmd::Act(Action::Subsume(f, args)) | Cmd::Act(Action::Delete(f, args)) => {
                collect(&Term::App(*f, args.clone()), &mut out)
            }
            Cmd::Check(fs) => fs.iter().for_each(|f| walk_fact(f, &mut out)),
            _ => {}
        }
    }
    out
}

impl Lockstep {
    fn probes(&self, case: &Case, eg: &egglog::EGraph, model: &Model, terms: &[Term], probe: &mut Probe, idx: usize, out: &mut Outcome) {
        let sig = &case.prog.sig;
        // only eq-sort terms
        let eq_terms: Vec<&Term> = terms
            .iter()
            .filter(|t| match t {
                Term::App(f, _) => matches!(sig.funcs[*f].out, Ty::Eq(_)) && sig.funcs[*f].is_ctor(),
                _ => false,
            })
            .collect();
        if eq_terms.len() < 2 {
            return;
        }
        let mut clone = eg.clone();
        for _ in 0..self.pairs_per_prefix {
            let a = eq_terms[probe.below(eq_terms.len())];
            let b = eq_terms[probe.below(eq_terms.len())];
            let (Term::App(fa, _), Term::App(fb, _)) = (a, b) else { continue };
            if sig.funcs[*fa].out != sig.funcs[*fb].out {
                continue;
            }
            let (va, vb) = (model.eval_ground(a), model.eval_ground(b));
            let expected = va.is_some() && vb.is_some() && va == vb;
            let text = format!("(check (= {} {}))", sig.term(a), sig.term(b));
            let r = eng::run(&mut clone, &text);
            out.count("check_probes", 1);
            match (&r, expected) {
                (CmdRes::Ok(_), true) => out.count("check_probes_equal", 1),
                (CmdRes::Err(ErrKind::Check, _), false) => {}
                (CmdRes::Ok(_), false) => {
                    out.fail(
                        "check-invented-equality",
                        format!("after command #{idx}: `{text}` succeeds, but the terms are not equal (or not both represented) in the congruence closure of the asserted unions"),
                    );
                    return;
                }
                (CmdRes::Err(ErrKind::Check, _), true) => {
                    out.fail("check-missed-equality", format!("after command #{idx}: `{text}` fails, but the equality follows from the asserted unions by congruence closure"));
                    return;
                }
                (other, _) => {
                    out.fail("check-probe-error", format!("after command #{idx}: `{text}` gave {}", other.short()));
                    return;
                }
            }
            // extraction channel (only for represented terms, and only when every constructor is extractable)
            if va.is_some() && vb.is_some() {
                let ea = eng::run(&mut clone, &format!("(extract {})", sig.term(a)));
                let eb = eng::run(&mut clone, &format!("(extract {})", sig.term(b)));
                if let (CmdRes::Ok(oa), CmdRes::Ok(ob)) = (&ea, &eb) {
                    if oa.len() == 1 && ob.len() == 1 {
                        out.count("extract_probes", 1);
                        let (sa, sb) = (oa[0].trim(), ob[0].trim());
                        if (sa == sb) != expected {
                            out.fail(
                                "extract-class-mismatch",
                                format!("after command #{idx}: extract {} = {sa}, extract {} = {sb}; model says equal={expected}", sig.term(a), sig.term(b)),
                            );
                            return;
                        }
                        if let Some(t) = sig.parse_term(sa) {
                            let got = model.eval_ground(&t);
                            if got != va {
                                out.fail(
                                    "extract-outside-class",
                                    format!("after command #{idx}: (extract {}) printed {sa}, which the model evaluates to {:?}, but the root is {:?}", sig.term(a), got, va),
                                );
                                return;
                            }
                        }
                    }
                }
            }
        }
    }
}


impl Lockstep {
    /// C13 probes on a clone: (ii) a pattern query over a table returns exactly the live rows,
    /// (iii) `(check (T args))` still succeeds on subsumed rows, (v) extraction never uses them.
    fn subsume_probes(&self, case: &Case, eg: &egglog::EGraph, model: &Model, probe: &mut Probe, idx: usize, out: &mut Outcome) {
        use crate::eng::{name_classes, raw_dump, Namer, TableKind, Val};
        let sig = &case.prog.sig;
        // pick a table that has a subsumed row
        let cands: Vec<usize> = (0..sig.funcs.len()).filter(|f| !sig.funcs[*f].is_func() && model.st.tables[*f].values().any(|r| r.subsumed)).collect();
        if cands.is_empty() {
            return;
        }
        let fi = cands[probe.below(cands.len())];
        let decl = &sig.funcs[fi];
        let mut clone = eg.clone();
        // (ii) matching
        let vars: Vec<(String, String)> = decl.args.iter().enumerate().map(|(i, t)| (format!("q{i}"), sig.ty_name(t))).collect();
        let pat = if vars.is_empty() { format!("({})", decl.name) } else { format!("({} {})", decl.name, vars.iter().map(|v| v.0.clone()).collect::<Vec<_>>().join(" ")) };
        if !vars.is_empty() {
            match crate::eng::query(&mut clone, &vars, &pat) {
                Ok(rows) => {
                    out.count("subsume_query_probes", 1);
                    let rd = raw_dump(eg);
                    let namer: Namer = name_classes(&rd);
                    let mut got: Vec<String> = rows.iter().map(|r| r.iter().map(|v| namer.name(v).map(|x| x.1).unwrap_or_else(|| "??".into())).collect::<Vec<_>>().join(" ")).collect();
                    got.sort();
                    got.dedup();
                    let mrd = model.raw_dump();
                    let mnamer = name_classes(&mrd);
                    let mt = &mrd.tables[fi];
                    let mut want: Vec<String> = mt
                        .rows
                        .iter()
                        .filter(|r| !r.subsumed)
                        .map(|r| r.vals[..r.vals.len() - 1].iter().map(|v| mnamer.name(v).map(|x| x.1).unwrap_or_else(|| "??".into())).collect::<Vec<_>>().join(" "))
                        .collect();
                    want.sort();
                    want.dedup();
                    if got != want {
                        out.fail(
                            "subsumed-row-matched-or-live-row-missed",
                            format!("after command #{idx}: query `{pat}` returned rows {:?} but the live (non-subsumed) rows are {:?}", got, want),
                        );
                        return;
                    }
                    let _ = TableKind::Constructor;
                }
                Err(e) => {
                    out.fail("query-probe-error", format!("after command #{idx}: query `{pat}` failed: {e}"));
                    return;
                }
            }
        }
        // (iii) check still sees subsumed rows
        let mrd = model.raw_dump();
        let mnamer = name_classes(&mrd);
        for r in mrd.tables[fi].rows.iter().filter(|r| r.subsumed).take(2) {
            let args: Option<Vec<String>> = r.vals[..r.vals.len() - 1].iter().map(|v| mnamer.name(v).map(|x| x.1)).collect();
            let Some(args) = args else { continue };
            if args.iter().any(|a| a.contains(['?', '#', '['])) {
                continue;
            }
            let t = if args.is_empty() { format!("({})", decl.name) } else { format!("({} {})", decl.name, args.join(" ")) };
            let text = format!("(check {t})");
            out.count("subsumed_check_probes", 1);
            match eng::run(&mut clone, &text) {
                CmdRes::Ok(_) => {}
                other => {
                    out.fail("check-does-not-see-subsumed-row", format!("after command #{idx}: `{text}` on a subsumed row gave {}", other.short()));
                    return;
                }
            }
        }
        // (v) extraction never uses subsumed rows
        if decl.is_ctor() {
            for r in mrd.tables[fi].rows.iter().take(3) {
                let Val::Class(..) = r.vals.last().unwrap() else { continue };
                let Some((_, root)) = mnamer.name(r.vals.last().unwrap()) else { continue };
                if root.contains(['?', '#', '[']) {
                    continue;
                }
                let text = format!("(extract {root})");
                if let CmdRes::Ok(o) = eng::run(&mut clone, &text) {
                    if let Some(t) = o.first().and_then(|s| sig.parse_term(s.trim())) {
                        out.count("subsume_extract_probes", 1);
                        let mut subs = vec![];
                        t.subterms(&mut subs);
                        for s in subs {
                            if let Term::App(f, args) = &s {
                                let key: Option<Vec<crate::refegg::V>> = args.iter().map(|a| model.eval_ground(a)).collect();
                                if let Some(key) = key {
                                    if let Some(row) = model.st.tables[*f].get(&key) {
                                        if row.subsumed {
                                            out.fail(
                                                "extraction-used-subsumed-row",
                                                format!("after command #{idx}: `{text}` returned {} which uses the subsumed row {}", sig.term(&t), sig.term(&s)),
                                            );
                                            return;
                                        }
                                    }
                                }
                            }
                        }
                    }
                }
            }
        }
    }
}

impl Stage for Lockstep {
    type Input = Case;
    fn name(&self) -> &'static str {
        self.name
    }
    fn decode(&self, src: &mut Src) -> Case {
        let probe = src.u16() as u64;
        let prog = Gen::new(src, self.cfg.clone()).gen_prog();
        Case { prog, probe }
    }
    fn render(&self, inp: &Case) -> serde_json::Value {
        serde_json::json!({"program": inp.prog.text().lines().collect::<Vec<_>>(), "probe": inp.probe})
    }
    fn simplify(&self, inp: &Case) -> Vec<Case> {
        simplify_prog(&inp.prog).into_iter().map(|p| Case { prog: p, probe: inp.probe }).collect()
    }
    fn check(&self, case: &Case) -> Outcome {
        let prog = &case.prog;
        let mut out = Outcome::new(fnv_str(&prog.text()));
        let mut eg = engine();
        eg.seminaive = !self.naive_engine;
        if !declare(&mut eg, &prog.sig, &mut out) {
            return out;
        }
        let mut model = Model::new(&prog.sig);
        let terms = all_ground_terms(prog);
        let mut probe = Probe(case.probe ^ out.key);
        let mut executed = 0;
        let mut seen_subsumed_at: Option<usize> = None;
        let mut subsumed_survived = false;
        for (i, c) in prog.cmds.iter().enumerate() {
            match step_both(&mut eg, &mut model, &prog.sig, i, c, &mut out) {
                Step::Stop => break,
                Step::Both => {}
            }
            executed += 1;
            if !compare_dumps(&eg, &model, &format!("after command #{i} `{}`", prog.sig.cmd(c)), &mut out) {
                break;
            }
            self.probes(case, &eg, &model, &terms, &mut probe, i, &mut out);
            if out.fail.is_some() {
                break;
            }
            if self.mode == Mode::C13 {
                let any_subsumed = model.st.tables.iter().any(|t| t.values().any(|r| r.subsumed));
                if any_subsumed {
                    if seen_subsumed_at.is_none() {
                        seen_subsumed_at = Some(model.congruence_merges + model.iterations_changed);
                    } else if seen_subsumed_at != Some(model.congruence_merges + model.iterations_changed) {
                        subsumed_survived = true;
                    }
                    self.subsume_probes(case, &eg, &model, &mut probe, i, &mut out);
                    if out.fail.is_some() {
                        break;
                    }
                }
            }
        }
        // self-test of the harness's canonicaliser: the id-free dump must not depend on table / row order
        {
            let mut rd = crate::eng::raw_dump(&eg);
            let a = canon_from_raw(&rd, &CanonOpts::default());
            rd.tables.reverse();
            for t in rd.tables.iter_mut() {
                t.rows.reverse();
            }
            let b = canon_from_raw(&rd, &CanonOpts::default());
            if a != b {
                out.fail("harness-selftest:canonical-dump-depends-on-row-order", format!("canonical dump changes when rows are enumerated in reverse:\n{}", a.diff(&b)));
            }
        }
        out.count("commands_executed", executed);
        out.nontrivial = match self.mode {
            Mode::C01 => model.congruence_merges >= 1,
            Mode::C13 => model.subsumed_touched >= 1 || subsumed_survived,
            Mode::C14 => model.container_changed >= 1,
        };
        if model.subsumed_touched >= 1 {
            out.class("subsumed-row-merged-or-reinserted");
        }
        if subsumed_survived {
            out.class("subsumed-row-survived-later-rebuild");
        }
        if model.container_changed >= 1 {
            out.class("container-contents-changed-by-union");
        }
        if model.congruence_merges >= 1 {
            out.class("has-congruence-merge");
        }
        if model.rebuild_passes_max >= 3 {
            out.class("congruence-chain>=3-passes");
        }
        if model.rule_unions >= 1 {
            out.class("rule-made-union");
        }
        if model.fd_merges >= 1 {
            out.class("function-merge");
        }
        if model.iterations_changed >= 2 {
            out.class("iterations-changed>=2");
        }
        out
    }
}

