//! C14 — containers of e-classes stay canonical and keep rules firing.
//! (1) lockstep against the reference interpreter with container values
//! (re-canonicalised structurally at every rebuild), (2) semi-naive vs naive
//! differential per iteration on the same programs, (3) C04's container
//! invariants after every command (raw ids canonical, equal contents share one id).

use super::lockstep::{Lockstep, Mode};
use crate::choice::{fnv_str, Src};
use crate::fw::{Outcome, Report, Stage};
use crate::pgen::{simplify_prog, Gen, GenCfg};
use crate::prog::Prog;

pub fn cfg() -> GenCfg {
    GenCfg { containers: true, subsume: false, delete: false, max_cmds: 16, min_cmds: 5, ..GenCfg::default() }
}

fn stage() -> Lockstep {
    Lockstep { name: "container-lockstep", mode: Mode::C14, cfg: cfg(), pairs_per_prefix: 2, naive_engine: false }
}

pub struct C14Diff;

impl Stage for C14Diff {
    type Input = Prog;
    fn name(&self) -> &'static str {
        "container-seminaive-vs-naive"
    }
    fn decode(&self, src: &mut Src) -> Prog {
        super::c03::expand_runs(&Gen::new(src, cfg()).gen_prog())
    }
    fn render(&self, inp: &Prog) -> serde_json::Value {
        serde_json::json!(inp.text().lines().collect::<Vec<_>>())
    }
    fn simplify(&self, inp: &Prog) -> Vec<Prog> {
        simplify_prog(inp)
    }
    fn check(&self, prog: &Prog) -> Outcome {
        let mut out = Outcome::new(fnv_str(&prog.text()));
        let st = super::c03::seminaive_diff(prog, false, &mut out);
        let has_cont_union = prog.text().contains("-of") && prog.text().contains("(union");
        out.nontrivial = has_cont_union && st.iterations_changed >= 1;
        if st.iterations_changed >= 2 {
            out.class("iterations-changed>=2");
        }
        out
    }
}

pub fn replay(rep: &Report, stage_name: &str, j: &serde_json::Value) -> i32 {
    match stage_name {
        "container-seminaive-vs-naive" => crate::registry::replay_stage(rep, &C14Diff, j),
        "many-containers" => crate::registry::replay_stage(rep, &ManyContainers, j),
        _ => crate::registry::replay_stage(rep, &stage(), j),
    }
}

pub fn run(rep: &Report) {
    rep.set_rule(
        "cases = typed egglog histories over Vec/Set/MultiSet sorts of eq-sorts (also nested), rows keyed by containers, unions that change container contents, rules matching through containers; \
         (1) lockstep with the reference interpreter (containers re-canonicalised structurally), dumps with container contents expanded compared after every command; \
         (2) same programs semi-naive vs naive, compared after every iteration. \
         non-trivial = distinct program in which a union changed the contents of a container stored in a row (model counter), resp. a container program with a union whose rules changed the database",
    );
    rep.assume("Map key collisions are outside the claim and not generated");
    let st = stage();
    rep.run_regressions(&st);
    rep.explore(&st, rep.tier.pick(6000, 100_000), 500);
    rep.run_regressions(&C14Diff);
    rep.explore(&C14Diff, rep.tier.pick(3000, 50_000), 500);
    // > 1000 containers: incremental container rebuild
    rep.run_regressions(&ManyContainers);
    rep.explore(&ManyContainers, rep.tier.pick(200, 5000), 80);
    let inc = crate::runner::path_counters().get("container_rebuild_incremental").copied().unwrap_or(0);
    rep.extra("incremental_container_rebuilds_entered", serde_json::json!(inc));
}

// ---------------------------------------------------------------------------
// many-containers stage: > 1000 containers of one sort so that a small union batch takes the INCREMENTAL
// container rebuild (val_index driven), with union histories that merge containers in both id orders
// ---------------------------------------------------------------------------

use crate::prog::*;
use crate::refegg::{Limits, Model};

pub struct ManyContainers;

fn mc_sig(kind: ContKind) -> Sig {
    let mut sig = Sig::default();
    sig.sorts.push("S".into());
    sig.conts.push(ContDecl { name: "K0".into(), kind, elem: Ty::Eq(0) });
    sig.conts.push(ContDecl { name: "K1".into(), kind: ContKind::Vec, elem: Ty::Cont(0) });
    let ctor = |name: &str, args: Vec<Ty>| FuncDecl { name: name.into(), kind: FKind::Ctor { cost: None, unextractable: false }, args, out: Ty::Eq(0) };
    sig.funcs.push(ctor("Num", vec![Ty::I64])); // 0
    sig.funcs.push(ctor("W", vec![Ty::Cont(0)])); // 1
    sig.funcs.push(ctor("V", vec![Ty::Cont(1)])); // 2
    for n in ["a", "b", "c", "d"] {
        sig.funcs.push(ctor(n, vec![])); // 3..6
    }
    sig.funcs.push(FuncDecl { name: "R".into(), kind: FKind::Rel, args: vec![Ty::Eq(0)], out: Ty::I64 }); // 7
    sig.rulesets.push("fill".into());
    sig.rulesets.push("later".into());
    sig
}

impl Stage for ManyContainers {
    type Input = Prog;
    fn name(&self) -> &'static str {
        "many-containers"
    }
    fn decode(&self, s: &mut Src) -> Prog {
        let kind = *s.pick(&[ContKind::Vec, ContKind::Set, ContKind::MultiSet, ContKind::Vec]);
        let sig = mc_sig(kind);
        let lit = crate::pgen::cont_ctor(kind).to_string();
        // half of the cases are big enough for the incremental (val_index driven) rebuild, the other half is small and
        // cheap: those mainly feed the 4-thread cut-off-0 child (parallel container rebuild needs no size)
        let n = if s.bool() { 1050 + s.below(400) as i64 } else { 10 + s.below(40) as i64 };
        let num = |i: i64| Term::App(0, vec![Term::I(i)]);
        let leaf = |k: usize| Term::App(3 + k, vec![]);
        let cont = |es: Vec<Term>| Term::Prim(lit.clone(), es);
        let mut cmds = vec![];
        // leaves first (small ids), in a generated order: which id survives a later merge depends on it
        let mut order = vec![0usize, 1, 2, 3];
        for i in (1..4).rev() {
            order.swap(i, s.below(i + 1));
        }
        for k in &order {
            cmds.push(Cmd::Act(Action::Expr(leaf(*k))));
        }
        // directed script (see below): leaves by age r < q < p; I = [q] exists first, then X = [[p]], then Y = [[q]]
        let directed = s.bool();
        let (dr, dq, dp) = (order[0], order[1], order[2]);
        if directed {
            let outer = |k: usize| Term::App(2, vec![Term::Prim("vec-of".into(), vec![cont(vec![leaf(k)])])]);
            cmds.push(Cmd::Act(Action::Expr(Term::App(1, vec![cont(vec![leaf(dq)])]))));
            cmds.push(Cmd::Act(Action::Expr(outer(dp))));
            cmds.push(Cmd::Act(Action::Expr(outer(dq))));
        }
        // a few containers over the leaves, again in a generated order (registration order = container id order)
        let n_pre = if directed { 0 } else { 2 + s.below(4) };
        for _ in 0..n_pre {
            let k = 1 + s.below(2);
            let es = (0..k).map(|_| leaf(s.below(4))).collect();
            cmds.push(Cmd::Act(Action::Expr(Term::App(1, vec![cont(es)]))));
        }
        // outer containers over inner ones (two or three rows, so that a union can make two outer containers equal
        // and a later union rewrites a shared inner container in place)
        let n_nested = if directed { 0 } else { 1 + s.below(3) };
        for _ in 0..n_nested {
            let inner = cont(vec![leaf(s.below(4))]);
            cmds.push(Cmd::Act(Action::Expr(Term::App(2, vec![Term::Prim("vec-of".into(), vec![inner])]))));
        }
        // filler: one container per Num
        for i in 0..n {
            cmds.push(Cmd::Act(Action::Expr(num(i))));
        }
        let (x, i) = (Term::Var("x".into()), Term::Var("i".into()));
        cmds.push(Cmd::Rule {
            body: vec![Fact::Eq(x.clone(), Term::App(0, vec![i]))],
            head: vec![Action::Expr(Term::App(1, vec![cont(vec![x.clone()])]))],
            opts: RuleOpts { ruleset: Some(0), ..Default::default() },
        });
        cmds.push(Cmd::RunN { rs: Some(0), n: 1, until: vec![] });
        // a rule that matches through a container literal (fires only when the container really became canonical)
        let y = Term::Var("y".into());
        cmds.push(Cmd::Rule {
            body: vec![Fact::Eq(y.clone(), Term::App(1, vec![cont(vec![leaf(s.below(4))])]))],
            head: vec![Action::Expr(Term::App(7, vec![y]))],
            opts: RuleOpts { ruleset: Some(1), ..Default::default() },
        });
        // and one that reads through two levels of containers
        let z = Term::Var("z".into());
        cmds.push(Cmd::Rule {
            body: vec![Fact::Eq(z.clone(), Term::App(2, vec![Term::Prim("vec-of".into(), vec![cont(vec![leaf(s.below(4))])])]))],
            head: vec![Action::Expr(Term::App(7, vec![z]))],
            opts: RuleOpts { ruleset: Some(1), ..Default::default() },
        });
        // the same two-level read through non-interning primitives (no container literal in the query)
        if kind == ContKind::Vec {
            let (z2, vv) = (Term::Var("z2".into()), Term::Var("vv".into()));
            let inner = Term::Prim("vec-get".into(), vec![Term::Prim("vec-get".into(), vec![vv.clone(), Term::I(0)]), Term::I(0)]);
            cmds.push(Cmd::Rule {
                body: vec![Fact::Eq(z2.clone(), Term::App(2, vec![vv])), Fact::Eq(inner, leaf(s.below(4)))],
                head: vec![Action::Expr(Term::App(7, vec![z2]))],
                opts: RuleOpts { ruleset: Some(1), ..Default::default() },
            });
            let (z3, v1) = (Term::Var("z3".into()), Term::Var("v1".into()));
            cmds.push(Cmd::Rule {
                body: vec![Fact::Eq(z3.clone(), Term::App(1, vec![v1.clone()])), Fact::Eq(Term::Prim("vec-get".into(), vec![v1, Term::I(0)]), leaf(s.below(4)))],
                head: vec![Action::Expr(Term::App(7, vec![z3]))],
                opts: RuleOpts { ruleset: Some(1), ..Default::default() },
            });
        }
        // directed script: p ~ q (leader q) rewrites X = [[p]] so that it equals the unchanged, younger Y = [[q]] (the
        // re-inserted, older id survives the merge); then q ~ r (leader r) rewrites the shared inner container [q] IN
        // PLACE; a rule that already ran reads the new contents through two levels of vec-get
        if directed {
            let (p, q, r) = (dp, dq, dr);
            if kind == ContKind::Vec {
                let (z4, vv) = (Term::Var("z4".into()), Term::Var("vw".into()));
                let inner = Term::Prim("vec-get".into(), vec![Term::Prim("vec-get".into(), vec![vv.clone(), Term::I(0)]), Term::I(0)]);
                cmds.push(Cmd::Rule {
                    body: vec![Fact::Eq(z4.clone(), Term::App(2, vec![vv])), Fact::Eq(inner, leaf(r))],
                    head: vec![Action::Expr(Term::App(7, vec![z4]))],
                    opts: RuleOpts { ruleset: Some(1), ..Default::default() },
                });
            }
            if s.bool() {
                cmds.push(Cmd::RunN { rs: Some(1), n: 1, until: vec![] });
            }
            cmds.push(Cmd::Act(Action::Union(leaf(p), leaf(q))));
            cmds.push(Cmd::RunN { rs: Some(1), n: 1, until: vec![] });
            cmds.push(Cmd::Act(Action::Union(leaf(if s.bool() { p } else { q }), leaf(r))));
            cmds.push(Cmd::RunN { rs: Some(1), n: 1, until: vec![] });
        }
        let n_ops = 3 + s.below(7);
        for _ in 0..n_ops {
            match s.below(9) {
                0..=2 => cmds.push(Cmd::Act(Action::Union(leaf(s.below(4)), leaf(s.below(4))))),
                3 => cmds.push(Cmd::Act(Action::Union(leaf(s.below(4)), num(s.range(0, 5))))),
                4 => {
                    let k = 1 + s.below(2);
                    let es = (0..k).map(|_| leaf(s.below(4))).collect();
                    cmds.push(Cmd::Act(Action::Expr(Term::App(1, vec![cont(es)]))));
                }
                5 | 6 => cmds.push(Cmd::RunN { rs: Some(1), n: 1, until: vec![] }),
                8 => cmds.push(Cmd::Check(vec![Fact::Eq(Term::App(1, vec![cont(vec![leaf(s.below(4))])]), Term::App(1, vec![cont(vec![leaf(s.below(4))])]))])),
                _ => cmds.push(Cmd::Act(Action::Union(num(s.range(0, 5)), num(s.range(0, 5))))),
            }
        }
        Prog { sig, cmds }
    }
    fn render(&self, p: &Prog) -> serde_json::Value {
        let t = p.cmd_texts();
        let inserts = t.iter().filter(|l| l.starts_with("(Num ")).count();
        let rest: Vec<&String> = t.iter().filter(|l| !l.starts_with("(Num ")).collect();
        serde_json::json!({"declarations": p.sig.prelude(), "filler_leaves": inserts, "commands": rest})
    }
    fn simplify(&self, p: &Prog) -> Vec<Prog> {
        let k = p.cmds.iter().position(|c| matches!(c, Cmd::RunN { .. })).map(|i| i + 1).unwrap_or(0);
        let mut v = vec![];
        for i in (k..p.cmds.len()).rev() {
            let mut q = p.clone();
            q.cmds.remove(i);
            v.push(q);
        }
        v
    }
    fn check(&self, prog: &Prog) -> Outcome {
        use super::{compare_dumps, declare, engine, step_both, Step};
        let mut out = Outcome::new(fnv_str(&prog.text()));
        let mut eg = engine();
        if !declare(&mut eg, &prog.sig, &mut out) {
            return out;
        }
        let mut model = Model::new(&prog.sig);
        model.limits = Limits { max_rows: 20_000, max_matches: 2_000_000, max_saturate_iters: 10 };
        let before = crate::runner::path_counters().get("container_rebuild_incremental").copied().unwrap_or(0);
        let mut built = false;
        let mut executed = 0usize;
        for (i, c) in prog.cmds.iter().enumerate() {
            match step_both(&mut eg, &mut model, &prog.sig, i, c, &mut out) {
                Step::Stop => break,
                Step::Both => {}
            }
            executed = i + 1;
            if matches!(c, Cmd::RunN { rs: Some(0), .. }) {
                built = true;
            }
            if !built {
                continue;
            }
            if !compare_dumps(&eg, &model, &format!("after command #{i} `{}`", prog.sig.cmd(c)), &mut out) {
                break;
            }
            if let Some(v) = crate::inv::check_all(&eg) {
                out.fail(format!("many-containers:{}", v.sig), format!("after command #{i} `{}`: {}", prog.sig.cmd(c), v.detail));
                break;
            }
        }
        let after = crate::runner::path_counters().get("container_rebuild_incremental").copied().unwrap_or(0);
        if after > before {
            out.class("incremental-container-rebuild-entered(hook counter, process-wide)");
        }
        // the same program with 4 threads and all parallel cut-offs 0 (child process): parallel container rebuild;
        // the final database must be isomorphic to the model's as well
        if out.fail.is_none() && built {
            use crate::runner::{run_in_child, ChildRun, RunCfg};
            let env: Vec<(String, String)> = ["DB_LEVEL_OP", "INDEX_CONSTRUCTION", "REBUILD", "INTRA_CONTAINER", "INTER_CONTAINER", "TABLE_OP"]
                .iter()
                .map(|n| (format!("EGGLOG_PARALLEL_{n}_CUTOFF"), "0".to_string()))
                .collect();
            // only the commands both sides executed (checks that fail are fine: they do not change the database)
            let mut lines = prog.sig.prelude();
            lines.extend(prog.cmds.iter().take(executed).map(|c| prog.sig.cmd(c)));
            let text = lines.join("\n");
            match run_in_child(None, Some(&text), &RunCfg { threads: 4, ..RunCfg::default() }, &env, std::time::Duration::from_secs(120), None) {
                ChildRun::Done(r) => {
                    out.count("parallel_child_runs", 1);
                    if r.paths.get("container_rebuild_parallel").copied().unwrap_or(0) > 0 {
                        out.class("parallel-container-rebuild-entered(hook counter)");
                    }
                    let all_ran = r.cmds.len() == prog.sig.prelude().len() + executed;
                    let md = crate::eng::canon_from_raw(&model.raw_dump(), &crate::eng::CanonOpts::default());
                    let cd = crate::eng::CanonDump { tables: r.dump.clone() };
                    if all_ran && cd != md {
                        out.fail("parallel-run-differs-from-model", format!("with 4 threads and all parallel cut-offs 0 the final database (left) differs from the reference model (right):\n{}", cd.diff(&md)));
                    }
                }
                ChildRun::Crashed(m) => out.fail(format!("parallel-child-crash:{}", crate::fw::panic_key(&m)), format!("4-thread cut-off-0 run crashed: {m}")),
                ChildRun::Deadlock => out.fail("parallel-child-deadlock", "4-thread cut-off-0 run is quiescent and unfinished"),
                _ => out.class("parallel-child-inconclusive"),
            }
        }
        out.nontrivial = built && model.container_changed >= 1;
        out
    }
}
