//! C14 — containers of e-classes stay canonical and keep rules firing.
//! (1) lockstep against the reference interpreter with container values
//! (re-canonicalised structurally at every rebuild), (2) semi-naive vs naive
//! differential per iteration on the same programs, (3) C04's container
//! invariants after every command (raw ids canonical, equal contents share one id).

use super::lockstep::{Lockstep, Mode};
use crate::choice::{fnv_str, Src};
use crate::fw::{Outcome, Report, Stage};
use crate::pgen::{simplify_prog, Gen, GenCfg};
use crate::prog::Prog;

pub fn cfg() -> GenCfg {
    GenCfg { containers: true, subsume: false, delete: false, max_cmds: 16, min_cmds: 5, ..GenCfg::default() }
}

fn stage() -> Lockstep {
    Lockstep { name: "container-lockstep", mode: Mode::C14, cfg: cfg(), pairs_per_prefix: 2, naive_engine: false }
}

pub struct C14Diff;

impl Stage for C14Diff {
    type Input = Prog;
    fn name(&self) -> &'static str {
        "container-seminaive-vs-naive"
    }
    fn decode(&self, src: &mut Src) -> Prog {
        super::c03::expand_runs(&Gen::new(src, cfg()).gen_prog())
    }
    fn render(&self, inp: &Prog) -> serde_json::Value {
        serde_json::json!(inp.text().lines().collect::<Vec<_>>())
    }
    fn simplify(&self, inp: &Prog) -> Vec<Prog> {
        simplify_prog(inp)
    }
    fn check(&self, prog: &Prog) -> Outcome {
        let mut out = Outcome::new(fnv_str(&prog.text()));
        let st = super::c03::seminaive_diff(prog, false, &mut out);
        let has_cont_union = prog.text().contains("-of") && prog.text().contains("(union");
        out.nontrivial = has_cont_union && st.iterations_changed >= 1;
        if st.iterations_changed >= 2 {
            out.class("iterations-changed>=2");
        }
        out
    }
}

pub fn replay(rep: &Report, stage_name: &str, j: &serde_json::Value) -> i32 {
    match stage_name {
        "container-seminaive-vs-naive" => crate::registry::replay_stage(rep, &C14Diff, j),
        _ => crate::registry::replay_stage(rep, &stage(), j),
    }
}

pub fn run(rep: &Report) {
    rep.set_rule(
        "cases = typed egglog histories over Vec/Set/MultiSet sorts of eq-sorts (also nested), rows keyed by containers, unions that change container contents, rules matching through containers; \
         (1) lockstep with the reference interpreter (containers re-canonicalised structurally), dumps with container contents expanded compared after every command; \
         (2) same programs semi-naive vs naive, compared after every iteration. \
         non-trivial = distinct program in which a union changed the contents of a container stored in a row (model counter), resp. a container program with a union whose rules changed the database",
    );
    rep.assume("Map key collisions are outside the claim and not generated");
    let st = stage();
    rep.run_regressions(&st);
    rep.explore(&st, rep.tier.pick(6000, 100_000), 500);
    rep.run_regressions(&C14Diff);
    rep.explore(&C14Diff, rep.tier.pick(3000, 50_000), 500);
}
