//! C02 — a rule run fires for exactly the set of matches of its body.
//!
//! Case = a random schema (i64 / eq-sort columns), a random database with
//! skewed values (0..200 rows per table, some empty, leaves unioned so that
//! matching is modulo equality, some rows subsumed) and ONE conjunctive body of
//! a chosen hypergraph shape (chain, star, cycle, clique, random) decorated with
//! repeated variables, constants, primitive filters, computed bindings,
//! functional-dependency duplicates and constructor atoms. Head = (Out v1..vn)
//! over all body variables. Oracle: the nested-loop evaluator of the reference
//! interpreter over the database as it stood before the run; compared as sets,
//! exactly, under {default, :no-decomp on the rule, EGraph.no_decomp, :naive,
//! seminaive off} and through EGraph::query.

use super::*;
use crate::choice::{fnv_str, Src};
use crate::eng::{canon_dump, name_classes, raw_dump};
use crate::fw::{Outcome, Report, Stage};
use crate::refegg::Limits;
use egglog::EGraph;
use serde::{Deserialize, Serialize};

#[derive(Clone, Serialize, Deserialize)]
pub struct Case {
    pub sig: Sig,
    pub data: Vec<Cmd>,
    pub body: Vec<Fact>,
    pub vars: Vec<(String, Ty)>,
    pub shape: String,
    pub out: usize,
    /// further rules run in the SAME iteration (own Out tables): plans of one rule set share cached tries / indexes
    #[serde(default)]
    pub more: Vec<ExtraRule>,
}

#[derive(Clone, Serialize, Deserialize)]
pub struct ExtraRule {
    pub body: Vec<Fact>,
    pub vars: Vec<(String, Ty)>,
    pub out: usize,
}

pub struct C02;

const S: Ty = Ty::Eq(0);

fn build_sig(s: &mut Src) -> Sig {
    let mut sig = Sig::default();
    sig.sorts.push("S".into());
    for i in 0..4 {
        sig.funcs.push(FuncDecl { name: format!("a{i}"), kind: FKind::Ctor { cost: None, unextractable: false }, args: vec![], out: S });
    }
    sig.funcs.push(FuncDecl { name: "F".into(), kind: FKind::Ctor { cost: None, unextractable: false }, args: vec![S], out: S });
    sig.funcs.push(FuncDecl { name: "P".into(), kind: FKind::Ctor { cost: None, unextractable: false }, args: vec![S, Ty::I64], out: S });
    let n_e = 2 + s.below(2);
    for i in 0..n_e {
        sig.funcs.push(FuncDecl { name: format!("E{i}"), kind: FKind::Rel, args: vec![Ty::I64, Ty::I64], out: Ty::I64 });
    }
    sig.funcs.push(FuncDecl { name: "T".into(), kind: FKind::Rel, args: vec![Ty::I64, Ty::I64, Ty::I64], out: Ty::I64 });
    sig.funcs.push(FuncDecl { name: "U".into(), kind: FKind::Rel, args: vec![Ty::I64], out: Ty::I64 });
    sig.funcs.push(FuncDecl { name: "M".into(), kind: FKind::Rel, args: vec![S, Ty::I64], out: Ty::I64 });
    sig.funcs.push(FuncDecl { name: "Q".into(), kind: FKind::Rel, args: vec![S, S], out: Ty::I64 });
    sig.funcs.push(FuncDecl { name: "W".into(), kind: FKind::Rel, args: vec![Ty::I64, Ty::I64, Ty::I64, Ty::I64], out: Ty::I64 });
    sig.funcs.push(FuncDecl { name: "G".into(), kind: FKind::Func { merge: Merge::Min }, args: vec![Ty::I64], out: Ty::I64 });
    sig
}

fn fi(sig: &Sig, n: &str) -> usize {
    sig.funcs.iter().position(|f| f.name == n).unwrap()
}

fn s_terms(sig: &Sig) -> Vec<Term> {
    let mut v: Vec<Term> = (0..4).map(|i| Term::App(fi(sig, &format!("a{i}")), vec![])).collect();
    let f = fi(sig, "F");
    let p = fi(sig, "P");
    for i in 0..4 {
        v.push(Term::App(f, vec![v[i].clone()]));
    }
    v.push(Term::App(f, vec![v[4].clone()]));
    v.push(Term::App(p, vec![v[0].clone(), Term::I(1)]));
    v.push(Term::App(p, vec![v[1].clone(), Term::I(1)]));
    v
}

/// skewed small integer
fn skew(s: &mut Src, dom: i64) -> i64 {
    match s.below(4) {
        0 => 0,
        1 => s.range(0, 2.min(dom - 1)),
        _ => s.range(0, dom - 1),
    }
}

fn gen_data(s: &mut Src, sig: &Sig) -> Vec<Cmd> {
    let mut cmds = vec![];
    let st = s_terms(sig);
    let dom = *s.pick(&[3i64, 5, 8, 20]);
    for (idx, f) in sig.funcs.iter().enumerate() {
        let n = match &f.kind {
            FKind::Rel => match s.below(10) {
                0 => 0,
                1..=5 => s.below(12),
                6..=8 => 10 + s.below(40),
                _ => 40 + s.below(if f.args.len() == 2 { 160 } else { 60 }),
            },
            FKind::Func { .. } => s.below(12),
            _ => 0,
        };
        for _ in 0..n {
            let args: Vec<Term> = f
                .args
                .iter()
                .map(|t| match t {
                    Ty::I64 => Term::I(skew(s, dom)),
                    _ => s.pick(&st).clone(),
                })
                .collect();
            match &f.kind {
                FKind::Rel => cmds.push(Cmd::Act(Action::Expr(Term::App(idx, args)))),
                FKind::Func { .. } => cmds.push(Cmd::Act(Action::Set(idx, args, Term::I(skew(s, dom))))),
                _ => {}
            }
        }
    }
    // dense keys: > 16 rows under one value of the first column (cached sub-trie path)
    if s.chance(1, 2) {
        let t = fi(sig, "T");
        let keys = 1 + s.below(3) as i64;
        for k in 0..keys {
            let n = 17 + s.below(10);
            for r in 0..n as i64 {
                let (a, b) = match s.below(4) {
                    0 => (k, r),
                    1 => (r, k),
                    2 => (s.range(0, 2), s.range(0, 2)),
                    _ => (r % 3, r),
                };
                cmds.push(Cmd::Act(Action::Expr(Term::App(t, vec![Term::I(k), Term::I(a), Term::I(b)]))));
            }
            cmds.push(Cmd::Act(Action::Expr(Term::App(fi(sig, "U"), vec![Term::I(k)]))));
        }
    }
    // a few more eq-sort terms, unions among leaves (matching modulo equality), subsumed rows
    for _ in 0..s.below(4) {
        cmds.push(Cmd::Act(Action::Expr(s.pick(&st).clone())));
    }
    for _ in 0..s.below(3) {
        let a = s.pick(&st[..4]).clone();
        let b = s.pick(&st[..6]).clone();
        cmds.push(Cmd::Act(Action::Union(a, b)));
    }
    if s.chance(1, 3) {
        let t = s.pick(&st[4..]).clone();
        if let Term::App(f, args) = t {
            cmds.push(Cmd::Act(Action::Subsume(f, args)));
        }
    }
    cmds
}

fn gen_body(s: &mut Src, sig: &Sig) -> (Vec<Fact>, Vec<(String, Ty)>, String) {
    let es: Vec<usize> = sig.funcs.iter().enumerate().filter(|(_, f)| f.name.starts_with('E')).map(|(i, _)| i).collect();
    let shape = *s.pick(&["chain", "star", "cycle", "clique", "random", "mixed", "dupvar"]);
    let mut vars: Vec<(String, Ty)> = vec![];
    let mut body: Vec<Fact> = vec![];
    let iv = |i: usize| Term::Var(format!("x{i}"));
    let mut n_int = 0usize;
    let edge = |s: &mut Src, a: usize, b: usize| Fact::T(Term::App(*s.pick(&es), vec![iv(a), iv(b)]));
    match shape {
        "chain" => {
            let k = 2 + s.below(4);
            for i in 0..k {
                body.push(edge(s, i, i + 1));
            }
            n_int = k + 1;
        }
        "star" => {
            let k = 2 + s.below(4);
            for i in 1..=k {
                body.push(edge(s, 0, i));
            }
            n_int = k + 1;
        }
        "cycle" => {
            let k = 3 + s.below(2);
            for i in 0..k {
                body.push(edge(s, i, (i + 1) % k));
            }
            n_int = k;
        }
        "clique" => {
            let k = 3 + s.below(2);
            for i in 0..k {
                for j in i + 1..k {
                    body.push(edge(s, i, j));
                }
            }
            n_int = k;
        }
        "dupvar" => {
            // an atom with a repeated variable joined with a second atom on that variable: plans of sibling rules
            // (see `variant_of`) scan the same table with equally many but different slow constraints
            n_int = 2;
            let t = fi(sig, "T");
            let pats: [[usize; 3]; 6] = [[0, 0, 1], [0, 1, 0], [1, 0, 0], [0, 1, 1], [1, 0, 1], [1, 1, 0]];
            let p = *s.pick(&pats);
            body.push(Fact::T(Term::App(t, vec![iv(p[0]), iv(p[1]), iv(p[2])])));
            if s.bool() {
                body.push(Fact::T(Term::App(fi(sig, "U"), vec![iv(0)])));
            } else {
                body.push(edge(s, 0, 1));
            }
        }
        "random" => {
            n_int = 2 + s.below(4);
            let m = 2 + s.below(4);
            for _ in 0..m {
                match s.below(4) {
                    0 => {
                        let t = fi(sig, "T");
                        body.push(Fact::T(Term::App(t, vec![iv(s.below(n_int)), iv(s.below(n_int)), iv(s.below(n_int))])));
                    }
                    1 => {
                        let w = fi(sig, "W");
                        body.push(Fact::T(Term::App(w, vec![iv(s.below(n_int)), iv(s.below(n_int)), iv(s.below(n_int)), iv(s.below(n_int))])));
                    }
                    _ => {
                        let (a, b) = (s.below(n_int), s.below(n_int));
                        body.push(edge(s, a, b));
                    }
                }
            }
        }
        _ => {
            n_int = 2;
            body.push(edge(s, 0, 1));
        }
    }
    // make sure every int var is grounded by some atom: add U(x) for unused ones
    let used = |body: &Vec<Fact>, v: &str| body.iter().any(|f| {
        let mut vs = vec![];
        match f {
            Fact::T(t) => t.vars(&mut vs),
            Fact::Eq(a, b) => {
                a.vars(&mut vs);
                b.vars(&mut vs)
            }
        }
        vs.iter().any(|x| x == v)
    });
    for i in 0..n_int {
        if !used(&body, &format!("x{i}")) {
            body.push(Fact::T(Term::App(fi(sig, "U"), vec![iv(i)])));
        }
        vars.push((format!("x{i}"), Ty::I64));
    }
    // decorations
    let n_dec = s.below(4);
    let mut n_s = 0usize;
    for _ in 0..n_dec {
        match s.below(12) {
            9 | 10 => {
                // existence test: an atom all of whose variables are local to it and absent from the head (they are not
                // in `vars`), optionally with a repeated variable or a constant: planners treat such atoms specially
                let q = |k: usize| Term::Var(format!("q{}_{k}", body.len()));
                let atom = match s.below(6) {
                    0 => Term::App(*s.pick(&es), vec![q(0), q(0)]),
                    1 => Term::App(*s.pick(&es), vec![q(0), q(1)]),
                    2 => Term::App(*s.pick(&es), if s.bool() { vec![q(0), Term::I(s.range(0, 3))] } else { vec![Term::I(s.range(0, 3)), q(0)] }),
                    3 => {
                        let pats: [[usize; 3]; 4] = [[0, 0, 1], [0, 1, 0], [1, 0, 0], [0, 0, 0]];
                        let p = *s.pick(&pats);
                        Term::App(fi(sig, "T"), vec![q(p[0]), q(p[1]), q(p[2])])
                    }
                    4 => Term::App(fi(sig, "U"), vec![q(0)]),
                    _ => Term::App(fi(sig, "T"), vec![q(0), q(1), q(1)]),
                };
                body.push(Fact::T(atom));
            }
            11 => {
                // half-local atom: one variable joined with the rest of the body, one existential
                let a = s.below(n_int);
                let q = Term::Var(format!("q{}_0", body.len()));
                body.push(Fact::T(Term::App(*s.pick(&es), if s.bool() { vec![iv(a), q] } else { vec![q, iv(a)] })));
            }
            0 => {
                // constant in an atom
                let c = Term::I(s.range(0, 3));
                let a = s.below(n_int);
                body.push(Fact::T(Term::App(*s.pick(&es), if s.bool() { vec![iv(a), c] } else { vec![c, iv(a)] })));
            }
            1 => {
                // repeated variable inside one atom
                let a = s.below(n_int);
                body.push(Fact::T(Term::App(*s.pick(&es), vec![iv(a), iv(a)])));
            }
            2 => {
                let (a, b) = (s.below(n_int), s.below(n_int));
                let op = *s.pick(&["<", "<=", "!=", ">"]);
                body.push(Fact::T(Term::Prim(op.into(), vec![iv(a), iv(b)])));
            }
            3 => {
                // computed binding
                let (a, b) = (s.below(n_int), s.below(n_int));
                let z = format!("z{}", vars.len());
                vars.push((z.clone(), Ty::I64));
                body.push(Fact::Eq(Term::Var(z), Term::Prim((*s.pick(&["+", "max", "min"])).into(), vec![iv(a), iv(b)])));
            }
            4 => {
                // functional-dependency duplicate: the same function application twice
                let a = s.below(n_int);
                let g = fi(sig, "G");
                let (v, w) = (format!("g{}", vars.len()), format!("h{}", vars.len()));
                vars.push((v.clone(), Ty::I64));
                vars.push((w.clone(), Ty::I64));
                body.push(Fact::Eq(Term::Var(v), Term::App(g, vec![iv(a)])));
                body.push(Fact::Eq(Term::Var(w), Term::App(g, vec![iv(a)])));
            }
            5 => {
                // function value joined with an int variable
                let (a, b) = (s.below(n_int), s.below(n_int));
                body.push(Fact::Eq(iv(b), Term::App(fi(sig, "G"), vec![iv(a)])));
            }
            6 => {
                // eq-sort join: (M e x) with (= e (F y))
                let a = s.below(n_int);
                let e = format!("e{n_s}");
                let y = format!("y{n_s}");
                n_s += 1;
                vars.push((e.clone(), S));
                vars.push((y.clone(), S));
                body.push(Fact::T(Term::App(fi(sig, "M"), vec![Term::Var(e.clone()), iv(a)])));
                body.push(Fact::Eq(Term::Var(e), Term::App(fi(sig, "F"), vec![Term::Var(y)])));
            }
            7 => {
                // constructor atom with an int column, nested pattern and a ground leaf (modulo equality)
                let a = s.below(n_int);
                let y = format!("y{n_s}");
                n_s += 1;
                vars.push((y.clone(), S));
                let leaf = Term::App(fi(sig, &format!("a{}", s.below(4))), vec![]);
                if s.bool() {
                    body.push(Fact::T(Term::App(fi(sig, "P"), vec![Term::Var(y), iv(a)])));
                } else {
                    body.push(Fact::T(Term::App(fi(sig, "Q"), vec![Term::Var(y), leaf])));
                }
            }
            _ => {
                // (= x 3) literal equality
                let a = s.below(n_int);
                body.push(Fact::Eq(iv(a), Term::I(s.range(0, 3))));
            }
        }
    }
    (body, vars, shape.to_string())
}

fn out_rows(d: &crate::eng::CanonDump) -> Vec<String> {
    let mut v = vec![];
    for (k, rows) in &d.tables {
        if k.starts_with("Out") {
            v.extend(rows.iter().map(|r| format!("{k}{r}")));
        }
    }
    v
}

/// same atoms, but in one table atom two argument positions are swapped
fn variant_of(s: &mut Src, body: &[Fact]) -> Vec<Fact> {
    let mut b = body.to_vec();
    let cands: Vec<usize> = b.iter().enumerate().filter(|(_, f)| matches!(f, Fact::T(Term::App(_, a)) if a.len() >= 2)).map(|(i, _)| i).collect();
    if cands.is_empty() {
        return b;
    }
    let i = *s.pick(&cands);
    if let Fact::T(Term::App(f, args)) = &b[i] {
        if args.len() == 3 && args.iter().all(|a| matches!(a, Term::Var(_))) && (args[0] == args[1] || args[0] == args[2] || args[1] == args[2]) {
            // rotate the pattern: (x x y) -> (x y x) -> (y x x)
            let k = 1 + s.below(2);
            let mut a = args.clone();
            a.rotate_right(k);
            b[i] = Fact::T(Term::App(*f, a));
            return b;
        }
        let mut a = args.clone();
        let p = s.below(a.len());
        let q = (p + 1 + s.below(a.len() - 1)) % a.len();
        // only swap positions of the same type (all int columns in E/T/W; M/Q/P mix types)
        let same = matches!((&a[p], &a[q]), (Term::Var(x), Term::Var(y)) if x.chars().next() == y.chars().next()) || matches!((&a[p], &a[q]), (Term::I(_), _) | (_, Term::I(_)));
        if same {
            a.swap(p, q);
            b[i] = Fact::T(Term::App(*f, a));
        }
    }
    b
}

impl Stage for C02 {
    type Input = Case;
    fn name(&self) -> &'static str {
        "rule-matches"
    }
    fn decode(&self, s: &mut Src) -> Case {
        let mut sig = build_sig(s);
        let (body, vars, shape) = gen_body(s, &sig);
        let data = gen_data(s, &sig);
        sig.funcs.push(FuncDecl { name: "Out".into(), kind: FKind::Rel, args: vars.iter().map(|v| v.1.clone()).collect(), out: Ty::I64 });
        let out = sig.funcs.len() - 1;
        // 0-2 further rules for the same iteration: a variant of the first body (same atoms, two argument
        // positions of one atom swapped: same tables, same number of constraints, different content) or a fresh body
        let mut more = vec![];
        let n_more = s.pick_weighted(&[5, 3, 2]);
        for i in 0..n_more {
            let (b2, v2) = if s.bool() {
                (variant_of(s, &body), vars.clone())
            } else {
                let (b, v, _) = gen_body(s, &sig);
                (b, v)
            };
            sig.funcs.push(FuncDecl { name: format!("Out{}", i + 1), kind: FKind::Rel, args: v2.iter().map(|v| v.1.clone()).collect(), out: Ty::I64 });
            more.push(ExtraRule { body: b2, vars: v2, out: sig.funcs.len() - 1 });
        }
        Case { sig, data, body, vars, shape, out, more }
    }
    fn render(&self, c: &Case) -> serde_json::Value {
        let rule = Cmd::Rule { body: c.body.clone(), head: vec![self.head(c)], opts: RuleOpts::default() };
        let more: Vec<String> = c.more.iter().map(|r| format!("(rule ({}) ((Out.. {})))", c.sig.facts(&r.body), r.vars.iter().map(|v| v.0.clone()).collect::<Vec<_>>().join(" "))).collect();
        serde_json::json!({"shape": c.shape, "rule": c.sig.cmd(&rule), "more_rules_same_iteration": more, "declarations": c.sig.prelude(), "data": c.data.iter().map(|d| c.sig.cmd(d)).collect::<Vec<_>>()})
    }
    fn simplify(&self, c: &Case) -> Vec<Case> {
        let mut v = vec![];
        if c.data.len() > 1 {
            let mut d = c.clone();
            d.data.truncate(c.data.len() / 2);
            v.push(d);
            let mut d = c.clone();
            d.data.drain(..c.data.len() / 2);
            v.push(d);
        }
        if c.data.len() <= 24 {
            for i in (0..c.data.len()).rev() {
                let mut d = c.clone();
                d.data.remove(i);
                v.push(d);
            }
        }
        for i in 0..c.more.len() {
            let mut d = c.clone();
            d.more.remove(i);
            v.push(d);
        }
        for i in 0..c.body.len() {
            if c.body.len() > 1 {
                let mut d = c.clone();
                d.body.remove(i);
                v.push(d);
            }
        }
        v
    }
    fn check(&self, c: &Case) -> Outcome {
        let mut out = Outcome::new(fnv_str(&serde_json::to_string(c).unwrap_or_default()));
        let sig = &c.sig;
        let mut eg = EGraph::default();
        if !declare(&mut eg, sig, &mut out) {
            return out;
        }
        let mut model = Model::new(sig);
        model.limits = Limits { max_rows: 5000, max_matches: 1_500_000, max_saturate_iters: 10 };
        // load the data on both sides
        let mut text = String::new();
        for d in &c.data {
            if model.apply(d).is_err() {
                out.class("model-discard:data");
                return out;
            }
            text.push_str(&sig.cmd(d));
            text.push('\n');
        }
        match eng::run(&mut eg, &text) {
            CmdRes::Ok(_) => {}
            CmdRes::Panic(p) => {
                out.fail(format!("panic:{}", crate::fw::panic_key(&p)), format!("loading the data panicked: {p}"));
                return out;
            }
            CmdRes::Err(_, e) => {
                out.class("data-rejected");
                if std::env::var("VERIF_DEBUG").is_ok() {
                    eprintln!("data rejected: {e}");
                }
                return out;
            }
        }
        if !compare_dumps(&eg, &model, "after loading the data", &mut out) {
            return out;
        }
        // expected matches on the database as it stands now
        let matches = match model.matches(&c.body, false) {
            Ok(m) => m,
            Err(_) => {
                out.class("model-discard:match-budget");
                return out;
            }
        };
        let head = self.head(c);
        let extra_rules: Vec<Cmd> = c
            .more
            .iter()
            .map(|r| Cmd::Rule { body: r.body.clone(), head: vec![Action::Expr(Term::App(r.out, r.vars.iter().map(|(v, _)| Term::Var(v.clone())).collect()))], opts: RuleOpts::default() })
            .collect();
        let plain = Cmd::Rule { body: c.body.clone(), head: vec![head.clone()], opts: RuleOpts::default() };
        let mut m2 = Model::new(sig);
        m2.limits = Limits { max_rows: 100_000, max_matches: 1_500_000, max_saturate_iters: 10 };
        m2.st = model.st.clone();
        if m2.apply(&plain).is_err() || extra_rules.iter().any(|r| m2.apply(r).is_err()) || m2.apply(&Cmd::RunN { rs: None, n: 1, until: vec![] }).is_err() {
            out.class("model-discard:apply");
            return out;
        }
        let expected = out_rows(&canon_from_raw(&m2.raw_dump(), &CanonOpts::default()));
        let candidates: usize = c.body.iter().filter(|f| matches!(f, Fact::T(Term::App(..)))).count();
        // configurations
        let variants: Vec<(&str, RuleOpts, bool, bool)> = vec![
            ("default", RuleOpts::default(), false, true),
            (":no-decomp rule option", RuleOpts { no_decomp: true, ..Default::default() }, false, true),
            ("EGraph.no_decomp=true", RuleOpts::default(), true, true),
            (":naive rule option", RuleOpts { naive: true, ..Default::default() }, false, true),
            ("seminaive=false", RuleOpts::default(), false, false),
        ];
        for (label, opts, nodecomp, seminaive) in variants {
            let mut e2 = eg.clone();
            e2.no_decomp = nodecomp;
            e2.seminaive = seminaive;
            let rule = Cmd::Rule { body: c.body.clone(), head: vec![head.clone()], opts };
            let rt = sig.cmd(&rule);
            match eng::run(&mut e2, &rt) {
                CmdRes::Ok(_) => {}
                CmdRes::Panic(p) => {
                    out.fail(format!("panic:{}", crate::fw::panic_key(&p)), format!("[{label}] declaring `{rt}` panicked: {p}"));
                    return out;
                }
                CmdRes::Err(_, e) => {
                    out.class("rule-rejected");
                    if std::env::var("VERIF_DEBUG").is_ok() {
                        eprintln!("rule rejected: {rt}: {e}");
                    }
                    return out;
                }
            }
            let mut rejected = false;
            for r in &extra_rules {
                // the extra rules carry the same options as the first one
                let r2 = match (r, &rule) {
                    (Cmd::Rule { body, head, .. }, Cmd::Rule { opts, .. }) => Cmd::Rule { body: body.clone(), head: head.clone(), opts: opts.clone() },
                    _ => r.clone(),
                };
                if !eng::run(&mut e2, &sig.cmd(&r2)).is_ok() {
                    rejected = true;
                }
            }
            if rejected {
                out.class("extra-rule-rejected");
                return out;
            }
            match eng::run(&mut e2, "(run 1)") {
                CmdRes::Ok(_) => {}
                CmdRes::Panic(p) => {
                    out.fail(format!("panic:{}", crate::fw::panic_key(&p)), format!("[{label}] (run 1) of `{rt}` panicked: {p}"));
                    return out;
                }
                CmdRes::Err(_, e) => {
                    out.fail("run-error", format!("[{label}] (run 1) of `{rt}` failed: {e}"));
                    return out;
                }
            }
            out.count("configurations_run", 1);
            let got = out_rows(&canon_dump(&e2));
            if got != expected {
                let gs: std::collections::BTreeSet<&String> = got.iter().collect();
                let es: std::collections::BTreeSet<&String> = expected.iter().collect();
                let missing: Vec<&&String> = es.difference(&gs).take(6).collect();
                let extra: Vec<&&String> = gs.difference(&es).take(6).collect();
                out.fail(
                    if missing.is_empty() { "rule-fired-on-non-match" } else { "rule-missed-a-match" },
                    format!(
                        "[{label}] rule `{rt}` on the loaded database: Out has {} rows, the nested-loop evaluation of the body has {} rows; missing {:?}; spurious {:?}",
                        got.len(),
                        expected.len(),
                        missing,
                        extra
                    ),
                );
                return out;
            }
        }
        // EGraph::query returns the same set
        {
            let mut e3 = eg.clone();
            let vars: Vec<(String, String)> = c.vars.iter().map(|(v, t)| (v.clone(), sig.ty_name(t))).collect();
            match crate::eng::query(&mut e3, &vars, &sig.facts(&c.body)) {
                Ok(rows) => {
                    out.count("query_api_runs", 1);
                    let namer = name_classes(&raw_dump(&eg));
                    let mut got: Vec<String> =
                        rows.iter().map(|r| format!("({}) -> ()", r.iter().map(|v| namer.name(v).map(|x| x.1).unwrap_or_else(|| "??".into())).collect::<Vec<_>>().join(" "))).collect();
                    got.sort();
                    got.dedup();
                    let expected: Vec<String> = expected.iter().filter(|r| r.starts_with("Out(")).map(|r| r["Out".len()..].to_string()).collect();
                    if got != expected {
                        out.fail("query-api-differs", format!("EGraph::query({}) returned the set {:?} but the body's matches are {:?}", sig.facts(&c.body), got.iter().take(8).collect::<Vec<_>>(), expected.iter().take(8).collect::<Vec<_>>()));
                        return out;
                    }
                }
                Err(e) => {
                    if e.starts_with("PANIC") {
                        out.fail(format!("panic:{}", crate::fw::panic_key(&e)), format!("EGraph::query panicked: {e}"));
                        return out;
                    }
                    out.class("query-api-rejected");
                }
            }
        }
        out.class(format!("shape:{}", c.shape));
        out.class(format!("rules-in-iteration:{}", 1 + c.more.len()));
        if !matches.is_empty() {
            out.class("has-matches");
        }
        let big = c.data.len() > 32;
        if big {
            out.class("data>32-rows");
        }
        out.nontrivial = candidates >= 2 && !matches.is_empty() && c.data.len() >= 4;
        out
    }
}

impl C02 {
    fn head(&self, c: &Case) -> Action {
        Action::Expr(Term::App(c.out, c.vars.iter().map(|(v, _)| Term::Var(v.clone())).collect()))
    }
}

pub fn replay(rep: &Report, _stage: &str, j: &serde_json::Value) -> i32 {
    crate::registry::replay_stage(rep, &C02, j)
}

pub fn run(rep: &Report) {
    rep.set_rule(
        "cases = random schema + skewed database (0..200 rows per table, unions among leaves, a subsumed row) + one conjunctive body of shape chain/star/cycle/clique/random with decorations (constants, repeated variables, primitive filters, computed bindings, FD duplicates, constructor atoms, literal equalities), head (Out all-variables); \
         expected Out = nested-loop evaluation of the body by the reference interpreter on the database before the run; compared exactly under default / :no-decomp / EGraph.no_decomp / :naive / seminaive off, and with EGraph::query as a set. \
         non-trivial = distinct case with >=2 table atoms, >=4 data commands and at least one satisfying substitution",
    );
    rep.assume("EGraph::query is compared as a set (projections may legitimately repeat)");
    rep.run_regressions(&C02);
    rep.explore(&C02, rep.tier.pick(9000, 60_000), 3000);
}
