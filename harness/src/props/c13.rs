//! C13 — subsumed rows stop matching and extracting, forever; deleted rows are gone.
//! Lockstep against the reference interpreter with a subsumed bit per row
//! (OR on merge, sticky on re-insert) + query / check / extract probes on clones.

use super::lockstep::{Lockstep, Mode};
use crate::fw::Report;
use crate::pgen::GenCfg;

/// subsumption only: monotone, so the default (semi-naive) engine must agree with the naive model
fn stage() -> Lockstep {
    Lockstep {
        name: "subsume-lockstep",
        mode: Mode::C13,
        cfg: GenCfg { subsume: true, delete: false, push_pop: true, max_cmds: 18, min_cmds: 5, ..GenCfg::default() },
        pairs_per_prefix: 2,
        naive_engine: false,
    }
}

/// with `delete` the program is not monotone (a naive re-run re-creates what semi-naive does not), so the
/// engine runs with semi-naive off and is compared with the (naive) model
fn stage_delete() -> Lockstep {
    Lockstep {
        name: "delete-lockstep-naive",
        mode: Mode::C13,
        cfg: GenCfg { subsume: true, delete: true, push_pop: true, max_cmds: 18, min_cmds: 5, ..GenCfg::default() },
        pairs_per_prefix: 2,
        naive_engine: true,
    }
}

pub fn replay(rep: &Report, stage_name: &str, j: &serde_json::Value) -> i32 {
    match stage_name {
        "delete-lockstep-naive" => crate::registry::replay_stage(rep, &stage_delete(), j),
        _ => crate::registry::replay_stage(rep, &stage(), j),
    }
}

pub fn run(rep: &Report) {
    rep.set_rule(
        "cases = typed egglog histories with subsume (top level, rule heads, :subsume rewrites), delete, unions merging subsumed with live congruent rows, re-insertions, push/pop, decoded from proptest bytes; \
         lockstep with the reference interpreter (subsumed bit OR-ed on merge, sticky on re-insert): canonical dumps incl. the subsumed flag after every command, \
         plus on clones: EGraph::query over a table returns exactly the live rows, (check ..) still succeeds on subsumed rows, extraction never uses one. \
         non-trivial = distinct program in which a subsumed row took part in a merge/re-insertion or survived a later rebuild/iteration",
    );
    rep.assume("reference interpreter refegg.rs models subsumption as a sticky per-row bit and deletion as row removal");
    let st = stage();
    rep.run_regressions(&st);
    rep.explore(&st, rep.tier.pick(12_000, 100_000), 500);
    let sd = stage_delete();
    rep.run_regressions(&sd);
    rep.explore(&sd, rep.tier.pick(8000, 60_000), 500);
}
