//! C19 — the thread pool and the shared-memory helpers of `egglog-concurrency`
//! are safe under any interleaving.
//!
//! Every case is a *scenario* decoded from the choice stream (a pure function of
//! the bytes) and executed in a child process (`vcheck --child c19-scenario`),
//! because a deadlock / abort / use-after-return must not take the harness down.
//! The OS schedule is the sampled part: a child repeats its scenario `reps` times
//! and the scenario itself carries spin / yield / sleep perturbations placed inside
//! OUR task bodies and critical sections.
//!
//! Stages (= scenario kinds):
//!  * `spawn-tree`  ThreadPool::scope / Scope::spawn / nested scopes (free `scope`,
//!                  `pool.scope`, a scope on a second pool as hash_index does), blocking
//!                  waits inside workers, panics, nesting chains deeper than
//!                  MAX_INLINE_SCOPE_HELP_DEPTH (=64, threadpool/mod.rs).
//!  * `rolock`      ReadOptimizedLock reader/writer mixes over a multi-word record.
//!  * `cvec`        ConcurrentVec: concurrent push + prefix readers (InternTable pattern),
//!                  concurrent resize_with + cell access (NotificationList pattern, optionally
//!                  after a run of pushes so that head < backing length),
//!                  sequential push/resize_with/read mixes (incl. the trigger of the repaired
//!                  resize_with defect; see EXCLUDE_KNOWN_RESIZE_TRIGGER).
//!  * `pvw`         ParallelVecWriter ranged writes (write_slice / write_contents /
//!                  write_cell_slice) with prefix readers (row_buffer pattern).
//!  * `notify`      NotificationList rounds, Notification wait/notify, ResettableOnceLock
//!                  get_or_update races.
//!
//! Deviations from the design note, forced by the real API / framework:
//!  * one child process per case (the batch = the repetitions of ONE scenario), so a
//!    watchdog verdict always identifies its culprit and no single re-runs are needed;
//!  * trees are stored flat (index lists) because serde_json's recursion limit (128)
//!    is lower than the nesting needed to cross the inline-help limit;
//!  * the schedule is not a function of the input, so a failing input is memoised in
//!    the parent (a failure observed once IS a failure) — otherwise the framework's
//!    post-shrink re-check would downgrade a real race to "non-reproducible".
//!    `--replay` re-runs the scenario with 20x the repetitions.

use crate::child::{run_child, ChildJob, ChildResult};
use crate::choice::{fnv_str, Src};
use crate::fw::{Outcome, Report, Stage, Tier, Violation};
use serde::{Deserialize, Serialize};
use serde_json::{json, Value as J};
use std::collections::{BTreeMap, BTreeSet};
use std::sync::atomic::{AtomicBool, AtomicI64, AtomicU32, AtomicU64, AtomicUsize, Ordering};
use std::sync::{Barrier, Mutex};
use std::time::Duration;

pub const KNOWN_RESIZE_SIG: &str = "concurrentvec-resize-with-uninit-slots";
/// The resize_with defect (slots in [head, min(backing_len, n-1)) never written) was repaired in the repo
/// (resize_with now writes every slot in head..new_len). While it was open, the cvec generators were steered
/// away from its trigger; now they freely produce push/resize_with mixes with head < backing length (both the
/// "uninitialised" and the "stale value of an earlier fill" manifestation). A recurrence keeps the root-cause signature.
const EXCLUDE_KNOWN_RESIZE_TRIGGER: bool = false;
/// threadpool/mod.rs: MAX_INLINE_SCOPE_HELP_DEPTH
const INLINE_HELP_LIMIT: usize = 64;

// ---------------------------------------------------------------------------
// scenario description (everything serde: replay files store the Input)
// ---------------------------------------------------------------------------

/// perturbation placed inside our own task bodies / critical sections
#[derive(Clone, Copy, Serialize, Deserialize, PartialEq, Debug)]
pub enum Pt {
    N,
    Spin(u16),
    Yield,
    /// microseconds
    Sleep(u16),
}

#[derive(Clone, Copy, Serialize, Deserialize, PartialEq, Debug)]
pub enum Mode {
    /// spawn the children into the scope this task was spawned in
    Same,
    /// open a nested scope with the free function `egglog_concurrency::scope` (what core-relations does)
    NestFree,
    /// open a nested scope with `pool.scope` on the same pool
    NestPool,
    /// open a nested scope on a second pool (hash_index's INDEX_THREAD_POOL pattern)
    NestOther,
}

#[derive(Clone, Copy, Serialize, Deserialize, PartialEq, Debug)]
pub enum PanicAt {
    No,
    /// panic before spawning the children (they are then never spawned)
    Before,
    /// panic after spawning the children
    After,
}

#[derive(Clone, Serialize, Deserialize)]
pub struct TNode {
    pub pre: Pt,
    pub post: Pt,
    /// blocking wait: poll (sleeping) until the parent's body has returned; only generated
    /// when the parent is `Mode::Same` (such a parent never waits, so no deadlock by construction)
    pub wp: bool,
    pub mode: Mode,
    pub panic: PanicAt,
    pub kids: Vec<u16>,
}

#[derive(Clone, Serialize, Deserialize)]
pub struct TreeSc {
    pub workers: u8,
    /// size of the second pool (0 = none)
    pub other: u8,
    /// outermost scope opened as `pool.install(|| scope(..))` instead of `pool.scope(..)`
    pub via_install: bool,
    /// reuse one pool for all repetitions (otherwise a fresh pool per repetition, dropped after it)
    pub reuse: bool,
    /// node 0 is the root callback of the outermost scope
    pub nodes: Vec<TNode>,
}

#[derive(Clone, Serialize, Deserialize)]
pub struct RoThread {
    pub iters: u16,
    /// 0 = pure reader, k = every k-th operation is a write
    pub write_every: u8,
    pub hold: Pt,
    pub gap: Pt,
}
#[derive(Clone, Serialize, Deserialize)]
pub struct RoLockSc {
    pub threads: Vec<RoThread>,
}

#[derive(Clone, Serialize, Deserialize)]
pub struct Pusher {
    pub n: u16,
    pub gap: Pt,
    /// read back `read()[index]` right after the push (InternTable::intern does)
    pub verify: bool,
}
#[derive(Clone, Serialize, Deserialize)]
pub struct CvecPushSc {
    pub cap: u16,
    pub pushers: Vec<Pusher>,
    pub readers: u8,
    pub reader_gap: Pt,
}

#[derive(Clone, Serialize, Deserialize)]
pub struct CvecCellsSc {
    /// 0 = ConcurrentVec::new()
    pub cap: u16,
    /// cells pushed (sequentially) before the threads start: the backing vector is then longer than
    /// `head`, with never-initialised slots behind it (trigger of the repaired resize_with defect)
    #[serde(default)]
    pub prelude: u8,
    pub threads: Vec<Vec<u16>>,
    pub gap: Pt,
}

#[derive(Clone, Copy, Serialize, Deserialize, PartialEq, Debug)]
pub enum SeqOp {
    Push(u64),
    Resize(u16, u64),
    Read,
}
#[derive(Clone, Serialize, Deserialize)]
pub struct CvecSeqSc {
    pub cap: u16,
    pub ops: Vec<SeqOp>,
}

#[derive(Clone, Serialize, Deserialize)]
pub struct PvwWrite {
    pub len: u16,
    /// write_contents(ExactSizeIterator) instead of write_slice / write_cell_slice
    pub iter: bool,
    /// only with `iter`: the iterator is slow, it applies `slow_pt` before every `slow_every`-th item
    /// (0 = plain iterator). The writer has then reserved its range and is storing into the buffer
    /// while other writers run (and possibly force a reallocation).
    #[serde(default)]
    pub slow_every: u8,
    #[serde(default = "pt_none")]
    pub slow_pt: Pt,
}
fn pt_none() -> Pt {
    Pt::N
}
#[derive(Clone, Serialize, Deserialize)]
pub struct PvwSc {
    pub prefix: u16,
    pub extra_cap: u16,
    /// element type Cell<u64> + write_cell_slice (the row_buffer caller) instead of u64
    pub cell: bool,
    pub writers: Vec<Vec<PvwWrite>>,
    pub readers: u8,
    /// read the own completed write back through unsafe_read_access (get_row_unchecked pattern)
    pub verify_own: bool,
    pub gap: Pt,
    /// growth race: every writer but writer 0 starts only after writer 0's first (slow) write_contents
    /// iterator has produced its first item, i.e. while writer 0 is in the middle of storing its range;
    /// the generator then makes writer 1's first range exceed the capacity by a factor >= 4
    #[serde(default)]
    pub gate: bool,
}

#[derive(Clone, Serialize, Deserialize)]
pub struct NListSc {
    /// round -> thread -> ids notified; `reset()` is called between rounds, never concurrently
    pub rounds: Vec<Vec<Vec<u16>>>,
    pub gap: Pt,
}
#[derive(Clone, Serialize, Deserialize)]
pub struct NotifSc {
    /// per waiter: true = wait_with_timeout(60 s), false = wait()
    pub waiters: Vec<bool>,
    pub delay: Pt,
    pub notifiers: u8,
}
#[derive(Clone, Serialize, Deserialize)]
pub struct OnceSc {
    pub epochs: u8,
    pub updaters: u8,
    pub getters: u8,
    pub hold: Pt,
}

#[derive(Clone, Serialize, Deserialize)]
pub enum Scenario {
    Tree(TreeSc),
    RoLock(RoLockSc),
    CvecPush(CvecPushSc),
    CvecCells(CvecCellsSc),
    CvecSeq(CvecSeqSc),
    Pvw(PvwSc),
    NList(NListSc),
    Notif(NotifSc),
    Once(OnceSc),
}

impl Scenario {
    pub fn kind(&self) -> &'static str {
        match self {
            Scenario::Tree(_) => "spawn-tree",
            Scenario::RoLock(_) => "rolock",
            Scenario::CvecPush(_) => "cvec-push",
            Scenario::CvecCells(_) => "cvec-cells",
            Scenario::CvecSeq(_) => "cvec-seq",
            Scenario::Pvw(_) => "pvw",
            Scenario::NList(_) => "nlist",
            Scenario::Notif(_) => "notification",
            Scenario::Once(_) => "oncelock",
        }
    }
}

#[derive(Clone, Serialize, Deserialize)]
pub struct Case {
    pub sc: Scenario,
    /// number of resize_with operations the generator steered away from the known trigger
    #[serde(default)]
    pub steered: u32,
}

// ---------------------------------------------------------------------------
// decoders
// ---------------------------------------------------------------------------

fn dec_pt(src: &mut Src, sleep_budget: &mut i64) -> Pt {
    match src.pick_weighted(&[4, 4, 2, 2]) {
        0 => Pt::N,
        1 => Pt::Spin(src.range(1, 3000) as u16),
        2 => Pt::Yield,
        _ => {
            let us = src.range(20, 600);
            if *sleep_budget >= us {
                *sleep_budget -= us;
                Pt::Sleep(us as u16)
            } else {
                Pt::Yield
            }
        }
    }
}

/// perturbation that is applied `times` times: sleeps are scaled so that one thread sleeps <= ~3 ms in total
fn dec_rep_pt(src: &mut Src, times: usize) -> Pt {
    match src.pick_weighted(&[4, 4, 2, 1]) {
        0 => Pt::N,
        1 => Pt::Spin(src.range(1, 600) as u16),
        2 => Pt::Yield,
        _ => {
            let us = src.range(20, 300).min(3000 / times.max(1) as i64);
            if us >= 20 { Pt::Sleep(us as u16) } else { Pt::Yield }
        }
    }
}

fn dec_workers(src: &mut Src) -> u8 {
    match src.below(4) {
        0 => 1,
        1 => src.range(2, 4) as u8,
        _ => src.range(1, 16) as u8,
    }
}

struct TreeGen<'a, 'b> {
    src: &'a mut Src<'b>,
    nodes: Vec<TNode>,
    budget: usize,
    sleep: i64,
    panics: bool,
    other: bool,
}

impl TreeGen<'_, '_> {
    fn node(&mut self, depth_left: usize, parent_same: bool) -> u16 {
        let id = self.nodes.len();
        let pre = dec_pt(self.src, &mut self.sleep);
        let post = if self.src.chance(1, 4) { dec_pt(self.src, &mut self.sleep) } else { Pt::N };
        let wp = parent_same && self.src.chance(1, 6);
        let mode = if depth_left == 0 {
            Mode::Same
        } else {
            match self.src.pick_weighted(&[11, 4, 3, if self.other { 2 } else { 0 }]) {
                0 => Mode::Same,
                1 => Mode::NestFree,
                2 => Mode::NestPool,
                _ => Mode::NestOther,
            }
        };
        let panic = if self.panics && self.src.chance(1, 10) {
            if self.src.bool() { PanicAt::Before } else { PanicAt::After }
        } else {
            PanicAt::No
        };
        self.nodes.push(TNode { pre, post, wp, mode, panic, kids: vec![] });
        let want = if depth_left == 0 { 0 } else { self.src.pick_weighted(&[3, 3, 4, 3, 2, 1, 1, 1, 1]) };
        let mut kids = vec![];
        for _ in 0..want {
            if self.budget == 0 {
                break;
            }
            self.budget -= 1;
            kids.push(self.node(depth_left - 1, mode == Mode::Same));
        }
        self.nodes[id].kids = kids;
        id as u16
    }
}

fn dec_tree(src: &mut Src, max_nodes: usize) -> TreeSc {
    let chain = src.chance(1, 6);
    if chain {
        // a chain of nested scopes deeper than the inline-help limit (depth 6 / fan-out 8 do not apply here)
        let workers = src.range(1, 3) as u8;
        let len = src.range(58, 84) as usize;
        let free = src.bool();
        let bottom_panics = src.chance(1, 4);
        let mut sleep = 3000i64;
        let mut nodes: Vec<TNode> = vec![];
        for i in 0..len {
            let id = nodes.len();
            let pre = if src.chance(1, 8) { dec_pt(src, &mut sleep) } else { Pt::N };
            nodes.push(TNode { pre, post: Pt::N, wp: false, mode: if free { Mode::NestFree } else { Mode::NestPool }, panic: PanicAt::No, kids: vec![] });
            if src.chance(1, 5) {
                // a leaf sibling
                let lid = nodes.len() as u16;
                nodes.push(TNode { pre: Pt::Spin(200), post: Pt::N, wp: false, mode: Mode::Same, panic: PanicAt::No, kids: vec![] });
                nodes[id].kids.push(lid);
            }
            let next = nodes.len() as u16;
            nodes[id].kids.push(next);
            if i + 1 == len {
                nodes.push(TNode {
                    pre: Pt::Spin(100),
                    post: Pt::N,
                    wp: false,
                    mode: Mode::Same,
                    panic: if bottom_panics { PanicAt::After } else { PanicAt::No },
                    kids: vec![],
                });
            }
        }
        return TreeSc { workers, other: 0, via_install: src.bool(), reuse: src.bool(), nodes };
    }
    let workers = dec_workers(src);
    let other = if src.chance(1, 4) { src.range(1, 4) as u8 } else { 0 };
    let via_install = src.chance(1, 3);
    let reuse = src.bool();
    let panics = src.chance(1, 3);
    let mut g = TreeGen { src, nodes: vec![], budget: max_nodes, sleep: 6_000, panics, other: other > 0 };
    g.node(6, false);
    let nodes = g.nodes;
    TreeSc { workers, other, via_install, reuse, nodes }
}

fn dec_rolock(src: &mut Src) -> RoLockSc {
    let n = 1 + src.below(10);
    let mut threads = vec![];
    for _ in 0..n {
        let iters = src.range(1, 250) as u16;
        threads.push(RoThread {
            iters,
            write_every: *src.pick(&[0u8, 1, 0, 2, 3, 5, 10, 50]),
            hold: dec_rep_pt(src, 2 * iters as usize),
            gap: dec_rep_pt(src, iters as usize),
        });
    }
    RoLockSc { threads }
}

/// Model of ConcurrentVec's backing-vector length, used ONLY to recognise the known
/// `resize_with` defect: `resize_with(n, f)` writes slot n-1 and the slots it appends to the
/// backing vector, but never the slots in [head, min(backing_len, n-1)) that already exist in
/// the backing vector. Those hold uninitialised memory when the backing vector was grown by
/// `push` (MaybeUninit::uninit()), or the stale value of an EARLIER resize_with's closure when
/// it was grown by resize_with (second manifestation of the same root cause, found by this
/// generator: push; resize_with(6,a); resize_with(13,b) leaves slots 6,7 = a).
/// Returns per-op "this resize_with skips at least one slot".
pub fn seq_triggers(ops: &[SeqOp]) -> Vec<bool> {
    let (mut len, mut head) = (0usize, 0usize);
    let mut res = vec![];
    for op in ops {
        match *op {
            SeqOp::Push(_) => {
                if head >= len {
                    len = (head + 1).next_power_of_two();
                }
                head += 1;
                res.push(false);
            }
            SeqOp::Resize(n, _) => {
                let n = n as usize;
                if n <= head {
                    res.push(false);
                    continue;
                }
                res.push(head < len.min(n - 1));
                if n - 1 >= len {
                    len = n.next_power_of_two();
                }
                head = n;
            }
            SeqOp::Read => res.push(false),
        }
    }
    res
}

fn dec_cvec(src: &mut Src) -> (Scenario, u32) {
    match src.pick_weighted(&[5, 3, 3]) {
        0 => {
            let cap = *src.pick(&[1u16, 2, 4, 16, 128, 512]);
            let np = 1 + src.below(8);
            let mut pushers = vec![];
            for _ in 0..np {
                let n = src.range(1, 300) as u16;
                pushers.push(Pusher { n, gap: dec_rep_pt(src, n as usize), verify: src.bool() });
            }
            let readers = src.below(5) as u8;
            let reader_gap = match src.below(3) {
                0 => Pt::N,
                1 => Pt::Spin(src.range(1, 200) as u16),
                _ => Pt::Yield,
            };
            (Scenario::CvecPush(CvecPushSc { cap, pushers, readers, reader_gap }), 0)
        }
        1 => {
            let cap = *src.pick(&[0u16, 1, 4, 64]);
            let nt = 1 + src.below(8);
            let hi = *src.pick(&[8usize, 40, 200, 700]);
            let mut threads = vec![];
            for _ in 0..nt {
                let k = 1 + src.below(60);
                threads.push((0..k).map(|_| src.below(hi) as u16).collect());
            }
            let mut prelude = *src.pick(&[0u8, 3, 5, 9, 17, 33]);
            let mut steered = 0;
            if EXCLUDE_KNOWN_RESIZE_TRIGGER && prelude > 0 {
                prelude = 0;
                steered = 1;
            }
            (Scenario::CvecCells(CvecCellsSc { cap, prelude, threads, gap: dec_rep_pt(src, 60) }), steered)
        }
        _ => {
            let cap = *src.pick(&[1u16, 2, 8, 128]);
            let n = 1 + src.below(24);
            let mut ops: Vec<SeqOp> = vec![];
            let mut steered = 0;
            let mut head = 0usize;
            let mut next_val = 100u64;
            for _ in 0..n {
                match src.pick_weighted(&[5, 3, 2]) {
                    0 => {
                        ops.push(SeqOp::Push(next_val));
                        next_val += 1;
                        head += 1;
                    }
                    1 => {
                        let target = (head as i64 + src.range(-2, 12)).clamp(0, 400) as u16;
                        let fill = 7 + 1000 * (1 + src.below(9) as u64);
                        ops.push(SeqOp::Resize(target, fill));
                        if EXCLUDE_KNOWN_RESIZE_TRIGGER && *seq_triggers(&ops).last().unwrap() {
                            // steer away from the known defect: grow by exactly one slot (never a trigger)
                            ops.pop();
                            ops.push(SeqOp::Resize(head as u16 + 1, fill));
                            debug_assert!(!*seq_triggers(&ops).last().unwrap());
                            steered += 1;
                            head += 1;
                        } else {
                            head = head.max(target as usize);
                        }
                    }
                    _ => ops.push(SeqOp::Read),
                }
            }
            ops.push(SeqOp::Read);
            (Scenario::CvecSeq(CvecSeqSc { cap, ops }), steered)
        }
    }
}

fn dec_pvw_write(src: &mut Src, slow_left: &mut u32) -> PvwWrite {
    let len = src.below(49) as u16;
    let iter = src.chance(1, 3);
    let mut w = PvwWrite { len, iter, slow_every: 0, slow_pt: Pt::N };
    if iter && len >= 2 && *slow_left > 0 && src.chance(1, 3) {
        *slow_left -= 1;
        w.slow_every = src.range(1, 4) as u8;
        w.slow_pt = dec_rep_pt(src, len as usize / w.slow_every as usize + 1);
    }
    w
}

fn dec_pvw(src: &mut Src) -> PvwSc {
    let gate = src.chance(1, 3);
    let cell = src.bool();
    // at most a few slow writes per scenario (bounds the time a scenario can sleep)
    let mut slow_left = 4u32;
    if gate {
        // small buffer; writer 0 is in the middle of a slow write_contents when writer 1 asks for >= 4x the capacity
        let prefix = src.below(17) as u16;
        let extra_cap = *src.pick(&[16u16, 32, 64]);
        let nw = 2 + src.below(5);
        let mut writers: Vec<Vec<PvwWrite>> = vec![];
        for t in 0..nw {
            let k = 1 + src.below(8);
            let mut ws: Vec<PvwWrite> = (0..k).map(|_| dec_pvw_write(src, &mut slow_left)).collect();
            if t == 0 {
                let len = src.range(4, 40) as u16;
                let every = src.range(1, 4) as u8;
                ws[0] = PvwWrite { len, iter: true, slow_every: every, slow_pt: dec_rep_pt(src, len as usize / every as usize + 1) };
            } else if t == 1 {
                ws[0] = PvwWrite { len: 4 * (prefix + extra_cap) + src.below(64) as u16, iter: src.bool(), slow_every: 0, slow_pt: Pt::N };
            }
            writers.push(ws);
        }
        let readers = if prefix > 0 { src.below(3) as u8 } else { 0 };
        return PvwSc { prefix, extra_cap, cell, writers, readers, verify_own: src.bool(), gap: dec_rep_pt(src, 10), gate };
    }
    let prefix = src.below(65) as u16;
    let extra_cap = *src.pick(&[0u16, 0, 4, 16, 64, 2048]);
    let nw = 1 + src.below(8);
    let mut writers = vec![];
    for _ in 0..nw {
        let k = 1 + src.below(30);
        writers.push((0..k).map(|_| dec_pvw_write(src, &mut slow_left)).collect());
    }
    let readers = if prefix > 0 { src.below(4) as u8 } else { 0 };
    PvwSc { prefix, extra_cap, cell, writers, readers, verify_own: src.bool(), gap: dec_rep_pt(src, 30), gate }
}

fn dec_notify(src: &mut Src) -> Scenario {
    match src.pick_weighted(&[5, 3, 3]) {
        0 => {
            let nr = 1 + src.below(10);
            let hi = *src.pick(&[4usize, 30, 140, 600]);
            let nt = 1 + src.below(8);
            let mut rounds = vec![];
            for _ in 0..nr {
                // "hot" round: every thread notifies the same ids in the same order (the contended case
                // the implementation is optimised for: "notifying a table that has already been notified")
                let hot = src.bool();
                let mut ts: Vec<Vec<u16>> = vec![];
                for t in 0..nt {
                    if hot && t > 0 {
                        let first = ts[0].clone();
                        ts.push(first);
                        continue;
                    }
                    let k = src.below(30);
                    ts.push((0..k).map(|_| src.below(hi) as u16).collect());
                }
                rounds.push(ts);
            }
            Scenario::NList(NListSc { rounds, gap: dec_rep_pt(src, 40) })
        }
        1 => {
            let nw = 1 + src.below(8);
            let waiters = (0..nw).map(|_| src.chance(1, 3)).collect();
            let mut sleep = 2000i64;
            Scenario::Notif(NotifSc { waiters, delay: dec_pt(src, &mut sleep), notifiers: 1 + src.below(3) as u8 })
        }
        _ => {
            let mut sleep = 1000i64;
            Scenario::Once(OnceSc { epochs: 1 + src.below(4) as u8, updaters: 1 + src.below(8) as u8, getters: src.below(4) as u8, hold: dec_pt(src, &mut sleep) })
        }
    }
}

// ---------------------------------------------------------------------------
// static analysis of a scenario (expected behaviour, classes, non-trivial rule)
// ---------------------------------------------------------------------------

pub struct TreeFacts {
    pub parent: Vec<Option<usize>>,
    /// node is expected to run (not below a panic-before node)
    pub exec: Vec<bool>,
    pub expect_panic: bool,
    /// 1 (outermost scope) + max number of nested-scope nodes with children on an executed path
    pub nesting: usize,
    pub tasks: usize,
    pub depth: usize,
    pub waits: usize,
    pub cross: bool,
}

pub fn tree_facts(t: &TreeSc) -> TreeFacts {
    let n = t.nodes.len();
    let mut f = TreeFacts { parent: vec![None; n], exec: vec![false; n], expect_panic: false, nesting: 1, tasks: 0, depth: 0, waits: 0, cross: false };
    // iterative DFS: (node, nesting-so-far, depth)
    let mut stack = vec![(0usize, 1usize, 0usize)];
    f.exec[0] = true;
    while let Some((i, nest, d)) = stack.pop() {
        let nd = &t.nodes[i];
        f.depth = f.depth.max(d);
        if i != 0 {
            f.tasks += 1;
        }
        if nd.panic != PanicAt::No {
            f.expect_panic = true;
        }
        if nd.wp || matches!(nd.pre, Pt::Sleep(_)) || matches!(nd.post, Pt::Sleep(_)) {
            f.waits += 1;
        }
        if nd.panic == PanicAt::Before {
            for &k in &nd.kids {
                f.parent[k as usize] = Some(i);
            }
            continue;
        }
        let nested = nd.mode != Mode::Same && !nd.kids.is_empty();
        if nested && nd.mode == Mode::NestOther {
            f.cross = true;
        }
        let nn = nest + nested as usize;
        f.nesting = f.nesting.max(nn);
        for &k in &nd.kids {
            f.parent[k as usize] = Some(i);
            f.exec[k as usize] = true;
            stack.push((k as usize, nn, d + 1));
        }
    }
    f
}

fn classify(sc: &Scenario, out: &mut Outcome) {
    match sc {
        Scenario::Tree(t) => {
            let f = tree_facts(t);
            out.class(match t.workers {
                1 => "tree:workers=1",
                2..=4 => "tree:workers=2-4",
                _ => "tree:workers=5-16",
            });
            out.class(match f.nesting {
                1 => "tree:nesting=1",
                2 => "tree:nesting=2",
                3..=6 => "tree:nesting=3-6",
                7..=INLINE_HELP_LIMIT => "tree:nesting=7-64",
                _ => "tree:nesting>64(inline-help-limit)",
            });
            if f.tasks > t.workers as usize {
                out.class("tree:tasks>workers");
            }
            if f.expect_panic {
                out.class("tree:expects-panic");
            }
            if f.waits > 0 {
                out.class("tree:blocking-wait-in-worker");
            }
            if f.cross {
                out.class("tree:nested-scope-on-second-pool");
            }
            if f.depth >= 4 {
                out.class("tree:depth>=4");
            }
            out.count("tree_tasks", f.tasks as u64);
            out.nontrivial = f.nesting >= 2 && f.tasks > t.workers as usize;
        }
        Scenario::RoLock(s) => {
            let writers = s.threads.iter().filter(|t| t.write_every > 0).count();
            let readers = s.threads.iter().filter(|t| t.write_every != 1).count();
            out.class(format!("rolock:writers={}", writers.min(3)).replace("=3", ">=3"));
            if writers >= 1 && readers >= 1 && s.threads.len() >= 2 {
                out.class("rolock:readers-vs-writers");
            }
            if writers >= 2 {
                out.class("rolock:writers-vs-writers");
            }
            out.nontrivial = s.threads.len() >= 2 && writers >= 1;
        }
        Scenario::CvecPush(s) => {
            let total: usize = s.pushers.iter().map(|p| p.n as usize).sum();
            let conc = s.pushers.len() + s.readers as usize >= 2;
            out.class("cvec:concurrent-push");
            if s.readers > 0 {
                out.class("cvec:push-with-prefix-readers");
            }
            // the backing Vec's LENGTH starts at 0 whatever the capacity: it is resized (under the exclusive
            // lock) at every power-of-two boundary; it is reallocated once the capacity is exceeded
            if total >= 2 && conc {
                out.class("cvec:resize-under-concurrent-access");
            }
            if total > (s.cap as usize).next_power_of_two() && conc {
                out.class("cvec:realloc-under-concurrent-access");
            }
            out.nontrivial = conc;
        }
        Scenario::CvecCells(s) => {
            out.class("cvec:concurrent-resize_with(NotificationList-pattern)");
            if s.prelude > 0 {
                out.class("cvec:concurrent-resize_with-after-pushes(head<backing-len)");
            }
            out.nontrivial = s.threads.len() >= 2;
        }
        Scenario::CvecSeq(s) => {
            out.class("cvec:sequential-push/resize_with/read");
            if s.ops.iter().any(|o| matches!(o, SeqOp::Resize(..))) {
                out.class("cvec:seq-has-resize_with");
            }
            if seq_triggers(&s.ops).iter().any(|b| *b) {
                out.class("cvec:seq-resize_with-over-existing-backing-slots(repaired-defect-trigger)");
            }
            out.nontrivial = false;
        }
        Scenario::Pvw(s) => {
            let total: usize = s.writers.iter().flatten().map(|w| w.len as usize).sum();
            out.class(if s.cell { "pvw:Cell<u64>/write_cell_slice" } else { "pvw:u64/write_slice" });
            if s.writers.len() >= 2 {
                out.class("pvw:>=2-writers");
            }
            if s.readers > 0 {
                out.class("pvw:prefix-readers");
            }
            if s.writers.iter().flatten().any(|w| w.iter && w.slow_every > 0) {
                out.class("pvw:slow-iterator-write_contents");
            }
            if s.gate && s.writers.len() >= 2 {
                let cap = s.prefix as usize + s.extra_cap as usize;
                let big = s.writers[1].first().map(|w| w.len as usize).unwrap_or(0);
                if big >= 4 * cap.max(1) {
                    out.class("pvw:growth>=4x-while-slow-writer-is-storing");
                }
            }
            if total > s.extra_cap as usize && s.writers.len() + s.readers as usize >= 2 {
                out.class("pvw:reallocation-under-concurrent-access");
            }
            out.nontrivial = s.writers.len() + s.readers as usize >= 2;
        }
        Scenario::NList(s) => {
            out.class("notify:NotificationList");
            let conc = s.rounds.iter().any(|r| r.iter().filter(|t| !t.is_empty()).count() >= 2);
            if s.rounds.len() >= 2 {
                out.class("notify:nlist-multi-round");
            }
            out.nontrivial = conc;
        }
        Scenario::Notif(s) => {
            out.class("notify:Notification");
            out.nontrivial = s.waiters.len() + s.notifiers as usize >= 2;
        }
        Scenario::Once(s) => {
            out.class("notify:ResettableOnceLock");
            out.nontrivial = s.updaters as usize + s.getters as usize >= 2;
        }
    }
}

// ---------------------------------------------------------------------------
// the stage
// ---------------------------------------------------------------------------

#[derive(Clone, Copy, PartialEq)]
pub enum Kind {
    Tree,
    RoLock,
    Cvec,
    Pvw,
    Notify,
}

pub struct St<'a> {
    pub rep: &'a Report,
    pub kind: Kind,
    pub reps: u32,
    pub max_nodes: usize,
}

/// failures already observed in this process (input hash -> violation): the schedule is
/// sampled, so a failure that happened once is reported again for the same input
static MEMO: Mutex<BTreeMap<u64, (String, String)>> = Mutex::new(BTreeMap::new());
static FAIL_SEEN: AtomicBool = AtomicBool::new(false);
/// child runs still allowed for shrinking after the first hard failure
static POST_FAIL_BUDGET: AtomicI64 = AtomicI64::new(120);

const T_FIRST: Duration = Duration::from_secs(10);
const T_RETRY: Duration = Duration::from_secs(90);

fn squash(s: &str) -> String {
    // stable key: digit runs -> '#', whitespace -> '_', bounded length
    let mut out = String::new();
    let mut in_digits = false;
    for c in s.chars() {
        if c.is_ascii_digit() {
            if !in_digits {
                out.push('#');
            }
            in_digits = true;
            continue;
        }
        in_digits = false;
        out.push(if c.is_whitespace() { '_' } else { c });
        if out.len() >= 70 {
            break;
        }
    }
    out
}

impl St<'_> {
    fn hard(&self, sig: &str) -> bool {
        self.rep.is_known(sig).is_none()
    }

    fn execute(&self, c: &Case, out: &mut Outcome) {
        let kind = c.sc.kind();
        let payload = json!({"sc": c.sc, "reps": self.reps});
        let mut timeout = T_FIRST;
        for attempt in 0..2 {
            let r = run_child(ChildJob { kind: "c19-scenario", payload: payload.clone(), env: vec![], timeout, cwd: None });
            match r {
                ChildResult::Ok(j) => {
                    if let Some(st) = j.get("stats").and_then(|s| s.as_object()) {
                        for (k, v) in st {
                            if let Some(n) = v.as_u64() {
                                if let Some(cl) = k.strip_prefix("class:") {
                                    if n > 0 {
                                        out.class(cl.to_string());
                                    }
                                } else {
                                    out.count(k.clone(), n);
                                }
                            }
                        }
                    }
                    if j["ok"].as_bool() == Some(true) {
                        out.count("repetitions", self.reps as u64);
                    } else if let Some(sig) = j["sig"].as_str() {
                        out.fail(sig.to_string(), format!("{} (scenario kind {kind}, {} repetitions per child)", j["detail"].as_str().unwrap_or(""), self.reps));
                    } else {
                        self.rep.inconclusive(format!("child verdict not understood: {j}"));
                    }
                    return;
                }
                ChildResult::Crashed { status, stderr } => {
                    let last = stderr.lines().rev().find(|l| !l.trim().is_empty()).unwrap_or("");
                    out.fail(format!("crash:{kind}:{}", squash(&format!("{status}:{last}"))), format!("child process died ({status}) while running the scenario; stderr tail:\n{stderr}"));
                    return;
                }
                ChildResult::Quiescent { stderr } => {
                    out.fail(
                        format!("deadlock:{kind}"),
                        format!("scenario did not finish within {timeout:?} and every thread of the child was asleep with no CPU progress (deadlock / lost wake-up / lost job); stderr tail:\n{stderr}"),
                    );
                    return;
                }
                ChildResult::Busy => {
                    if attempt == 0 {
                        out.count("busy_retries", 1);
                        timeout = T_RETRY;
                        continue;
                    }
                    out.class("inconclusive-busy");
                    self.rep.inconclusive(format!("{kind} scenario still computing after {T_RETRY:?}"));
                    return;
                }
                ChildResult::Broken(m) => {
                    out.class("inconclusive-broken");
                    self.rep.inconclusive(format!("child protocol error: {m}"));
                    return;
                }
            }
        }
    }
}

impl Stage for St<'_> {
    type Input = Case;
    fn name(&self) -> &'static str {
        match self.kind {
            Kind::Tree => "spawn-tree",
            Kind::RoLock => "rolock",
            Kind::Cvec => "cvec",
            Kind::Pvw => "pvw",
            Kind::Notify => "notify",
        }
    }
    fn decode(&self, src: &mut Src) -> Case {
        match self.kind {
            Kind::Tree => Case { sc: Scenario::Tree(dec_tree(src, self.max_nodes)), steered: 0 },
            Kind::RoLock => Case { sc: Scenario::RoLock(dec_rolock(src)), steered: 0 },
            Kind::Cvec => {
                let (sc, steered) = dec_cvec(src);
                Case { sc, steered }
            }
            Kind::Pvw => Case { sc: Scenario::Pvw(dec_pvw(src)), steered: 0 },
            Kind::Notify => Case { sc: dec_notify(src), steered: 0 },
        }
    }
    fn check(&self, c: &Case) -> Outcome {
        let text = serde_json::to_string(&c.sc).unwrap_or_default();
        let key = fnv_str(&text);
        let mut out = Outcome::new(key);
        classify(&c.sc, &mut out);
        if c.steered > 0 {
            out.count("excluded_known_resize_trigger", 1);
        }
        if let Some((sig, detail)) = MEMO.lock().unwrap().get(&key).cloned() {
            out.fail(sig, detail);
            return out;
        }
        if FAIL_SEEN.load(Ordering::SeqCst) && POST_FAIL_BUDGET.fetch_sub(1, Ordering::SeqCst) <= 0 {
            // a hard failure is already being reported: stop spending child runs (bounds shrinking time)
            out.class("not-run-after-first-failure");
            out.nontrivial = false;
            return out;
        }
        self.execute(c, &mut out);
        let mut all: Vec<&Violation> = out.soft.iter().collect();
        if let Some(v) = &out.fail {
            all.push(v);
        }
        if let Some(v) = all.into_iter().find(|v| self.hard(&v.sig)) {
            FAIL_SEEN.store(true, Ordering::SeqCst);
            if v.sig.starts_with("deadlock:") {
                // every further deadlocking candidate costs a full watchdog period
                POST_FAIL_BUDGET.fetch_sub(40, Ordering::SeqCst);
            }
            MEMO.lock().unwrap().insert(key, (v.sig.clone(), v.detail.clone()));
        }
        out
    }
}

fn golden_resize_case() -> Case {
    let mut ops: Vec<SeqOp> = (0..5).map(|i| SeqOp::Push(100 + i)).collect();
    ops.push(SeqOp::Resize(8, 7));
    ops.push(SeqOp::Read);
    Case { sc: Scenario::CvecSeq(CvecSeqSc { cap: 128, ops }), steered: 0 }
}

fn stage_for<'a>(rep: &'a Report, kind: Kind, reps: u32) -> St<'a> {
    St { rep, kind, reps, max_nodes: rep.tier.pick(90, 160) }
}

pub fn replay(rep: &Report, stage: &str, j: &J) -> i32 {
    let kind = match stage {
        "spawn-tree" => Kind::Tree,
        "rolock" => Kind::RoLock,
        "cvec" => Kind::Cvec,
        "pvw" => Kind::Pvw,
        "notify" => Kind::Notify,
        _ => return 2,
    };
    // the schedule is sampled: give a replay 20x the repetitions of a normal run
    crate::registry::replay_stage(rep, &stage_for(rep, kind, 60), j)
}

pub fn run(rep: &Report) {
    rep.set_rule(
        "cases = concurrency scenarios decoded from proptest byte strings, each executed `reps` times in a child process (watchdog: all-threads-asleep => deadlock) with spin/yield/sleep perturbations inside our task bodies: \
         (spawn-tree) pools of 1-16 workers, trees of depth<=6 / fan-out<=8 plus nested-scope chains of 58-84 levels (inline-help limit is 64), node = leaf work | spawn children in the same scope | nested scope (free scope(), pool.scope, scope on a 2nd pool) | blocking wait | panic; oracle: when the outermost scope returns every spawned node has started and finished exactly once, scope panics iff an executed node panics; \
         (rolock) reader/writer mixes on ReadOptimizedLock<[u64;8]+canary>; (cvec) concurrent push + prefix readers, concurrent resize_with + cell access, sequential push/resize_with/read vs Vec model; (pvw) ranged writes + prefix readers on ParallelVecWriter<u64|Cell<u64>>; (notify) NotificationList rounds, Notification, ResettableOnceLock races. \
         non-trivial = spawn tree with nesting>=2 (at least one scope opened inside a task) AND more tasks than workers, or a shared-memory scenario with >=2 threads contending (incl. >=1 reallocation under concurrent access); distinct = distinct scenario JSON",
    );
    rep.assume("only usages a real caller makes: push||push||read on ConcurrentVec (InternTable), resize_with||resize_with||read (NotificationList), no push/resize_with while the same thread holds a read handle, NotificationList::reset never concurrent with notify, ResettableOnceLock::reset only through &mut, ParallelVecWriter reads limited to the initial prefix or the thread's own completed write");
    rep.assume("the OS schedule is sampled, not enumerated: absence of a violation is evidence over the sampled interleavings only");
    if EXCLUDE_KNOWN_RESIZE_TRIGGER {
        rep.assume("sequential ConcurrentVec scenarios are steered away from the known resize_with trigger (counter excluded_known_resize_trigger); one golden case re-demonstrates it");
    }
    let reps = rep.tier.pick(3, 6);
    let tree = stage_for(rep, Kind::Tree, reps);
    let rolock = stage_for(rep, Kind::RoLock, reps);
    let cvec = stage_for(rep, Kind::Cvec, reps);
    let pvw = stage_for(rep, Kind::Pvw, reps);
    let notify = stage_for(rep, Kind::Notify, reps);
    rep.run_regressions(&tree);
    rep.run_regressions(&rolock);
    rep.run_regressions(&cvec);
    rep.run_regressions(&pvw);
    rep.run_regressions(&notify);
    // golden case: push x5; resize_with(8, || 7); read all  (the repaired resize_with defect: must pass)
    // (C19_SKIP_GOLDEN is a sensitivity-testing switch: shows that the random cvec stage finds a regression by itself)
    if std::env::var("C19_SKIP_GOLDEN").is_err() {
        rep.run_one(&cvec, &golden_resize_case());
    }
    let (nt, nr, nc, np, nn) = match rep.tier {
        Tier::Quick => (500, 150, 200, 140, 180),
        Tier::Thorough => (6_000, 1200, 2000, 1200, 1500),
    };
    let timed = |name: &str, f: &dyn Fn()| {
        let t0 = std::time::Instant::now();
        f();
        rep.note(format!("stage {name}: {:.1}s wall", t0.elapsed().as_secs_f64()));
    };
    timed("spawn-tree", &|| rep.explore(&tree, nt, 700));
    timed("rolock", &|| rep.explore(&rolock, nr, 120));
    timed("cvec", &|| rep.explore(&cvec, nc, 300));
    timed("pvw", &|| rep.explore(&pvw, np, 500));
    timed("notify", &|| rep.explore(&notify, nn, 400));
}

// ---------------------------------------------------------------------------
// child side: executing a scenario
// ---------------------------------------------------------------------------

use egglog_concurrency::parallel_writer::write_cell_slice;
use egglog_concurrency::{ConcurrentVec, Notification, NotificationList, ParallelVecWriter, ReadOptimizedLock, ResettableOnceLock, Scope, ThreadPool};
use std::cell::Cell;
use std::panic::{catch_unwind, AssertUnwindSafe};

const PLANNED: &str = "c19-planned-panic:";

static CHILD_FAILED: AtomicBool = AtomicBool::new(false);
static UNEXPECTED_PANICS: AtomicUsize = AtomicUsize::new(0);
static FIRST_UNEXPECTED: Mutex<String> = Mutex::new(String::new());
static NEXT_TID: AtomicU64 = AtomicU64::new(1);
thread_local! {
    static MY_TID: u64 = NEXT_TID.fetch_add(1, Ordering::Relaxed);
}
fn my_tid() -> u64 {
    MY_TID.with(|t| *t)
}

/// Report a failure and leave the process at once: after a broken scope / lock the
/// process state cannot be trusted (tasks may still run on a dead stack frame).
fn fail(sig: &str, detail: String) -> ! {
    if CHILD_FAILED.swap(true, Ordering::SeqCst) {
        loop {
            std::thread::sleep(Duration::from_millis(50));
        }
    }
    println!("{}", json!({"ok": false, "sig": sig, "detail": detail}));
    std::process::exit(0)
}

fn install_child_hook() {
    std::panic::set_hook(Box::new(|info| {
        let msg = if let Some(s) = info.payload().downcast_ref::<&str>() {
            s.to_string()
        } else if let Some(s) = info.payload().downcast_ref::<String>() {
            s.clone()
        } else {
            "<non-string panic>".to_string()
        };
        if msg.starts_with(PLANNED) {
            return;
        }
        let loc = info.location().map(|l| format!("{}:{}", l.file(), l.line())).unwrap_or_default();
        let full = format!("{msg} @ {loc}");
        eprintln!("unexpected panic: {full}");
        if UNEXPECTED_PANICS.fetch_add(1, Ordering::SeqCst) == 0 {
            *FIRST_UNEXPECTED.lock().unwrap_or_else(|e| e.into_inner()) = full;
        }
    }));
}

fn check_no_unexpected_panic(kind: &str) {
    if UNEXPECTED_PANICS.load(Ordering::SeqCst) > 0 {
        let m = FIRST_UNEXPECTED.lock().unwrap_or_else(|e| e.into_inner()).clone();
        fail(&format!("unexpected-panic:{kind}:{}", crate::fw::panic_key(&m)), format!("a thread panicked with a message that is not one of the scenario's planned panics: {m}"));
    }
}

fn payload_msg(e: &Box<dyn std::any::Any + Send>) -> String {
    if let Some(s) = e.downcast_ref::<&str>() {
        s.to_string()
    } else if let Some(s) = e.downcast_ref::<String>() {
        s.clone()
    } else {
        "<non-string panic>".to_string()
    }
}

#[inline(never)]
fn perturb(p: Pt) {
    match p {
        Pt::N => {}
        Pt::Spin(n) => {
            for i in 0..n {
                std::hint::black_box(i);
                std::hint::spin_loop();
            }
        }
        Pt::Yield => std::thread::yield_now(),
        Pt::Sleep(us) => std::thread::sleep(Duration::from_micros(us as u64)),
    }
}

/// run `f` on `n` threads (index passed), all released together; a panic in a thread is a failure
fn on_threads(kind: &str, n: usize, f: impl Fn(usize) + Sync) {
    let bar = Barrier::new(n);
    std::thread::scope(|sc| {
        for i in 0..n {
            let (f, bar) = (&f, &bar);
            sc.spawn(move || {
                bar.wait();
                if let Err(e) = catch_unwind(AssertUnwindSafe(|| f(i))) {
                    let m = payload_msg(&e);
                    let first = FIRST_UNEXPECTED.lock().unwrap_or_else(|e| e.into_inner()).clone();
                    fail(&format!("panic:{kind}:{}", squash(&m)), format!("thread {i} of the scenario panicked: {m} (first unexpected panic of the process: {first})"));
                }
            });
        }
    });
}

type Stats = BTreeMap<String, u64>;
fn bump(st: &mut Stats, k: &str, n: u64) {
    *st.entry(k.to_string()).or_insert(0) += n;
}

// ----- spawn trees ----------------------------------------------------------

struct Pools {
    main: ThreadPool,
    other: Option<ThreadPool>,
}

struct Ctx {
    nodes: Vec<TNode>,
    parent: Vec<Option<usize>>,
    started: Vec<AtomicU32>,
    finished: Vec<AtomicU32>,
    tids: Vec<AtomicU64>,
}

struct Fin<'a>(&'a AtomicU32);
impl Drop for Fin<'_> {
    fn drop(&mut self) {
        self.0.fetch_add(1, Ordering::SeqCst);
    }
}

fn spawn_kids<'s>(id: usize, ctx: &'static Ctx, pools: &'s Pools, s: &Scope<'s>) {
    for &k in &ctx.nodes[id].kids {
        let k = k as usize;
        s.spawn(move |s2| run_node(k, ctx, pools, s2));
    }
}

fn run_node<'s>(id: usize, ctx: &'static Ctx, pools: &'s Pools, s: &Scope<'s>) {
    let n = &ctx.nodes[id];
    ctx.started[id].fetch_add(1, Ordering::SeqCst);
    ctx.tids[id].store(my_tid(), Ordering::Relaxed);
    // `finished` is bumped when the body is left, normally or by unwinding
    let _fin = Fin(&ctx.finished[id]);
    if n.wp {
        if let Some(p) = ctx.parent[id] {
            // blocking wait inside a worker: the parent is Mode::Same, already running, and never waits
            while ctx.finished[p].load(Ordering::SeqCst) == 0 {
                std::thread::sleep(Duration::from_micros(20));
            }
        }
    }
    perturb(n.pre);
    if n.panic == PanicAt::Before {
        panic!("{PLANNED}{id}");
    }
    match n.mode {
        Mode::Same => spawn_kids(id, ctx, pools, s),
        Mode::NestFree => egglog_concurrency::scope(|s2| spawn_kids(id, ctx, pools, s2)),
        Mode::NestPool => pools.main.scope(|s2| spawn_kids(id, ctx, pools, s2)),
        Mode::NestOther => match &pools.other {
            Some(o) => o.scope(|s2| spawn_kids(id, ctx, pools, s2)),
            None => pools.main.scope(|s2| spawn_kids(id, ctx, pools, s2)),
        },
    }
    perturb(n.post);
    if n.panic == PanicAt::After {
        panic!("{PLANNED}{id}");
    }
}

fn exec_tree(t: &TreeSc, reps: u32, st: &mut Stats) {
    let facts = tree_facts(t);
    let n = t.nodes.len();
    let mut pools: Option<Pools> = None;
    let mut ctxs: Vec<&'static Ctx> = vec![];
    let pool_threads = t.workers as usize + t.other as usize;
    for r in 0..reps {
        if pools.is_none() || !t.reuse {
            drop(pools.take()); // joins the workers of the previous repetition
            pools = Some(Pools { main: ThreadPool::new(t.workers as usize), other: (t.other > 0).then(|| ThreadPool::new(t.other as usize)) });
        }
        let ctx: &'static Ctx = Box::leak(Box::new(Ctx {
            nodes: t.nodes.clone(),
            parent: facts.parent.clone(),
            started: (0..n).map(|_| AtomicU32::new(0)).collect(),
            finished: (0..n).map(|_| AtomicU32::new(0)).collect(),
            tids: (0..n).map(|_| AtomicU64::new(0)).collect(),
        }));
        let p = pools.as_ref().unwrap();
        let res = catch_unwind(AssertUnwindSafe(|| {
            if t.via_install {
                p.main.install(|| egglog_concurrency::scope(|s| run_node(0, ctx, p, s)))
            } else {
                p.main.scope(|s| run_node(0, ctx, p, s))
            }
        }));
        // the instant the outermost scope has returned: snapshot before anything else
        let fin: Vec<u32> = ctx.finished.iter().map(|a| a.load(Ordering::SeqCst)).collect();
        let sta: Vec<u32> = ctx.started.iter().map(|a| a.load(Ordering::SeqCst)).collect();
        for i in 0..n {
            let want = facts.exec[i] as u32;
            if sta[i] != want || fin[i] != want {
                let what = if want == 1 && (sta[i] == 0 || fin[i] == 0) {
                    ("scope-returned-before-task-finished", format!("task {i} was spawned (transitively) in the scope but had started {} / finished {} times when the outermost scope returned", sta[i], fin[i]))
                } else if want == 1 {
                    ("task-ran-more-than-once", format!("task {i} had started {} / finished {} times when the outermost scope returned", sta[i], fin[i]))
                } else {
                    ("unspawned-task-ran", format!("task {i} is never spawned (its parent panics first) but started {} times", sta[i]))
                };
                fail(what.0, format!("repetition {r}: {}; pool workers={} tasks={} nesting={}", what.1, t.workers, facts.tasks, facts.nesting));
            }
        }
        match &res {
            Ok(()) => {
                if facts.expect_panic {
                    fail("task-panic-not-propagated", format!("repetition {r}: a task of the tree panics, but the outermost scope call returned normally (workers={}, nesting={})", t.workers, facts.nesting));
                }
            }
            Err(e) => {
                let m = payload_msg(e);
                let planned = m.strip_prefix(PLANNED).and_then(|x| x.parse::<usize>().ok()).filter(|&i| i < n && facts.exec[i] && t.nodes[i].panic != PanicAt::No);
                if planned.is_none() {
                    fail(&format!("scope-panicked-unexpectedly:{}", squash(&m)), format!("repetition {r}: the outermost scope call panicked with `{m}`, which is not the payload of a panicking task of this tree (tree has planned panic: {})", facts.expect_panic));
                }
            }
        }
        check_no_unexpected_panic("spawn-tree");
        let tids: BTreeSet<u64> = (0..n).filter(|&i| facts.exec[i]).map(|i| ctx.tids[i].load(Ordering::Relaxed)).collect();
        if tids.len() > pool_threads + 1 {
            bump(st, "class:tree:ran-on-backup-worker", 1);
        }
        bump(st, "tree_scopes_completed", 1);
        if facts.nesting > INLINE_HELP_LIMIT {
            bump(st, "class:tree:completed-with-nesting>64", 1);
        }
        ctxs.push(ctx);
    }
    drop(pools); // joins all workers: nothing can run any more
    for (r, ctx) in ctxs.iter().enumerate() {
        for i in 0..n {
            let (s, f) = (ctx.started[i].load(Ordering::SeqCst), ctx.finished[i].load(Ordering::SeqCst));
            if s != facts.exec[i] as u32 || f != facts.exec[i] as u32 {
                fail("task-ran-after-scope-returned", format!("repetition {r}: after the pool was dropped task {i} had started {s} / finished {f} times (expected {})", facts.exec[i] as u32));
            }
        }
    }
    check_no_unexpected_panic("spawn-tree");
}

// ----- ReadOptimizedLock ----------------------------------------------------

struct Rec {
    words: [u64; 8],
    canary: u64,
}

fn exec_rolock(sc: &RoLockSc, reps: u32, st: &mut Stats) {
    for r in 0..reps {
        let lock = ReadOptimizedLock::new(Rec { words: [0; 8], canary: 0 });
        let writes_done = AtomicU64::new(0);
        let reads_done = AtomicU64::new(0);
        on_threads("rolock", sc.threads.len(), |ti| {
            let t = &sc.threads[ti];
            let mut last_seen = 0u64;
            for it in 0..t.iters as u32 {
                let is_write = t.write_every > 0 && (it + 1) % t.write_every as u32 == 0;
                if is_write {
                    let mut g = lock.lock();
                    let p: *mut Rec = &mut *g;
                    // SAFETY: p comes from the exclusive guard; volatile so the plain accesses are really performed
                    unsafe {
                        let c = std::ptr::read_volatile(&raw const (*p).canary);
                        if c != 0 {
                            fail("rolock-writers-overlap", format!("repetition {r}: thread {ti} obtained the write guard while another writer was inside its critical section (canary={c})"));
                        }
                        std::ptr::write_volatile(&raw mut (*p).canary, ti as u64 + 1);
                        let g0 = std::ptr::read_volatile(&raw const (*p).words[0]);
                        for w in 0..8 {
                            let cur = std::ptr::read_volatile(&raw const (*p).words[w]);
                            if cur != g0 {
                                fail("rolock-writers-overlap", format!("repetition {r}: writer {ti} found a half-written record inside its write guard (word0={g0}, word{w}={cur})"));
                            }
                            std::ptr::write_volatile(&raw mut (*p).words[w], g0 + 1);
                            if w == 0 || w == 4 {
                                perturb(t.hold);
                            }
                        }
                        let c = std::ptr::read_volatile(&raw const (*p).canary);
                        if c != ti as u64 + 1 {
                            fail("rolock-writers-overlap", format!("repetition {r}: writer {ti}'s canary was overwritten inside its critical section (canary={c})"));
                        }
                        std::ptr::write_volatile(&raw mut (*p).canary, 0);
                        last_seen = g0 + 1;
                    }
                    drop(g);
                    writes_done.fetch_add(1, Ordering::Relaxed);
                } else {
                    let g = lock.read();
                    let p: *const Rec = &*g;
                    // SAFETY: p comes from the shared guard
                    unsafe {
                        let w0 = std::ptr::read_volatile(&raw const (*p).words[0]);
                        for w in 1..8 {
                            if w == 1 || w == 5 {
                                perturb(t.hold);
                            }
                            let cur = std::ptr::read_volatile(&raw const (*p).words[w]);
                            if cur != w0 {
                                fail("rolock-reader-saw-partial-write", format!("repetition {r}: reader {ti} holding a read guard saw word0={w0} but word{w}={cur} (a writer's update is visible half-way)"));
                            }
                        }
                        let c = std::ptr::read_volatile(&raw const (*p).canary);
                        if c != 0 {
                            fail("rolock-reader-saw-partial-write", format!("repetition {r}: reader {ti} holding a read guard saw a writer inside its critical section (canary={c})"));
                        }
                        if w0 < last_seen {
                            fail("rolock-stale-read", format!("repetition {r}: thread {ti} read generation {w0} after it had already observed generation {last_seen}"));
                        }
                        last_seen = w0;
                    }
                    drop(g);
                    reads_done.fetch_add(1, Ordering::Relaxed);
                }
                perturb(t.gap);
            }
        });
        let rec = lock.into_inner();
        let w = writes_done.load(Ordering::SeqCst);
        if rec.words.iter().any(|x| *x != w) || rec.canary != 0 {
            fail("rolock-lost-update", format!("repetition {r}: {w} write sections completed, final record is {:?} canary={}", rec.words, rec.canary));
        }
        bump(st, "rolock_writes", w);
        bump(st, "rolock_reads", reads_done.load(Ordering::SeqCst));
    }
    check_no_unexpected_panic("rolock");
}

// ----- ConcurrentVec --------------------------------------------------------

#[derive(Clone, Copy, PartialEq, Debug)]
struct It {
    id: u64,
    inv: u64,
    tag: u64,
    magic: u64,
}
const MAGIC: u64 = 0xC19C_19C1_9C19_C19C;
impl It {
    fn mk(thread: usize, seq: usize) -> It {
        let id = ((thread as u64 + 1) << 32) | seq as u64;
        It { id, inv: !id, tag: id.wrapping_mul(0x9E37_79B9_7F4A_7C15) ^ MAGIC, magic: MAGIC }
    }
    fn ok(&self) -> bool {
        self.inv == !self.id && self.tag == self.id.wrapping_mul(0x9E37_79B9_7F4A_7C15) ^ MAGIC && self.magic == MAGIC
    }
    fn thread(&self) -> usize {
        (self.id >> 32) as usize - 1
    }
    fn seq(&self) -> usize {
        (self.id & 0xffff_ffff) as usize
    }
}

fn exec_cvec_push(sc: &CvecPushSc, reps: u32, st: &mut Stats) {
    let np = sc.pushers.len();
    let total: usize = sc.pushers.iter().map(|p| p.n as usize).sum();
    for r in 0..reps {
        let v: ConcurrentVec<It> = ConcurrentVec::with_capacity(sc.cap as usize);
        let done = AtomicUsize::new(0);
        let indices: Vec<Mutex<Vec<usize>>> = (0..np).map(|_| Mutex::new(vec![])).collect();
        let prefix_checks = AtomicU64::new(0);
        on_threads("cvec-push", np + sc.readers as usize, |ti| {
            if ti < np {
                let p = &sc.pushers[ti];
                let mut mine = Vec::with_capacity(p.n as usize);
                for s in 0..p.n as usize {
                    let item = It::mk(ti, s);
                    let idx = v.push(item);
                    if let Some(&prev) = mine.last() {
                        if idx <= prev {
                            fail("cvec-push-index-not-increasing", format!("repetition {r}: pusher {ti} got index {idx} after index {prev}"));
                        }
                    }
                    mine.push(idx);
                    if p.verify {
                        let g = v.read();
                        if g.len() <= idx || g[idx] != item {
                            fail("cvec-pushed-item-not-visible", format!("repetition {r}: push returned index {idx} but read() has len {} / slot {:?}, expected {:?}", g.len(), g.get(idx), item));
                        }
                    }
                    perturb(p.gap);
                }
                *indices[ti].lock().unwrap() = mine;
                done.fetch_add(1, Ordering::SeqCst);
            } else {
                let mut last_len = 0usize;
                let mut k = ti as u64;
                loop {
                    let finished = done.load(Ordering::SeqCst) == np;
                    {
                        let g = v.read();
                        let n = g.len();
                        if n < last_len {
                            fail("cvec-prefix-shrank", format!("repetition {r}: reader saw length {n} after length {last_len}"));
                        }
                        last_len = n;
                        // newest slots (the race window) plus one sampled older slot
                        for i in n.saturating_sub(3)..n {
                            if !g[i].ok() {
                                fail("cvec-reader-saw-unwritten-slot", format!("repetition {r}: read() exposes {n} items but slot {i} holds {:?}, not a pushed item", g[i]));
                            }
                        }
                        if n > 0 {
                            k = k.wrapping_mul(6364136223846793005).wrapping_add(1442695040888963407);
                            let i = (k >> 33) as usize % n;
                            if !g[i].ok() {
                                fail("cvec-reader-saw-unwritten-slot", format!("repetition {r}: read() exposes {n} items but slot {i} holds {:?}, not a pushed item", g[i]));
                            }
                        }
                    }
                    prefix_checks.fetch_add(1, Ordering::Relaxed);
                    if finished {
                        break;
                    }
                    perturb(sc.reader_gap);
                }
            }
        });
        let g = v.read();
        if g.len() != total {
            fail("cvec-push-lost-or-extra", format!("repetition {r}: {total} items pushed, read() has {}", g.len()));
        }
        let mut next_seq = vec![0usize; np];
        for (i, it) in g.iter().enumerate() {
            if !it.ok() || it.thread() >= np {
                fail("cvec-item-corrupt", format!("repetition {r}: slot {i} holds {it:?} after all pushers joined"));
            }
            let t = it.thread();
            if it.seq() != next_seq[t] {
                fail("cvec-push-lost-or-duplicated", format!("repetition {r}: slot {i} holds item #{} of pusher {t}, expected its item #{}", it.seq(), next_seq[t]));
            }
            next_seq[t] += 1;
        }
        for t in 0..np {
            let mine = indices[t].lock().unwrap();
            if next_seq[t] != sc.pushers[t].n as usize {
                fail("cvec-push-lost-or-duplicated", format!("repetition {r}: pusher {t} pushed {} items, {} present", sc.pushers[t].n, next_seq[t]));
            }
            for (s, &idx) in mine.iter().enumerate() {
                if g[idx] != It::mk(t, s) {
                    fail("cvec-push-index-wrong", format!("repetition {r}: push of item #{s} by pusher {t} returned index {idx}, which holds {:?}", g[idx]));
                }
            }
        }
        bump(st, "cvec_items_pushed", total as u64);
        bump(st, "cvec_prefix_checks", prefix_checks.load(Ordering::SeqCst));
    }
    check_no_unexpected_panic("cvec-push");
}

const CELL_BASE: u64 = 1000;

fn exec_cvec_cells(sc: &CvecCellsSc, reps: u32, st: &mut Stats) {
    let mut want: BTreeMap<usize, u64> = BTreeMap::new();
    for t in &sc.threads {
        for &i in t {
            *want.entry(i as usize).or_insert(0) += 1;
        }
    }
    let want_len = want.keys().next_back().map(|m| m + 1).unwrap_or(0).max(sc.prelude as usize);
    for r in 0..reps {
        let v: ConcurrentVec<AtomicU64> = if sc.cap == 0 { ConcurrentVec::new() } else { ConcurrentVec::with_capacity(sc.cap as usize) };
        for _ in 0..sc.prelude {
            v.push(AtomicU64::new(CELL_BASE));
        }
        on_threads("cvec-cells", sc.threads.len(), |ti| {
            for &i in &sc.threads[ti] {
                let i = i as usize;
                // NotificationList::notify: resize_with(index + 1, default), then read()[index]
                // (non-zero fill so that a never-written slot that happens to be zero memory is noticed)
                v.resize_with(i + 1, || AtomicU64::new(CELL_BASE));
                {
                    let g = v.read();
                    if g.len() <= i {
                        fail("cvec-resize-not-visible", format!("repetition {r}: after resize_with({}) read() has only {} slots", i + 1, g.len()));
                    }
                    g[i].fetch_add(1, Ordering::Relaxed);
                }
                perturb(sc.gap);
            }
        });
        let g = v.read();
        if g.len() != want_len {
            fail("cvec-resize-length-wrong", format!("repetition {r}: largest resize_with target / pushes give {want_len} slots, read() has {}", g.len()));
        }
        for (i, c) in g.iter().enumerate() {
            let got = c.load(Ordering::SeqCst);
            let w = CELL_BASE + want.get(&i).copied().unwrap_or(0);
            if got != w {
                let sig = if sc.prelude > 0 { KNOWN_RESIZE_SIG } else { "cvec-resize-cell-lost-or-garbage" };
                fail(sig, format!("repetition {r}: {} pushes, then concurrent resize_with(i+1, || {CELL_BASE}) + read()[i] += 1: cell {i} should hold {w} but holds {got} (slot never initialised, re-initialised or lost)", sc.prelude));
            }
        }
        bump(st, "cvec_cell_ops", want.values().sum());
    }
    check_no_unexpected_panic("cvec-cells");
}

fn exec_cvec_seq(sc: &CvecSeqSc, reps: u32, st: &mut Stats) {
    let trig = seq_triggers(&sc.ops);
    for r in 0..reps {
        let v: ConcurrentVec<u64> = ConcurrentVec::with_capacity(sc.cap as usize);
        let mut model: Vec<u64> = vec![];
        // for each model slot: index of the op that created it, and whether that op is a resize_with hitting the known trigger
        let mut origin: Vec<usize> = vec![];
        for (oi, op) in sc.ops.iter().enumerate() {
            match *op {
                SeqOp::Push(x) => {
                    let idx = v.push(x);
                    if idx != model.len() {
                        fail("cvec-push-index-wrong", format!("repetition {r}: op #{oi} push returned {idx}, expected {}", model.len()));
                    }
                    model.push(x);
                    origin.push(oi);
                }
                SeqOp::Resize(n, fill) => {
                    v.resize_with(n as usize, || fill);
                    while model.len() < n as usize {
                        model.push(fill);
                        origin.push(oi);
                    }
                }
                SeqOp::Read => {
                    let g = v.read();
                    if g.len() != model.len() {
                        fail("cvec-seq-length-wrong", format!("repetition {r}: op #{oi}: read() has {} slots, model has {}", g.len(), model.len()));
                    }
                    for i in 0..model.len() {
                        if g[i] != model[i] {
                            let by = origin[i];
                            let got: Vec<String> = g.iter().map(|x| format!("{x:#x}")).collect();
                            let detail = format!(
                                "repetition {r}: ops {:?}: read() = [{}], expected {:?}: slot {i} (created by op #{by} {:?}) holds {:#x} instead of {}",
                                sc.ops,
                                got.join(", "),
                                model,
                                sc.ops[by],
                                g[i],
                                model[i]
                            );
                            if matches!(sc.ops[by], SeqOp::Resize(..)) && trig[by] {
                                fail(KNOWN_RESIZE_SIG, detail);
                            } else if matches!(sc.ops[by], SeqOp::Resize(..)) {
                                fail("cvec-resize-with-slot-wrong(outside-known-trigger)", detail);
                            } else {
                                fail("cvec-pushed-value-changed", detail);
                            }
                        }
                    }
                    bump(st, "cvec_seq_reads", 1);
                }
            }
        }
    }
    check_no_unexpected_panic("cvec-seq");
}

// ----- ParallelVecWriter ----------------------------------------------------

trait PvwElem: Sized + Send {
    fn mk(v: u64) -> Self;
    fn val(&self) -> u64;
    /// the non-iterator path: write_slice (u64) / write_cell_slice (Cell<u64>)
    fn write_all(w: &ParallelVecWriter<Self>, items: Vec<u64>) -> usize;
}

/// ExactSizeIterator handed to write_contents: optionally slow (perturbation before every k-th item) and
/// optionally raising a flag once its first item has been taken (the destination is then already chosen)
struct PvwIter<'a, E> {
    thread: usize,
    write: usize,
    next: usize,
    len: usize,
    every: usize,
    pt: Pt,
    started: Option<&'a AtomicBool>,
    _e: std::marker::PhantomData<E>,
}
impl<E: PvwElem> Iterator for PvwIter<'_, E> {
    type Item = E;
    fn next(&mut self) -> Option<E> {
        if self.next >= self.len {
            return None;
        }
        if self.next >= 1 {
            if let Some(f) = self.started.take() {
                f.store(true, Ordering::SeqCst);
            }
            if self.every > 0 && self.next % self.every == 0 {
                perturb(self.pt);
            }
        }
        let v = pvw_val(self.thread, self.write, self.next);
        self.next += 1;
        Some(E::mk(v))
    }
    fn size_hint(&self) -> (usize, Option<usize>) {
        (self.len - self.next, Some(self.len - self.next))
    }
}
impl<E: PvwElem> ExactSizeIterator for PvwIter<'_, E> {}
impl PvwElem for u64 {
    fn mk(v: u64) -> u64 {
        v
    }
    fn val(&self) -> u64 {
        *self
    }
    fn write_all(w: &ParallelVecWriter<u64>, items: Vec<u64>) -> usize {
        w.write_slice(&items)
    }
}
impl PvwElem for Cell<u64> {
    fn mk(v: u64) -> Cell<u64> {
        Cell::new(v)
    }
    fn val(&self) -> u64 {
        self.get()
    }
    fn write_all(w: &ParallelVecWriter<Cell<u64>>, items: Vec<u64>) -> usize {
        let cells: Vec<Cell<u64>> = items.into_iter().map(Cell::new).collect();
        write_cell_slice(w, &cells)
    }
}

const PREFIX_TAG: u64 = 0xF00D << 48;
fn pvw_val(thread: usize, write: usize, off: usize) -> u64 {
    ((thread as u64 + 1) << 40) | ((write as u64) << 16) | off as u64
}

fn exec_pvw<E: PvwElem>(sc: &PvwSc, reps: u32, st: &mut Stats) {
    let nw = sc.writers.len();
    let prefix = sc.prefix as usize;
    let total: usize = sc.writers.iter().flatten().map(|w| w.len as usize).sum();
    for r in 0..reps {
        let mut init: Vec<E> = Vec::with_capacity(prefix + sc.extra_cap as usize);
        for i in 0..prefix {
            init.push(E::mk(PREFIX_TAG | i as u64));
        }
        let w: ParallelVecWriter<E> = ParallelVecWriter::new(init);
        let a_started = AtomicBool::new(false);
        let done = AtomicUsize::new(0);
        let starts: Vec<Mutex<Vec<usize>>> = (0..nw).map(|_| Mutex::new(vec![])).collect();
        on_threads("pvw", nw + sc.readers as usize, |ti| {
            if ti < nw {
                let mut mine = vec![];
                if sc.gate {
                    if ti == 0 {
                        // the gate opens from inside writer 0's first iterator; if that write cannot open it
                        // (hand-edited / shrunk input) open it right away so nobody waits forever
                        let opens = sc.writers[0].first().map(|f| f.iter && f.len >= 2).unwrap_or(false);
                        if !opens {
                            a_started.store(true, Ordering::SeqCst);
                        }
                    } else {
                        while !a_started.load(Ordering::SeqCst) {
                            std::hint::spin_loop();
                            std::thread::yield_now();
                        }
                    }
                }
                for (wi, wr) in sc.writers[ti].iter().enumerate() {
                    let len = wr.len as usize;
                    let start = if wr.iter {
                        let it: PvwIter<'_, E> = PvwIter {
                            thread: ti,
                            write: wi,
                            next: 0,
                            len,
                            every: wr.slow_every as usize,
                            pt: wr.slow_pt,
                            started: (sc.gate && ti == 0 && wi == 0).then_some(&a_started),
                            _e: std::marker::PhantomData,
                        };
                        w.write_contents(it)
                    } else {
                        E::write_all(&w, (0..len).map(|o| pvw_val(ti, wi, o)).collect())
                    };
                    if start < prefix {
                        fail("pvw-write-overlaps-prefix", format!("repetition {r}: write #{wi} of writer {ti} was placed at {start}, inside the initial prefix of {prefix}"));
                    }
                    mine.push(start);
                    if sc.verify_own && len > 0 {
                        let ra = w.unsafe_read_access();
                        // SAFETY: the range is covered by this thread's completed write (the documented contract)
                        let sl = unsafe { ra.get_unchecked_slice(start..start + len) };
                        for (o, e) in sl.iter().enumerate() {
                            if e.val() != pvw_val(ti, wi, o) {
                                fail("pvw-own-write-not-readable", format!("repetition {r}: writer {ti} reads back its completed write #{wi} at {start}+{o}: {:#x}, expected {:#x}", e.val(), pvw_val(ti, wi, o)));
                            }
                        }
                    }
                    perturb(sc.gap);
                }
                *starts[ti].lock().unwrap() = mine;
                done.fetch_add(1, Ordering::SeqCst);
            } else {
                if prefix == 0 {
                    return;
                }
                let mut k = ti as u64 + 77;
                loop {
                    let finished = done.load(Ordering::SeqCst) == nw;
                    k = k.wrapping_mul(6364136223846793005).wrapping_add(1442695040888963407);
                    let i = (k >> 33) as usize % prefix;
                    let got = match k % 3 {
                        0 => w.with_index(i, |e| e.val()),
                        1 => w.with_slice(i..prefix, |s| s[0].val()),
                        _ => {
                            let g = w.read_access();
                            if g.len() != prefix {
                                fail("pvw-prefix-length-changed", format!("repetition {r}: read_access() has {} elements, the initial vector had {prefix}", g.len()));
                            }
                            g[i].val()
                        }
                    };
                    if got != PREFIX_TAG | i as u64 {
                        fail("pvw-prefix-corrupt", format!("repetition {r}: prefix element {i} reads {got:#x} while writers are appending"));
                    }
                    if finished {
                        break;
                    }
                    std::hint::spin_loop();
                }
            }
        });
        let v = w.finish();
        if v.len() != prefix + total {
            fail("pvw-length-wrong", format!("repetition {r}: prefix {prefix} + {total} written elements, finish() has {}", v.len()));
        }
        for i in 0..prefix {
            if v[i].val() != PREFIX_TAG | i as u64 {
                fail("pvw-prefix-corrupt", format!("repetition {r}: prefix element {i} is {:#x} after finish()", v[i].val()));
            }
        }
        let mut covered = vec![false; v.len()];
        for t in 0..nw {
            let mine = starts[t].lock().unwrap();
            for (wi, wr) in sc.writers[t].iter().enumerate() {
                let start = mine[wi];
                for o in 0..wr.len as usize {
                    let at = start + o;
                    if at >= v.len() || v[at].val() != pvw_val(t, wi, o) || covered[at] {
                        fail(
                            "pvw-written-item-lost-or-corrupt",
                            format!("repetition {r}: write #{wi} of writer {t} (len {}, start {start}): element {o} at {at} is {:?}, expected {:#x}", wr.len, v.get(at).map(|e| e.val()), pvw_val(t, wi, o)),
                        );
                    }
                    covered[at] = true;
                }
            }
        }
        if covered[prefix..].iter().any(|c| !c) {
            fail("pvw-hole-in-output", format!("repetition {r}: finish() contains elements that no write produced"));
        }
        bump(st, "pvw_elements_written", total as u64);
    }
    check_no_unexpected_panic("pvw");
}

// ----- NotificationList / Notification / ResettableOnceLock ------------------

fn exec_nlist(sc: &NListSc, reps: u32, st: &mut Stats) {
    let nt = sc.rounds.iter().map(|r| r.len()).max().unwrap_or(0);
    let nr = sc.rounds.len();
    for r in 0..reps {
        let list: NotificationList<usize> = NotificationList::default();
        // round protocol: main publishes `go = round+1`, workers notify, bump `arrived`; main resets in between
        let go = AtomicUsize::new(0);
        let arrived = AtomicUsize::new(0);
        let handles: Vec<NotificationList<usize>> = (0..nt).map(|_| list.clone()).collect();
        // thread nt is the coordinator (calls reset between rounds, never concurrently with notify)
        on_threads("nlist", nt + 1, |ti| {
            if ti < nt {
                for ri in 0..nr {
                    while go.load(Ordering::Acquire) < ri + 1 {
                        std::hint::spin_loop();
                        std::thread::yield_now();
                    }
                    if let Some(ids) = sc.rounds[ri].get(ti) {
                        for &id in ids {
                            handles[ti].notify(id as usize);
                            perturb(sc.gap);
                        }
                    }
                    arrived.fetch_add(1, Ordering::AcqRel);
                }
            } else {
                for (ri, round) in sc.rounds.iter().enumerate() {
                    go.store(ri + 1, Ordering::Release);
                    while arrived.load(Ordering::Acquire) < (ri + 1) * nt {
                        std::thread::yield_now();
                    }
                    let want: BTreeSet<usize> = round.iter().flatten().map(|x| *x as usize).collect();
                    let got_v: Vec<usize> = list.reset().into_iter().collect();
                    let got: BTreeSet<usize> = got_v.iter().copied().collect();
                    if got.len() != got_v.len() {
                        fail("nlist-reset-duplicate-id", format!("repetition {r} round {ri}: reset() returned {got_v:?} (an id twice) for notified set {want:?}, without any reset concurrent to notify"));
                    }
                    if got != want {
                        let missing: Vec<_> = want.difference(&got).collect();
                        let extra: Vec<_> = got.difference(&want).collect();
                        fail("nlist-reset-wrong-set", format!("repetition {r} round {ri}: notified ids missing from reset(): {missing:?}; ids returned but not notified in this round: {extra:?}"));
                    }
                }
            }
        });
        let again = list.reset();
        if !again.is_empty() {
            fail("nlist-reset-wrong-set", format!("repetition {r}: a second reset() without notifications returned {:?}", again.to_vec()));
        }
        bump(st, "nlist_rounds", nr as u64);
    }
    check_no_unexpected_panic("nlist");
}

fn exec_notif(sc: &NotifSc, reps: u32, st: &mut Stats) {
    let nw = sc.waiters.len();
    for r in 0..reps {
        let n = Notification::new();
        let data = AtomicU64::new(0);
        if n.has_been_notified() || n.wait_with_timeout(Duration::from_millis(1)) {
            fail("notification-fresh-is-notified", format!("repetition {r}: a fresh Notification reports notified"));
        }
        on_threads("notification", nw + sc.notifiers as usize, |ti| {
            if ti < nw {
                if sc.waiters[ti] {
                    if !n.wait_with_timeout(Duration::from_secs(60)) {
                        fail("notification-wait-timed-out", format!("repetition {r}: wait_with_timeout(60s) returned false although notify() is called"));
                    }
                } else {
                    n.wait();
                }
                let d = data.load(Ordering::Relaxed);
                if d != 42 || !n.has_been_notified() {
                    fail("notification-wait-returned-early", format!("repetition {r}: waiter {ti} returned from wait with data={d} (written before notify()) / has_been_notified={}", n.has_been_notified()));
                }
            } else {
                perturb(sc.delay);
                data.store(42, Ordering::Relaxed);
                n.notify();
            }
        });
        if !n.has_been_notified() {
            fail("notification-lost", format!("repetition {r}: has_been_notified() is false after notify()"));
        }
        n.wait();
        bump(st, "notification_waits", nw as u64);
    }
    check_no_unexpected_panic("notification");
}

struct Pair {
    a: u64,
    b: u64,
}

fn exec_once(sc: &OnceSc, reps: u32, st: &mut Stats) {
    let nu = sc.updaters as usize;
    let ng = sc.getters as usize;
    for r in 0..reps {
        let mut lock = ResettableOnceLock::new(Pair { a: 0, b: 0 });
        for ep in 1..=sc.epochs as u64 {
            if lock.get().is_some() {
                fail("oncelock-get-before-update", format!("repetition {r} epoch {ep}: get() returns a value before any get_or_update (fresh / after reset)"));
            }
            let updates = AtomicU64::new(0);
            let seen: Vec<AtomicU64> = (0..nu).map(|_| AtomicU64::new(0)).collect();
            let updated = AtomicUsize::new(0);
            {
                let lock = &lock;
                on_threads("oncelock", nu + ng, |ti| {
                    if ti < nu {
                        let v = lock.get_or_update(|p| {
                            updates.fetch_add(1, Ordering::SeqCst);
                            let val = ep * 1000 + ti as u64 + 1;
                            // SAFETY: plain two-step update of the protected value, volatile so it is not fused
                            unsafe {
                                std::ptr::write_volatile(&raw mut p.a, val);
                                perturb(sc.hold);
                                std::ptr::write_volatile(&raw mut p.b, val);
                            }
                        });
                        let (a, b) = unsafe { (std::ptr::read_volatile(&raw const v.a), std::ptr::read_volatile(&raw const v.b)) };
                        if a != b || a / 1000 != ep {
                            fail("oncelock-partial-or-stale-value", format!("repetition {r} epoch {ep}: get_or_update returned a={a} b={b}"));
                        }
                        seen[ti].store(a, Ordering::SeqCst);
                        updated.fetch_add(1, Ordering::SeqCst);
                    } else {
                        loop {
                            let finished = updated.load(Ordering::SeqCst) == nu;
                            if let Some(v) = lock.get() {
                                let (a, b) = unsafe { (std::ptr::read_volatile(&raw const v.a), std::ptr::read_volatile(&raw const v.b)) };
                                if a != b || a / 1000 != ep {
                                    fail("oncelock-partial-or-stale-value", format!("repetition {r} epoch {ep}: get() returned Some(a={a}, b={b}) while the update was in flight / not from this epoch"));
                                }
                            }
                            if finished {
                                break;
                            }
                            std::hint::spin_loop();
                        }
                    }
                });
            }
            let u = updates.load(Ordering::SeqCst);
            if u != 1 {
                fail("oncelock-update-ran-not-once", format!("repetition {r} epoch {ep}: {nu} racing get_or_update calls ran the update closure {u} times"));
            }
            let vals: BTreeSet<u64> = seen.iter().map(|a| a.load(Ordering::SeqCst)).collect();
            if vals.len() != 1 {
                fail("oncelock-inconsistent-value", format!("repetition {r} epoch {ep}: racing get_or_update calls observed different values {vals:?}"));
            }
            match lock.get() {
                Some(p) if vals.contains(&p.a) && p.a == p.b => {}
                other => fail("oncelock-inconsistent-value", format!("repetition {r} epoch {ep}: get() after the race gives {:?}, racers saw {vals:?}", other.map(|p| (p.a, p.b)))),
            }
            lock.reset();
            bump(st, "oncelock_epochs", 1);
        }
    }
    check_no_unexpected_panic("oncelock");
}

pub fn child(kind: &str, payload: &J) -> Option<J> {
    if kind != "c19-scenario" {
        return None;
    }
    let sc: Scenario = match serde_json::from_value(payload["sc"].clone()) {
        Ok(s) => s,
        Err(e) => return Some(json!({"error": format!("bad scenario: {e}")})),
    };
    let reps = payload["reps"].as_u64().unwrap_or(1) as u32;
    install_child_hook();
    let mut st = Stats::new();
    match &sc {
        Scenario::Tree(t) => exec_tree(t, reps, &mut st),
        Scenario::RoLock(s) => exec_rolock(s, reps, &mut st),
        Scenario::CvecPush(s) => exec_cvec_push(s, reps, &mut st),
        Scenario::CvecCells(s) => exec_cvec_cells(s, reps, &mut st),
        Scenario::CvecSeq(s) => exec_cvec_seq(s, reps, &mut st),
        Scenario::Pvw(s) => {
            if s.cell {
                exec_pvw::<Cell<u64>>(s, reps, &mut st)
            } else {
                exec_pvw::<u64>(s, reps, &mut st)
            }
        }
        Scenario::NList(s) => exec_nlist(s, reps, &mut st),
        Scenario::Notif(s) => exec_notif(s, reps, &mut st),
        Scenario::Once(s) => exec_once(s, reps, &mut st),
    }
    Some(json!({"ok": true, "stats": st}))
}
