//! C09 — bad input is rejected cleanly: no panic, no partial effect.
//!
//! Stages
//!  (a) "bytes"            raw text (mutated corpus files, grammar-ish random s-expressions) fed to
//!                         `parse_and_run_program` on fresh and long-lived e-graphs in plain / term-encoding /
//!                         proof mode. Oracle: no panic; the long-lived e-graph stays usable.
//!      "deep"             deep nesting (and one resource probe) in a CHILD process: an abort is a finding.
//!  (b) "typed-mutations"  a valid generated session and ONE ill-formed command from a catalogue (built from the
//!                         session's own signature) inserted at EVERY position. Oracle for commands rejected
//!                         before execution: (1) no panic, (2) results + canonical dumps of `S1;bad;S2` equal those
//!                         of `S1;S2` after every command of S2, (3) follow-up commands (the corrected twin of the
//!                         bad command and uses of the names it mentioned) behave exactly as in `S1;follow-ups`.
//!  (c) "runtime-failures" sessions with commands failing during execution: no panic, inv::check_all after each.
//!  (d) "repl"             the same kind of sessions through `EGraph::repl_with(.., Interactive, false)`.
//!
//! Deviations from the design note, forced by the real API / by soundness:
//!  * e-graphs are never cloned to share the prefix S1 (clones share the action registry, C08), so every
//!    position re-executes the session from scratch (quadratic, hence small sessions);
//!  * `(pop n)` with n > depth pops what it can and then fails: only the plain `(pop)` is in the catalogue;
//!  * the `todo!()`s for `log`/`cbrt` of a bigrat are documented as intentional in tests/no_panic.rs: tolerated.

use super::*;
use crate::child::{run_child, ChildJob, ChildResult};
use crate::choice::{fnv_str, mix, Src};
use crate::fw::{catch, Outcome, Report, Stage, Tier};
use crate::pgen::{simplify_prog, Gen, GenCfg};
use egglog::EGraph;
use serde::{Deserialize, Serialize};
use std::path::PathBuf;
use std::sync::OnceLock;
use std::time::Duration;

// ---------------------------------------------------------------------------------------------
// common helpers
// ---------------------------------------------------------------------------------------------

const MODES: [&str; 3] = ["plain", "term", "proofs"];

/// All file names that a case may mention live here (created by us, never anything outside).
fn scratch_dir() -> &'static PathBuf {
    static D: OnceLock<PathBuf> = OnceLock::new();
    D.get_or_init(|| {
        let d = std::env::temp_dir().join("vh-c09-scratch");
        let _ = std::fs::create_dir_all(&d);
        let inc = "(sort IncS)\n(constructor inc-leaf () IncS)\n(inc-leaf)\n";
        let _ = std::fs::write(d.join("inc0.egg"), inc);
        let _ = std::fs::write(d.join("inc1.egg"), "(check (= 1 1))\n(this is not valid\n");
        let _ = std::fs::write(d.join("in0.csv"), "1\t2\n2\t3\n");
        let _ = std::fs::write(d.join("in1.csv"), "a\tb\tc\n1\n\n");
        d
    })
}

fn scratch_file(name: &str) -> String {
    scratch_dir().join(name).to_string_lossy().replace('\\', "/")
}

fn mk(mode: u8) -> EGraph {
    let mut eg = match mode {
        1 => EGraph::new_with_term_encoding(),
        2 => EGraph::new_with_proofs(),
        _ => EGraph::default(),
    };
    eg.fact_directory = Some(scratch_dir().clone());
    eg
}

/// Panics that the repository documents as intentional (tests/no_panic.rs: "`log`/`cbrt` of a non-trivial
/// bigrat are intentionally left as `todo!`").
fn tolerated_panic(msg: &str) -> Option<&'static str> {
    if msg.contains("log of bigrat") || msg.contains("cbrt of bigrat") {
        Some("documented-todo-bigrat")
    } else {
        None
    }
}

/// Root-cause key of a panic: source file + the constant head of the message (names / numbers cut off).
/// No line number, so that unrelated edits to the file do not change the key.
pub fn panic_root(msg: &str) -> String {
    let (m, loc) = msg.rsplit_once(" @ ").unwrap_or((msg, ""));
    if m.starts_with("capacity overflow") {
        // raised inside std with a caller location that depends on inlining
        return "panic:alloc:capacity overflow".into();
    }
    let file = loc.rsplit_once(':').map(|x| x.0).unwrap_or(loc);
    let comps: Vec<&str> = file.rsplit('/').take(2).collect();
    let file = comps.into_iter().rev().collect::<Vec<_>>().join("/");
    let m = m.replace("::", "__");
    let cut = m.find(|c: char| c == ':' || c == '\'' || c == '"' || c == '\n' || c.is_ascii_digit()).unwrap_or(m.len());
    let head: String = m[..cut].trim().chars().take(60).collect();
    format!("panic:{}:{}", file, head)
}

fn excerpt(s: &str, n: usize) -> String {
    if s.chars().count() <= n { s.to_string() } else { format!("{}… [{} bytes]", s.chars().take(n).collect::<String>(), s.len()) }
}

// Diagnostics only (never influences an outcome): which inputs are being checked right now. A case that
// runs longer than SLOW_CASE_S is saved as a replay file, so that a watchdog exit (inconclusive) names its input.
const SLOW_CASE_S: u64 = 120;
static INFLIGHT: std::sync::Mutex<Vec<(u64, std::time::Instant, &'static str, String)>> = std::sync::Mutex::new(Vec::new());
static FLIGHT_ID: std::sync::atomic::AtomicU64 = std::sync::atomic::AtomicU64::new(0);

struct Flight(u64);

impl Drop for Flight {
    fn drop(&mut self) {
        if let Ok(mut v) = INFLIGHT.lock() {
            v.retain(|e| e.0 != self.0);
        }
    }
}

fn flight<T: Serialize>(stage: &'static str, input: &T) -> Flight {
    let id = FLIGHT_ID.fetch_add(1, std::sync::atomic::Ordering::Relaxed);
    let text = serde_json::to_string(input).unwrap_or_default();
    if let Ok(mut v) = INFLIGHT.lock() {
        v.push((id, std::time::Instant::now(), stage, text));
    }
    Flight(id)
}

fn spawn_slow_case_monitor() {
    static ONCE: OnceLock<()> = OnceLock::new();
    ONCE.get_or_init(|| {
        std::thread::spawn(|| {
            let mut reported: Vec<u64> = vec![];
            loop {
                std::thread::sleep(Duration::from_secs(5));
                let slow: Vec<(u64, &'static str, String)> = match INFLIGHT.lock() {
                    Ok(v) => v.iter().filter(|e| e.1.elapsed().as_secs() > SLOW_CASE_S && !reported.contains(&e.0)).map(|e| (e.0, e.2, e.3.clone())).collect(),
                    Err(_) => vec![],
                };
                for (id, stage, text) in slow {
                    reported.push(id);
                    let dir = crate::fw::verif_root().join("replays");
                    let _ = std::fs::create_dir_all(&dir);
                    let path = dir.join(format!("C09-slow-{stage}-{:016x}.json", fnv_str(&text)));
                    let body = format!("{{\"property\":\"C09\",\"stage\":\"{stage}\",\"note\":\"case still running after {SLOW_CASE_S}s\",\"input\":{text}}}");
                    let _ = std::fs::write(&path, body);
                    println!("SLOW-CASE: property=C09 stage={stage} still running after {SLOW_CASE_S}s, input saved to {}", path.display());
                }
            }
        });
    });
}

/// name of the egglog::Error variant (and of the TypeError variant inside), for class labels
fn err_label(e: &egglog::Error) -> String {
    let d = format!("{:?}", e);
    let head: String = d.chars().take_while(|c| c.is_alphanumeric()).collect();
    if head == "TypeError" {
        let rest = d.trim_start_matches("TypeError(");
        let inner: String = rest.chars().take_while(|c| c.is_alphanumeric()).collect();
        format!("TypeError.{inner}")
    } else {
        head
    }
}

#[derive(Clone, Debug, PartialEq)]
enum Res {
    Ok(Vec<String>),
    /// (kind, variant label, message)
    Err(ErrKind, String, String),
    Panic(String),
}

impl Res {
    /// what must agree between two runs that are claimed to be observationally identical
    fn observable(&self) -> String {
        match self {
            Res::Ok(o) => format!("ok{:?}", o),
            Res::Err(k, _, _) => format!("err:{:?}", k),
            Res::Panic(_) => "panic".into(),
        }
    }
    fn short(&self) -> String {
        match self {
            Res::Ok(o) => excerpt(&format!("ok{:?}", o), 200),
            Res::Err(k, l, m) => format!("err[{:?}/{}]({})", k, l, excerpt(&m.lines().last().unwrap_or("").to_string(), 160)),
            Res::Panic(p) => format!("PANIC({})", excerpt(p, 200)),
        }
    }
}

fn exec(eg: &mut EGraph, text: &str) -> Res {
    match eng::run_raw(eg, text) {
        Ok(Ok(outs)) => Res::Ok(outs.iter().map(eng::render_output).collect()),
        Ok(Err(e)) => Res::Err(eng::err_kind(&e), err_label(&e), e.to_string()),
        Err(p) => Res::Panic(p),
    }
}

// ---------------------------------------------------------------------------------------------
// a tolerant s-expression reader / printer (harness side; used for mutation and for sanitising)
// ---------------------------------------------------------------------------------------------

#[derive(Clone, Debug, PartialEq)]
enum Sx {
    /// atom, number or string literal (with its quotes), verbatim
    A(String),
    L(Vec<Sx>),
}

/// Lenient: comments skipped, stray `)` dropped, missing `)` supplied. Returns (forms, balanced, max depth).
fn lex_forms(text: &str) -> (Vec<Sx>, bool, usize) {
    let mut stack: Vec<Vec<Sx>> = vec![vec![]];
    let mut balanced = true;
    let mut maxd = 0usize;
    let cs: Vec<char> = text.chars().collect();
    let mut i = 0;
    while i < cs.len() {
        let c = cs[i];
        if c.is_whitespace() {
            i += 1;
        } else if c == ';' {
            while i < cs.len() && cs[i] != '\n' {
                i += 1;
            }
        } else if c == '(' {
            stack.push(vec![]);
            maxd = maxd.max(stack.len() - 1);
            i += 1;
        } else if c == ')' {
            if stack.len() > 1 {
                let l = stack.pop().unwrap();
                stack.last_mut().unwrap().push(Sx::L(l));
            } else {
                balanced = false;
            }
            i += 1;
        } else if c == '"' {
            let mut s = String::from('"');
            i += 1;
            let mut closed = false;
            while i < cs.len() {
                let d = cs[i];
                s.push(d);
                i += 1;
                if d == '\\' {
                    if i < cs.len() {
                        s.push(cs[i]);
                        i += 1;
                    }
                } else if d == '"' {
                    closed = true;
                    break;
                }
            }
            if !closed {
                balanced = false;
            }
            stack.last_mut().unwrap().push(Sx::A(s));
        } else {
            let mut s = String::new();
            while i < cs.len() && !cs[i].is_whitespace() && !matches!(cs[i], ';' | '(' | ')') {
                s.push(cs[i]);
                i += 1;
            }
            stack.last_mut().unwrap().push(Sx::A(s));
        }
    }
    while stack.len() > 1 {
        balanced = false;
        let l = stack.pop().unwrap();
        stack.last_mut().unwrap().push(Sx::L(l));
    }
    (stack.pop().unwrap(), balanced, maxd)
}

fn show(sx: &Sx, out: &mut String) {
    match sx {
        Sx::A(a) => out.push_str(a),
        Sx::L(l) => {
            out.push('(');
            for (i, x) in l.iter().enumerate() {
                if i > 0 {
                    out.push(' ');
                }
                show(x, out);
            }
            out.push(')');
        }
    }
}

fn show_forms(forms: &[Sx]) -> String {
    let mut s = String::new();
    for f in forms {
        show(f, &mut s);
        s.push('\n');
    }
    s
}

fn count_nodes(forms: &[Sx]) -> usize {
    forms.iter().map(|f| 1 + if let Sx::L(l) = f { count_nodes(l) } else { 0 }).sum()
}

/// path (child indices from the virtual top-level list) of the n-th node in pre-order
fn path_of(forms: &[Sx], mut n: usize) -> Option<Vec<usize>> {
    fn go(forms: &[Sx], n: &mut usize, path: &mut Vec<usize>) -> bool {
        for (i, f) in forms.iter().enumerate() {
            path.push(i);
            if *n == 0 {
                return true;
            }
            *n -= 1;
            if let Sx::L(l) = f {
                if go(l, n, path) {
                    return true;
                }
            }
            path.pop();
        }
        false
    }
    let mut p = vec![];
    if go(forms, &mut n, &mut p) { Some(p) } else { None }
}

fn list_at<'a>(forms: &'a mut Vec<Sx>, path: &[usize]) -> &'a mut Vec<Sx> {
    let mut cur = forms;
    for i in path {
        match &mut cur[*i] {
            Sx::L(l) => cur = l,
            _ => unreachable!("path into an atom"),
        }
    }
    cur
}

fn node_at<'a>(forms: &'a mut Vec<Sx>, path: &[usize]) -> &'a mut Sx {
    let (last, init) = path.split_last().unwrap();
    &mut list_at(forms, init)[*last]
}

fn head_of(l: &[Sx]) -> &str {
    match l.first() {
        Some(Sx::A(a)) => a.as_str(),
        _ => "",
    }
}

// ---------------------------------------------------------------------------------------------
// sanitiser: an input must never make the engine run (practically) forever, exhaust memory, or
// touch a file outside the scratch directory. Everything neutralised is counted.
// ---------------------------------------------------------------------------------------------

#[derive(Default, Clone, Debug)]
struct San {
    run_capped: u64,
    saturate: u64,
    paths: u64,
    resource: u64,
}

impl San {
    fn total(&self) -> u64 {
        self.run_capped + self.saturate + self.paths + self.resource
    }
}

fn is_string(a: &str) -> bool {
    a.starts_with('"')
}

fn int_of(a: &str) -> Option<i128> {
    a.parse::<i128>().ok().or_else(|| a.parse::<f64>().ok().map(|f| f as i128))
}

fn sanitize_list(l: &mut Vec<Sx>, repeat_depth: usize, st: &mut San) {
    let mut depth = repeat_depth;
    let head = head_of(l).to_string();
    match head.as_str() {
        "saturate" if l.len() > 1 => {
            l[0] = Sx::A("repeat".into());
            l.insert(1, Sx::A(if depth < 2 { "2" } else { "1" }.into()));
            st.saturate += 1;
            depth += 1;
        }
        "run" | "repeat" | "push" | "pop" | "extract" | "print-function" => {
            let cap: i128 = match head.as_str() {
                "extract" => 5,
                "print-function" => 1000,
                "push" | "pop" => 3,
                _ => {
                    if depth < 2 { 2 } else { 1 }
                }
            };
            for x in l.iter_mut().skip(1) {
                if let Sx::A(a) = x {
                    if !is_string(a) {
                        if let Some(v) = int_of(a) {
                            if v > cap {
                                *a = cap.to_string();
                                st.run_capped += 1;
                            }
                        }
                    }
                }
            }
            if head == "repeat" {
                depth += 1;
            }
        }
        "input" | "output" | "include" => {
            for x in l.iter_mut().skip(1) {
                if let Sx::A(a) = x {
                    if is_string(a) {
                        let k = fnv_str(a) % 2;
                        let f = match head.as_str() {
                            "include" => format!("inc{k}.egg"),
                            "input" => format!("in{k}.csv"),
                            _ => format!("out{k}.txt"),
                        };
                        let new = format!("\"{}\"", scratch_file(&f));
                        if *a != new {
                            *a = new;
                            st.paths += 1;
                        }
                    }
                }
            }
        }
        "<<" | ">>" | "vec-range" | "pow" => {
            let mut bad = false;
            for x in l.iter().skip(1) {
                match x {
                    Sx::A(a) if !is_string(a) => {
                        if let Some(v) = int_of(a) {
                            if v > 64 {
                                bad = true;
                            }
                        }
                    }
                    Sx::L(inner) if head_of(inner) != "bigint" && head_of(inner) != "bigrat" => bad = true,
                    _ => {}
                }
            }
            if bad {
                l[0] = Sx::A("min".into());
                st.resource += 1;
            }
        }
        _ => {}
    }
    // `:file "<path>"` anywhere
    for i in 0..l.len() {
        if matches!(&l[i], Sx::A(a) if a == ":file") && i + 1 < l.len() {
            if let Sx::A(a) = &mut l[i + 1] {
                if is_string(a) {
                    let new = format!("\"{}\"", scratch_file(&format!("pf{}.txt", fnv_str(a) % 2)));
                    if *a != new {
                        *a = new;
                        st.paths += 1;
                    }
                }
            }
        }
    }
    for x in l.iter_mut() {
        if let Sx::L(inner) = x {
            sanitize_list(inner, depth, st);
        }
    }
}

fn sanitize(forms: &mut Vec<Sx>) -> San {
    let mut st = San::default();
    for f in forms.iter_mut() {
        if let Sx::L(l) = f {
            sanitize_list(l, 0, &mut st);
        }
    }
    st
}

/// true if sanitising `text` again would still change something (used after text-level mutations)
fn dangerous(text: &str) -> bool {
    let (mut forms, _, _) = lex_forms(text);
    sanitize(&mut forms).total() > 0
}

/// nesting depth as the engine's reader sees it (parens outside strings and comments)
fn paren_depth(text: &str) -> usize {
    lex_forms(text).2
}

const MAX_DEPTH_IN_PROCESS: usize = 150;

// ---------------------------------------------------------------------------------------------
// stage (a): corpus, dictionary, mutation, grammar-ish generation
// ---------------------------------------------------------------------------------------------

const CORPUS_DIRS: [&str; 2] = ["/repo/tests", "/repo/tests/fail-typecheck"];
const CORPUS_MAX_BYTES: u64 = 5000;
const CORPUS_MAX_FORMS: usize = 60;

struct CorpusFile {
    forms: Vec<Sx>,
}

fn corpus() -> &'static Vec<CorpusFile> {
    static C: OnceLock<Vec<CorpusFile>> = OnceLock::new();
    C.get_or_init(|| {
        let mut v = vec![];
        for d in CORPUS_DIRS {
            let Ok(rd) = std::fs::read_dir(d) else { continue };
            let mut paths: Vec<PathBuf> = rd.flatten().map(|e| e.path()).filter(|p| p.extension().and_then(|x| x.to_str()) == Some("egg")).collect();
            paths.sort();
            for p in paths {
                let Ok(md) = std::fs::metadata(&p) else { continue };
                if md.len() > CORPUS_MAX_BYTES {
                    continue;
                }
                let Ok(text) = std::fs::read_to_string(&p) else { continue };
                let (mut forms, _, _) = lex_forms(&text);
                forms.truncate(CORPUS_MAX_FORMS);
                if !forms.is_empty() {
                    v.push(CorpusFile { forms });
                }
            }
        }
        v
    })
}

const KEYWORDS: &[&str] = &[
    "sort", "datatype", "datatype*", "function", "constructor", "relation", "ruleset", "unstable-combined-ruleset", "rule", "rewrite", "birewrite", "run",
    "run-schedule", "extract", "check", "prove", "prove-exists", "push", "pop", "print-stats", "print-function", "print-size", "input", "output", "include", "fail",
    "saturate", "seq", "repeat", "let", "set", "delete", "subsume", "union", "panic", "=",
];
const OPTIONS: &[&str] = &[
    ":merge", ":no-merge", ":cost", ":unextractable", ":ruleset", ":name", ":naive", ":unsafe-seminaive", ":no-decomp", ":when", ":subsume", ":until", ":file", ":mode",
    ":internal-hidden", ":internal-let", ":internal-term-constructor", ":internal-uf", ":internal-proof-func", ":internal-proof-names", ":internal-container-rebuild",
    ":internal-include-subsumed", ":bogus", ":",
];
const WORDS: &[&str] = &[
    "i64", "f64", "String", "bool", "Unit", "BigInt", "BigRat", "Vec", "Set", "Map", "MultiSet", "Pair", "UnstableFn", "old", "new", "true", "false", "csv", "default",
    "container-rebuild-spec", "+", "-", "*", "/", "%", "min", "max", "<", ">", "<=", ">=", "!=", "&", "|", "^", "<<", ">>", "not", "and", "or", "xor", "abs", "log2", "neg",
    "to-string", "to-f64", "to-i64", "from-string", "bigint", "bigrat", "numer", "denom", "pow", "log", "cbrt", "sqrt", "floor", "ceil", "round", "value-eq", "ordering-min",
    "ordering-max", "count-matches", "vec-of", "vec-push", "vec-pop", "vec-get", "vec-set", "vec-length", "vec-empty", "vec-append", "vec-contains", "vec-not-contains",
    "vec-remove", "vec-range", "set-of", "set-empty", "set-insert", "set-union", "set-contains", "set-not-contains", "set-length", "set-get", "set-diff", "set-intersect",
    "set-remove", "map-empty", "map-insert", "map-get", "map-contains", "map-not-contains", "map-remove", "map-length", "multiset-of", "multiset-insert", "multiset-pick",
    "multiset-count", "multiset-sum", "pair", "pair-first", "pair-second", "unstable-fn", "unstable-app", "unstable-multiset-clear-index", "_", "$g", "x", "y", "S", "T", "f", "g", "R", "a",
];
const ODD: &[&str] = &[
    "9223372036854775807", "9223372036854775808", "-9223372036854775808", "-9223372036854775809", "18446744073709551616", "1e999", "-1e999", "NaN", "inf", "-inf", "-0.0", "1e-400",
    "0x10", "1_000", "+5", "--1", "1.", ".5", "λ", "日本語", "\u{202e}abc", "a\u{0}b", "\u{feff}", "é́", "'", "`", ",", "#", "|x|", "@x", "@", "$", "$$", "_", "__", ":", "::", "()", "\"\"",
    "\"a\\\"b\"", "\"\\q\"", "\"unterminated", "\"multi\nline\"", "\"\\\\\"", "\"λ\"", "true", "false", "-", ".", "..", "a.b", "a/b", "a;b", "a\"b", "\r", "\t",
];

fn long_atom(n: usize) -> String {
    "a".repeat(n)
}

fn dict_word(src: &mut Src) -> String {
    match src.pick_weighted(&[4, 3, 5, 3, 1]) {
        0 => (*src.pick(KEYWORDS)).to_string(),
        1 => (*src.pick(OPTIONS)).to_string(),
        2 => (*src.pick(WORDS)).to_string(),
        3 => (*src.pick(ODD)).to_string(),
        _ => long_atom(*src.pick(&[300usize, 3000, 20000])),
    }
}

fn random_subtree(src: &mut Src, forms: &[Sx]) -> Option<Sx> {
    let n = count_nodes(forms);
    if n == 0 {
        return None;
    }
    let p = path_of(forms, src.below(n))?;
    let mut cur: &[Sx] = forms;
    let (last, init) = p.split_last()?;
    for i in init {
        if let Sx::L(l) = &cur[*i] {
            cur = l;
        }
    }
    Some(cur[*last].clone())
}

/// one tree-level mutation; returns its label
fn mutate_tree(src: &mut Src, forms: &mut Vec<Sx>) -> &'static str {
    let n = count_nodes(forms);
    if n == 0 {
        forms.push(gen_form(src, 0));
        return "insert-generated";
    }
    let path = path_of(forms, src.below(n)).unwrap();
    let (last, init) = path.split_last().unwrap();
    let last = *last;
    match src.below(12) {
        0 => {
            // splice a subtree of another corpus file
            let c = corpus();
            if !c.is_empty() {
                let f = &c[src.below(c.len())];
                if let Some(t) = random_subtree(src, &f.forms) {
                    let l = list_at(forms, init);
                    l.insert(last, t);
                    return "splice";
                }
            }
            list_at(forms, init).insert(last, gen_form(src, 0));
            "insert-generated"
        }
        1 => {
            list_at(forms, init).remove(last);
            "delete"
        }
        2 => {
            let l = list_at(forms, init);
            let t = l[last].clone();
            l.insert(last, t);
            "duplicate"
        }
        3 => {
            let l = list_at(forms, init);
            if l.len() >= 2 {
                let j = src.below(l.len());
                l.swap(last, j);
            }
            "swap"
        }
        4 | 5 | 6 => {
            let w = dict_word(src);
            *node_at(forms, &path) = Sx::A(w);
            "replace-by-word"
        }
        7 => {
            let t = node_at(forms, &path).clone();
            *node_at(forms, &path) = Sx::L(vec![t]);
            "wrap"
        }
        8 => {
            // unwrap: splice a list's children into its parent
            if let Sx::L(inner) = node_at(forms, &path).clone() {
                let l = list_at(forms, init);
                l.remove(last);
                for (k, x) in inner.into_iter().enumerate() {
                    l.insert(last + k, x);
                }
                "unwrap"
            } else {
                *node_at(forms, &path) = Sx::L(vec![]);
                "to-unit"
            }
        }
        9 => {
            let w = dict_word(src);
            list_at(forms, init).insert(last, Sx::A(w));
            "insert-word"
        }
        10 => {
            list_at(forms, init).insert(last, gen_form(src, 1));
            "insert-generated"
        }
        _ => {
            // move a subtree somewhere else in the same program
            if let Some(t) = random_subtree(src, forms) {
                list_at(forms, init).insert(last, t);
            }
            "copy-within"
        }
    }
}

/// text-level mutation (after sanitising); returns label
fn mutate_text(src: &mut Src, text: &mut String) -> &'static str {
    let idx: Vec<usize> = text.char_indices().map(|(i, _)| i).collect();
    if idx.is_empty() {
        return "none";
    }
    let at = idx[src.below(idx.len())];
    match src.below(6) {
        0 => {
            let parens: Vec<usize> = text.char_indices().filter(|(_, c)| *c == '(' || *c == ')').map(|(i, _)| i).collect();
            if !parens.is_empty() {
                let p = parens[src.below(parens.len())];
                text.remove(p);
            }
            "drop-paren"
        }
        1 => {
            text.insert(at, if src.bool() { '(' } else { ')' });
            "add-paren"
        }
        2 => {
            text.truncate(at);
            "truncate"
        }
        3 => {
            let c = *src.pick(&['"', '\\', ';', '\0', '\r', '\u{feff}', 'λ', '\u{202e}', '\'', ' ', '\n']);
            text.insert(at, c);
            "insert-char"
        }
        4 => {
            let quotes: Vec<usize> = text.char_indices().filter(|(_, c)| *c == '"').map(|(i, _)| i).collect();
            if !quotes.is_empty() {
                let p = quotes[src.below(quotes.len())];
                text.remove(p);
            }
            "drop-quote"
        }
        _ => {
            let c = text[at..].chars().next().unwrap();
            text.remove(at);
            let _ = c;
            "drop-char"
        }
    }
}

const GEN_PRELUDE: &str = "(sort S)\n(sort T)\n(constructor a () S)\n(constructor f (S) S)\n(constructor h (S i64) T)\n(function g (S) i64 :merge (min old new))\n(relation R (S i64))\n(ruleset rs)\n(sort V (Vec S))\n(let $g (f (a)))\n(R (a) 1)\n(set (g (a)) 3)\n";

fn gen_atom(src: &mut Src) -> Sx {
    match src.pick_weighted(&[6, 3, 2, 2, 1]) {
        0 => Sx::A((*src.pick(&["x", "y", "z", "a", "f", "g", "h", "R", "S", "T", "V", "rs", "$g", "i64", "old", "new", "_"])).to_string()),
        1 => Sx::A(src.small_i64().to_string()),
        2 => Sx::A((*src.pick(WORDS)).to_string()),
        3 => Sx::A((*src.pick(&["\"s\"", "\"\"", "true", "false", "1.5", "()"])).to_string()),
        _ => Sx::A(dict_word(src)),
    }
}

fn gen_expr(src: &mut Src, depth: usize) -> Sx {
    if depth >= 3 || src.chance(2, 5) {
        return gen_atom(src);
    }
    let head = match src.pick_weighted(&[5, 3, 1]) {
        0 => (*src.pick(&["f", "a", "h", "g", "R", "+", "min", "vec-of", "=", "!="])).to_string(),
        1 => (*src.pick(WORDS)).to_string(),
        _ => dict_word(src),
    };
    let n = src.below(4);
    let mut l = vec![Sx::A(head)];
    for _ in 0..n {
        l.push(gen_expr(src, depth + 1));
    }
    Sx::L(l)
}

fn gen_list_of(src: &mut Src, n: usize, depth: usize) -> Sx {
    Sx::L((0..n).map(|_| gen_expr(src, depth)).collect())
}

/// a grammar-ish command: right head, roughly right shape, random details
fn gen_form(src: &mut Src, depth: usize) -> Sx {
    let a = |s: &str| Sx::A(s.to_string());
    let name = |src: &mut Src| Sx::A((*src.pick(&["N0", "N1", "f", "a", "S", "rs", "R", "g", "+", "i64", "Vec"])).to_string());
    let sortn = |src: &mut Src| Sx::A((*src.pick(&["S", "T", "i64", "bool", "String", "V", "Bogus", "f", "Unit", "f64"])).to_string());
    let mut l: Vec<Sx> = match src.below(26) {
        0 => vec![a("sort"), name(src)],
        1 => vec![a("sort"), name(src), Sx::L(vec![Sx::A((*src.pick(&["Vec", "Set", "Map", "MultiSet", "Pair", "UnstableFn", "Bogus"])).to_string()), sortn(src), sortn(src)][..1 + src.below(3)].to_vec())],
        2 => {
            let k = src.below(3);
            let mut v = vec![a("datatype"), name(src)];
            for _ in 0..k {
                v.push(Sx::L(vec![name(src), sortn(src), sortn(src)][..1 + src.below(3)].to_vec()));
            }
            v
        }
        3 => {
            let ins = Sx::L((0..src.below(3)).map(|_| sortn(src)).collect());
            let mut v = vec![a("function"), name(src), ins, sortn(src)];
            match src.below(4) {
                0 => v.push(a(":no-merge")),
                1 => {
                    v.push(a(":merge"));
                    v.push(gen_expr(src, 1));
                }
                2 => {
                    v.push(a(":merge"));
                    v.push(Sx::L(vec![a("min"), a("old"), a("new")]));
                }
                _ => {}
            }
            v
        }
        4 => {
            let ins = Sx::L((0..src.below(3)).map(|_| sortn(src)).collect());
            let mut v = vec![a("constructor"), name(src), ins, sortn(src)];
            if src.chance(1, 3) {
                v.push(a(":cost"));
                v.push(Sx::A(src.small_i64().to_string()));
            }
            v
        }
        5 => vec![a("relation"), name(src), Sx::L((0..src.below(3)).map(|_| sortn(src)).collect())],
        6 => vec![a("ruleset"), name(src)],
        7 => vec![a("unstable-combined-ruleset"), name(src), name(src), name(src)],
        8 | 9 => {
            let nb = src.below(3);
            let body = Sx::L((0..nb).map(|_| gen_expr(src, 1)).collect());
            let nh = src.below(3);
            let head = Sx::L((0..nh).map(|_| if src.bool() { gen_action(src) } else { gen_expr(src, 1) }).collect());
            let mut v = vec![a("rule"), body, head];
            if src.chance(1, 3) {
                v.push(a(":ruleset"));
                v.push(name(src));
            }
            if src.chance(1, 4) {
                v.push(Sx::A((*src.pick(&[":naive", ":unsafe-seminaive", ":no-decomp", ":name"])).to_string()));
            }
            v
        }
        10 => {
            let mut v = vec![Sx::A((*src.pick(&["rewrite", "birewrite"])).to_string()), gen_expr(src, 1), gen_expr(src, 1)];
            if src.chance(1, 3) {
                v.push(a(":when"));
                v.push(gen_list_of(src, 1, 1));
            }
            if src.chance(1, 4) {
                v.push(a(":subsume"));
            }
            v
        }
        11 => vec![a("run"), Sx::A(src.small_i64().to_string())],
        12 => vec![a("run"), name(src), Sx::A("1".into()), a(":until"), gen_expr(src, 1)],
        13 => vec![a("run-schedule"), gen_sched(src, 0)],
        14 => vec![a("extract"), gen_expr(src, 0), Sx::A(src.small_i64().to_string())][..2 + src.below(2)].to_vec(),
        15 => vec![a("check"), gen_expr(src, 0)],
        16 => vec![Sx::A((*src.pick(&["push", "pop"])).to_string())],
        17 => vec![a("print-function"), name(src), Sx::A(src.small_i64().to_string())],
        18 => vec![Sx::A((*src.pick(&["print-size", "prove-exists", "print-stats"])).to_string()), name(src)][..1 + src.below(2)].to_vec(),
        19 => vec![a("fail"), if depth < 2 { gen_form(src, depth + 1) } else { gen_expr(src, 1) }],
        20 => vec![a("input"), name(src), Sx::A("\"in.csv\"".into())],
        21 => vec![a("output"), Sx::A("\"out.txt\"".into()), gen_expr(src, 1)],
        22 => vec![a("include"), Sx::A("\"inc.egg\"".into())],
        23 => vec![a("let"), Sx::A((*src.pick(&["$n", "n", "$g", "a", "f"])).to_string()), gen_expr(src, 0)],
        _ => return gen_action(src),
    };
    if src.chance(1, 10) {
        let w = dict_word(src);
        let at = src.below(l.len() + 1);
        l.insert(at, Sx::A(w));
    }
    Sx::L(l)
}

fn gen_action(src: &mut Src) -> Sx {
    let a = |s: &str| Sx::A(s.to_string());
    match src.below(7) {
        0 => Sx::L(vec![a("union"), gen_expr(src, 1), gen_expr(src, 1)]),
        1 => Sx::L(vec![a("set"), gen_expr(src, 1), gen_expr(src, 1)]),
        2 => Sx::L(vec![Sx::A((*src.pick(&["delete", "subsume"])).to_string()), gen_expr(src, 1)]),
        3 => Sx::L(vec![a("let"), Sx::A((*src.pick(&["v", "x", "$g", "f"])).to_string()), gen_expr(src, 1)]),
        4 => Sx::L(vec![a("panic"), Sx::A("\"p\"".into())]),
        _ => gen_expr(src, 0),
    }
}

fn gen_sched(src: &mut Src, depth: usize) -> Sx {
    let a = |s: &str| Sx::A(s.to_string());
    if depth >= 2 || src.chance(1, 3) {
        return match src.below(4) {
            0 => Sx::L(vec![a("run")]),
            1 => Sx::L(vec![a("run"), a("rs")]),
            2 => a("rs"),
            _ => Sx::L(vec![a("run"), Sx::A(dict_word(src))]),
        };
    }
    let head = *src.pick(&["seq", "repeat", "saturate", "seq"]);
    let mut l = vec![a(head)];
    if head == "repeat" {
        l.push(Sx::A(src.small_i64().to_string()));
    }
    for _ in 0..1 + src.below(2) {
        l.push(gen_sched(src, depth + 1));
    }
    Sx::L(l)
}

#[derive(Clone, Debug, Serialize, Deserialize)]
pub struct BytesCase {
    /// 0 plain, 1 term encoding, 2 proofs
    pub mode: u8,
    /// all inputs go to ONE e-graph (else: a fresh one per input)
    pub long_lived: bool,
    pub inputs: Vec<String>,
    /// how each input was made (for the class distribution only)
    pub how: Vec<String>,
}

struct Bytes;

/// finish an input: sanitise the tree, print, optionally mutate the text (kept only if still harmless)
fn finish_input(src: &mut Src, mut forms: Vec<Sx>, how: &mut String) -> String {
    let st = sanitize(&mut forms);
    if st.total() > 0 {
        how.push_str("+sanitised");
    }
    let mut text = show_forms(&forms);
    // atoms such as `a;b` change the structure when the text is read back: sanitise what the engine will see
    for _ in 0..3 {
        if !dangerous(&text) {
            break;
        }
        let (mut f, _, _) = lex_forms(&text);
        sanitize(&mut f);
        text = show_forms(&f);
    }
    if src.chance(1, 4) {
        let mut t2 = text.clone();
        let lbl = mutate_text(src, &mut t2);
        if !dangerous(&t2) {
            text = t2;
            how.push('+');
            how.push_str(lbl);
        } else {
            how.push_str("+text-mutation-dropped");
        }
    }
    if text.len() > 40_000 {
        let mut cut = 40_000;
        while !text.is_char_boundary(cut) {
            cut -= 1;
        }
        text.truncate(cut);
    }
    text
}

impl Stage for Bytes {
    type Input = BytesCase;
    fn name(&self) -> &'static str {
        "bytes"
    }
    fn decode(&self, src: &mut Src) -> BytesCase {
        let mode = src.pick_weighted(&[5, 2, 2]) as u8;
        let long_lived = src.bool();
        let c = corpus();
        let mut inputs = vec![];
        let mut hows = vec![];
        let style = if c.is_empty() { 2 } else { src.pick_weighted(&[4, 3, 3]) };
        match style {
            0 => {
                // a session: one corpus file cut into chunks, some chunks mutated
                let f = &c[src.below(c.len())];
                let k = (1 + src.below(4)).min(f.forms.len());
                let per = f.forms.len().div_ceil(k);
                for chunk in f.forms.chunks(per.max(1)) {
                    let mut forms = chunk.to_vec();
                    let mut how = String::from("corpus-chunk");
                    if src.chance(1, 2) {
                        for _ in 0..1 + src.below(3) {
                            how.push('+');
                            how.push_str(mutate_tree(src, &mut forms));
                        }
                    }
                    inputs.push(finish_input(src, forms, &mut how));
                    hows.push(how);
                }
            }
            1 => {
                // independent mutants of (possibly different) files
                let n = 1 + src.below(3);
                for _ in 0..n {
                    let f = &c[src.below(c.len())];
                    let mut forms = f.forms.clone();
                    let mut how = String::from("corpus-file");
                    for _ in 0..1 + src.below(4) {
                        how.push('+');
                        how.push_str(mutate_tree(src, &mut forms));
                    }
                    inputs.push(finish_input(src, forms, &mut how));
                    hows.push(how);
                }
            }
            _ => {
                // grammar-ish commands over a small valid prelude
                let n = 1 + src.below(4);
                for i in 0..n {
                    let mut forms = if i == 0 && src.chance(4, 5) { lex_forms(GEN_PRELUDE).0 } else { vec![] };
                    for _ in 0..1 + src.below(5) {
                        forms.push(gen_form(src, 0));
                    }
                    let mut how = String::from("grammar");
                    inputs.push(finish_input(src, forms, &mut how));
                    hows.push(how);
                }
            }
        }
        BytesCase { mode, long_lived, inputs, how: hows }
    }
    fn render(&self, c: &BytesCase) -> serde_json::Value {
        serde_json::json!({"mode": MODES[c.mode as usize % 3], "long_lived": c.long_lived, "inputs": c.inputs.iter().map(|t| excerpt(t, 1500)).collect::<Vec<_>>()})
    }
    fn simplify(&self, c: &BytesCase) -> Vec<BytesCase> {
        let mut out = vec![];
        for i in 0..c.inputs.len() {
            if c.inputs.len() > 1 {
                let mut d = c.clone();
                d.inputs.remove(i);
                if i < d.how.len() {
                    d.how.remove(i);
                }
                out.push(d);
            }
        }
        for i in 0..c.inputs.len() {
            let (forms, balanced, _) = lex_forms(&c.inputs[i]);
            if !balanced || forms.len() < 2 {
                continue;
            }
            for j in (0..forms.len()).rev() {
                let mut fs = forms.clone();
                fs.remove(j);
                let mut d = c.clone();
                d.inputs[i] = show_forms(&fs);
                out.push(d);
            }
        }
        if c.mode != 0 {
            let mut d = c.clone();
            d.mode = 0;
            out.push(d);
        }
        out
    }
    fn check(&self, c: &BytesCase) -> Outcome {
        let _flight = flight("bytes", c);
        let mode = c.mode % 3;
        let mname = MODES[mode as usize];
        let mut out = Outcome::new(mix(fnv_str(&c.inputs.join("\u{1}")), (mode as u64) << 1 | c.long_lived as u64));
        let mut eg = mk(mode);
        let mut parsed_any = false;
        let mut errors_before_ok = false;
        let mut seen_err = false;
        for (i, text) in c.inputs.iter().enumerate() {
            if !c.long_lived && i > 0 {
                eg = mk(mode);
                seen_err = false;
            }
            if paren_depth(text) > MAX_DEPTH_IN_PROCESS {
                out.count("depth_capped", 1);
                continue;
            }
            if dangerous(text) {
                // only reachable through a hand-edited replay file
                out.count("unsanitised_input_skipped", 1);
                continue;
            }
            if let Some(h) = c.how.get(i) {
                for part in h.split('+') {
                    out.count(format!("made-by:{part}"), 1);
                }
            }
            match catch(|| eg.parse_program(None, text)) {
                Ok(Ok(cmds)) => {
                    if !cmds.is_empty() {
                        parsed_any = true;
                        out.count("inputs_parsed", 1);
                    }
                }
                Ok(Err(_)) => out.count("inputs_parse_error", 1),
                Err(p) => {
                    out.fail(panic_root(&p), format!("[{mname}] parse_program panicked on input #{i}: {p}\ninput: {}", excerpt(text, 1200)));
                    return out;
                }
            }
            let r = exec(&mut eg, text);
            match &r {
                Res::Panic(p) => {
                    if let Some(t) = tolerated_panic(p) {
                        out.class(format!("{mname}:{t}"));
                        // the e-graph may be mid-update after an unwinding panic: start over
                        eg = mk(mode);
                        continue;
                    }
                    // reported through `soft` so that a known finding does not hide the rest of the case;
                    // the e-graph may be mid-update after an unwinding panic: start over
                    out.soft.push(crate::fw::Violation::new(
                        panic_root(p),
                        format!("[{mname}, {}] input #{i} made parse_and_run_program panic: {p}\ninput: {}", if c.long_lived { "long-lived e-graph" } else { "fresh e-graph" }, excerpt(text, 1500)),
                    ));
                    out.class(format!("{mname}:panic"));
                    eg = mk(mode);
                    continue;
                }
                Res::Ok(_) => {
                    out.class(format!("{mname}:ok"));
                    if seen_err {
                        errors_before_ok = true;
                    }
                }
                Res::Err(k, l, _) => {
                    out.class(format!("{mname}:err:{:?}", k));
                    out.count(format!("err:{l}"), 1);
                    seen_err = true;
                }
            }
            if c.long_lived {
                // usable afterwards: a trivial query must still work (plain mode: must succeed)
                match exec(&mut eg, "(check (= 1 1))") {
                    Res::Panic(p) => {
                        out.fail(panic_root(&p), format!("[{mname}] after input #{i} ({}), `(check (= 1 1))` panicked: {p}\ninput: {}", r.short(), excerpt(text, 1500)));
                        return out;
                    }
                    Res::Err(_, _, m) if mode == 0 => {
                        out.fail("unusable-after-input", format!("[{mname}] after input #{i} ({}), `(check (= 1 1))` fails: {m}\ninput: {}", r.short(), excerpt(text, 1500)));
                        return out;
                    }
                    _ => {}
                }
            }
        }
        if errors_before_ok {
            out.class("ok-after-error-on-same-egraph");
        }
        out.nontrivial = parsed_any;
        out
    }
}

// ---------------------------------------------------------------------------------------------
// stage "deep": deep nesting in every syntactic position, in a child process
// ---------------------------------------------------------------------------------------------

#[derive(Clone, Debug, Serialize, Deserialize)]
pub struct DeepCase {
    pub site: String,
    pub depth: usize,
    pub mode: u8,
}

const DEEP_SITES: &[&str] = &[
    "sexp-parens", "sexp-unclosed", "action-expr", "check-expr", "let-expr", "extract-expr", "union-expr", "rule-body", "rule-head", "rewrite", "prim-expr", "merge-expr",
    "schedule-seq", "schedule-repeat", "schedule-saturate", "fail-nest", "presort-arg", "set-expr", "resource-vec-range",
];

/// root-cause class of a deep-nesting site
fn deep_class(site: &str) -> &'static str {
    match site {
        "sexp-parens" | "sexp-unclosed" => "sexp",
        "schedule-seq" | "schedule-repeat" | "schedule-saturate" => "schedule",
        "fail-nest" => "fail-command",
        "resource-vec-range" => "resource",
        _ => "expr",
    }
}

fn nest(open: &str, core: &str, d: usize) -> String {
    let mut s = String::with_capacity(d * (open.len() + 1) + core.len());
    for _ in 0..d {
        s.push_str(open);
    }
    s.push_str(core);
    for _ in 0..d {
        s.push(')');
    }
    s
}

pub fn deep_text(site: &str, d: usize) -> String {
    let pre = "(sort S)(constructor F (S) S)(constructor a () S)(function g (i64) i64 :merge (min old new))(relation R (S))\n";
    match site {
        "sexp-parens" => nest("(", "", d),
        "sexp-unclosed" => "(".repeat(d),
        "action-expr" => format!("{pre}{}", nest("(F ", "(a)", d)),
        "check-expr" => format!("{pre}(check (= {} (a)))", nest("(F ", "(a)", d)),
        "let-expr" => format!("{pre}(let $x {})", nest("(F ", "(a)", d)),
        "extract-expr" => format!("{pre}(extract {})", nest("(F ", "(a)", d)),
        "union-expr" => format!("{pre}(union (a) {})", nest("(F ", "(a)", d)),
        "set-expr" => format!("{pre}(set (g 1) {})", nest("(+ 1 ", "1", d)),
        "rule-body" => format!("{pre}(rule ((= x {})) ((R x)))", nest("(F ", "y", d)),
        "rule-head" => format!("{pre}(rule ((= x (a))) ((R {})))", nest("(F ", "x", d)),
        "rewrite" => format!("{pre}(rewrite {} y)", nest("(F ", "y", d)),
        "prim-expr" => format!("(extract {})", nest("(+ 1 ", "1", d)),
        "merge-expr" => format!("(function h (i64) i64 :merge {})", nest("(min old ", "new", d)),
        "schedule-seq" => format!("{pre}(run-schedule {})", nest("(seq ", "(run)", d)),
        "schedule-repeat" => format!("{pre}(run-schedule {})", nest("(repeat 1 ", "(run)", d)),
        "schedule-saturate" => format!("{pre}(run-schedule {})", nest("(saturate ", "(run)", d)),
        "fail-nest" => nest("(fail ", "(push)", d),
        "presort-arg" => format!("(sort K {})", nest("(Vec ", "i64", d)),
        "resource-vec-range" => "(sort IV (Vec i64))(extract (vec-length (vec-range 9223372036854775807)))".to_string(),
        _ => String::new(),
    }
}

struct Deep;

impl Stage for Deep {
    type Input = DeepCase;
    fn name(&self) -> &'static str {
        "deep"
    }
    fn decode(&self, src: &mut Src) -> DeepCase {
        DeepCase { site: (*src.pick(DEEP_SITES)).to_string(), depth: *src.pick(&[1000usize, 10_000, 100_000]), mode: src.below(3) as u8 }
    }
    fn check(&self, c: &DeepCase) -> Outcome {
        let mut out = Outcome::new(fnv_str(&format!("{}/{}/{}", c.site, c.depth, c.mode)));
        let mname = MODES[c.mode as usize % 3];
        let r = run_child(ChildJob {
            kind: "c09-deep",
            payload: serde_json::json!({"site": c.site, "depth": c.depth, "mode": c.mode}),
            env: vec![],
            timeout: Duration::from_secs(120),
            cwd: None,
        });
        out.nontrivial = c.depth >= 1000;
        match r {
            ChildResult::Ok(j) => {
                let res = j["res"].as_str().unwrap_or("?").to_string();
                out.class(format!("{}:{}", deep_class(&c.site), res.split(':').next().unwrap_or("")));
                if res == "panic" {
                    let msg = j["msg"].as_str().unwrap_or("").to_string();
                    out.fail(panic_root(&msg), format!("[{mname}] {} nested {} deep panicked: {msg}", c.site, c.depth));
                }
            }
            ChildResult::Crashed { status, stderr } => {
                out.class(format!("{}:abort", deep_class(&c.site)));
                let tail: Vec<&str> = stderr.lines().rev().take(4).collect();
                out.fail(
                    format!("abort:deep-nesting:{}", deep_class(&c.site)),
                    format!("[{mname}] input `{}` ({} levels) killed the process: {status}; stderr: {}", excerpt(&deep_text(&c.site, 3), 200), c.depth, tail.into_iter().rev().collect::<Vec<_>>().join(" | ")),
                );
            }
            ChildResult::Busy | ChildResult::Quiescent { .. } => {
                out.class(format!("{}:timeout", deep_class(&c.site)));
                out.count("deep_timeouts", 1);
                out.nontrivial = false;
            }
            ChildResult::Broken(m) => {
                out.class("broken");
                out.count("deep_broken", 1);
                out.classes.push(format!("broken:{}", excerpt(&m, 60)));
                out.nontrivial = false;
            }
        }
        out
    }
}

fn child_deep(payload: &serde_json::Value) -> Option<serde_json::Value> {
    let site = payload["site"].as_str()?;
    let depth = payload["depth"].as_u64()? as usize;
    let mode = payload["mode"].as_u64().unwrap_or(0) as u8;
    let text = deep_text(site, depth);
    crate::fw::install_quiet_panic_hook();
    let mut eg = mk(mode);
    let r = exec(&mut eg, &text);
    // do not let destructors of deep structures decide the verdict differently: they are part of the run above
    let (res, msg) = match &r {
        Res::Ok(_) => ("ok".to_string(), String::new()),
        Res::Err(k, l, m) => (format!("err:{:?}:{}", k, l), excerpt(m, 200)),
        Res::Panic(p) => ("panic".to_string(), excerpt(p, 400)),
    };
    Some(serde_json::json!({"res": res, "msg": msg}))
}

/// `vcheck --child c09-probe` with {"mode":0,"inputs":[..]}: run inputs on one e-graph, print results (debug aid)
fn child_probe(payload: &serde_json::Value) -> Option<serde_json::Value> {
    let mode = payload["mode"].as_u64().unwrap_or(0) as u8;
    crate::fw::install_quiet_panic_hook();
    let mut eg = mk(mode);
    let mut res = vec![];
    for t in payload["inputs"].as_array()? {
        let t = t.as_str()?;
        let r = exec(&mut eg, t);
        res.push(serde_json::json!({"input": excerpt(t, 200), "res": r.short()}));
    }
    Some(serde_json::json!({"results": res}))
}

pub fn child(kind: &str, payload: &serde_json::Value) -> Option<serde_json::Value> {
    match kind {
        "c09-deep" => child_deep(payload),
        "c09-probe" => child_probe(payload),
        _ => None,
    }
}

// ---------------------------------------------------------------------------------------------
// stage (b): typed mutations — catalogue of ill-formed commands built from the session's signature
// ---------------------------------------------------------------------------------------------

pub struct Entry {
    pub label: &'static str,
    /// command kind, for signatures
    pub kind: &'static str,
    /// valid commands appended to the declarations of the session (part of S in every variant)
    pub setup: Vec<String>,
    pub bad: String,
    /// follow-ups: first the corrected twin of `bad` (if any), then uses of the names `bad` mentioned
    pub after: Vec<String>,
}

fn leaf(sig: &Sig, sort: usize, k: usize) -> String {
    let ls: Vec<&FuncDecl> = sig.funcs.iter().filter(|f| f.is_ctor() && f.args.is_empty() && f.out == Ty::Eq(sort)).collect();
    if ls.is_empty() { "(a0)".into() } else { format!("({})", ls[k % ls.len()].name) }
}

fn ground_ty(sig: &Sig, ty: &Ty, k: usize) -> String {
    match ty {
        Ty::Eq(i) => leaf(sig, *i, k),
        Ty::I64 => (k % 3).to_string(),
        Ty::Bool => "true".into(),
        Ty::Cont(ci) => format!("({})", crate::pgen::cont_ctor(sig.conts[*ci].kind)),
    }
}

fn ground_app(sig: &Sig, f: &FuncDecl, k: usize) -> String {
    if f.args.is_empty() {
        format!("({})", f.name)
    } else {
        format!("({} {})", f.name, f.args.iter().enumerate().map(|(i, t)| ground_ty(sig, t, k + i)).collect::<Vec<_>>().join(" "))
    }
}

pub const N_ENTRIES: usize = 74;

/// The catalogue. `F` = a unary S->S constructor (always there), `R` = a relation (always there).
pub fn entry(sig: &Sig, idx: usize) -> Entry {
    let s = |x: &str| x.to_string();
    let f0 = sig.funcs.iter().find(|f| f.name == "F0").cloned().unwrap_or(FuncDecl { name: "F0".into(), kind: FKind::Ctor { cost: None, unextractable: false }, args: vec![Ty::Eq(0)], out: Ty::Eq(0) });
    let r0 = sig.funcs.iter().find(|f| f.is_rel()).cloned().unwrap_or(FuncDecl { name: "R0".into(), kind: FKind::Rel, args: vec![Ty::I64], out: Ty::I64 });
    let s0 = sig.sorts.first().cloned().unwrap_or("S".into());
    let a0 = leaf(sig, 0, 0);
    let a1 = leaf(sig, 0, 1);
    let f = f0.name.clone();
    let fa = format!("({f} {a0})");
    let r = r0.name.clone();
    let ra = ground_app(sig, &r0, 0);
    let zg_setup = vec![s("(function Zg (i64) i64 :merge (max old new))"), s("(set (Zg 0) 1)")];
    let glob_setup = vec![format!("(let $zg {a0})")];
    let rule_ok = format!("(rule ((= zx ({f} zy))) ((union zx zy)))");
    let e = |label: &'static str, kind: &'static str, setup: Vec<String>, bad: String, after: Vec<String>| Entry { label, kind, setup, bad, after };
    let zf_after = || vec![s("(function Zf (i64) i64 :merge (min old new))"), s("(set (Zf 1) 2)"), s("(check (= (Zf 1) 2))")];
    let zk_after = || vec![format!("(sort ZK (Vec {s0}))"), format!("(constructor Zw (ZK) {s0})"), format!("(Zw (vec-of {a0}))")];
    match idx % N_ENTRIES {
        0 => e("wrong-sort-arg", "action", vec![], format!("({f} 1)"), vec![fa.clone()]),
        1 => {
            let bad_arg = if r0.args.first() == Some(&Ty::I64) { a0.clone() } else { s("7") };
            let mut args: Vec<String> = r0.args.iter().enumerate().map(|(i, t)| ground_ty(sig, t, i)).collect();
            if !args.is_empty() {
                args[0] = bad_arg;
            }
            e("wrong-sort-arg-relation", "action", vec![], format!("({r} {})", args.join(" ")), vec![ra.clone()])
        }
        2 => e("wrong-arity-more", "action", vec![], format!("({f} {a0} {a0})"), vec![fa.clone()]),
        3 => e("wrong-arity-less", "action", vec![], format!("({f})"), vec![fa.clone()]),
        4 => e("wrong-arity-in-rule", "rule", vec![], format!("(rule ((= zx ({f} zy zz))) ((union zx zy)))"), vec![rule_ok.clone(), s("(run 1)")]),
        5 => e("unbound-var-in-head", "rule", vec![], format!("(rule ((= zx ({f} zy))) ((union zx zq)))"), vec![rule_ok.clone(), s("(run 1)")]),
        6 => e("unbound-var-in-action", "action", vec![], format!("(union {a0} zq)"), vec![format!("(union {a0} {a0})")]),
        7 => e("ungrounded-var", "rule", vec![], format!("(rule ((= zx (+ zy 1))) ((union {a0} {a1})))"), vec![format!("(rule ((= zx ({f} zy))) ())")]),
        8 => e("ungrounded-birewrite", "rewrite", vec![], format!("(birewrite ({f} zx) zx)"), vec![format!("(rewrite ({f} zx) zx)"), s("(run 1)")]),
        9 => e("shadow-local-constructor", "rule", vec![], format!("(rule ((= zx ({f} zy))) ((let {f} zy)))"), vec![format!("(rule ((= zx ({f} zy))) ((let zl zy)))"), fa.clone()]),
        10 => e("shadow-global-constructor", "let", vec![], format!("(let {f} {a0})"), vec![format!("(let $zg {a0})"), fa.clone(), format!("(union $zg {a0})")]),
        11 => e("shadow-global-twice", "let", glob_setup.clone(), format!("(let $zg {a1})"), vec![format!("(let $zh {a1})"), format!("(union $zg {a0})"), format!("(check (= $zg {a0}))")]),
        12 => e("shadow-local-global", "rule", glob_setup.clone(), format!("(rule ((= zx ({f} zy))) ((let $zg zy)))"), vec![format!("(rule ((= zx ({f} zy))) ((let zl zy)))")]),
        13 => e("shadow-local-global-no-prefix", "rule", glob_setup.clone(), format!("(rule ((= zg ({f} zy))) ((union zg zy)))"), vec![format!("(rule ((= zq ({f} zy))) ((union zq zy)))"), s("(run 1)")]),
        14 => e("shadow-local-twice", "rule", vec![], format!("(rule ((= zx ({f} zy))) ((let zl zy) (let zl zy)))"), vec![format!("(rule ((= zx ({f} zy))) ((let zl zy)))")]),
        15 => e("set-on-constructor", "action", vec![], format!("(set {fa} {a1})"), vec![format!("(union {fa} {a1})")]),
        16 => e("set-on-relation", "action", vec![], format!("(set {ra} ())"), vec![ra.clone()]),
        17 => e("union-non-eq-sort", "action", vec![], s("(union 1 2)"), vec![format!("(union {a0} {a1})")]),
        18 => e("union-relation", "action", vec![], format!("(union {ra} {ra})"), vec![ra.clone()]),
        19 => e("lookup-in-seminaive-action", "rule", zg_setup.clone(), s("(rule ((= zx (Zg 0))) ((set (Zg 1) (Zg 0))))"), vec![s("(rule ((= zx (Zg 0))) ((set (Zg 1) zx)))"), s("(run 1)"), s("(check (= (Zg 1) 1))")]),
        20 => e("duplicate-sort", "sort", vec![], format!("(sort {s0})"), vec![s("(sort ZS)"), s("(constructor Zc (ZS) ZS)"), fa.clone()]),
        21 => e("duplicate-constructor-same-signature", "constructor", vec![], sig.func_decl_text(&f0), vec![fa.clone()]),
        22 => e("duplicate-constructor-other-signature", "constructor", vec![], format!("(constructor {f} (i64 i64) {s0})"), vec![fa.clone(), format!("({f} 1 2)")]),
        23 => e("duplicate-relation", "relation", vec![], format!("(relation {r} (i64 i64 i64 i64))"), vec![ra.clone(), format!("({r} 1 2 3 4)")]),
        24 => e("duplicate-function-other-signature", "function", zg_setup.clone(), s("(function Zg (i64 i64) bool :merge (or old new))"), vec![s("(set (Zg 0) 5)"), s("(check (= (Zg 0) 5))"), s("(set (Zg 0 0) true)")]),
        25 => e("duplicate-ruleset", "ruleset", vec![s("(ruleset Zrs)")], s("(ruleset Zrs)"), vec![s("(ruleset Zrs2)"), s("(run Zrs 1)")]),
        26 => e("sort-named-like-function", "sort", vec![], format!("(sort {f})"), vec![s("(sort ZS)"), fa.clone()]),
        27 => e("constructor-named-like-sort", "constructor", vec![], format!("(constructor {s0} ({s0}) {s0})"), vec![format!("(constructor Zc ({s0}) {s0})"), format!("(Zc {a0})")]),
        28 => e("function-named-like-primitive", "function", vec![], s("(function + (i64) i64 :no-merge)"), vec![s("(check (= (+ 1 1) 2))"), s("(function Zf (i64) i64 :no-merge)")]),
        29 => e("relation-named-like-ruleset", "relation", vec![s("(ruleset Zrs)")], s("(relation Zrs (i64))"), vec![s("(relation Zr2 (i64))"), s("(Zrs 1)"), s("(run Zrs 1)")]),
        30 => e("ruleset-named-like-sort", "ruleset", vec![], format!("(ruleset {s0})"), vec![s("(ruleset Zrs9)"), format!("(run {s0} 1)")]),
        31 => e(
            "duplicate-rule-name",
            "rule",
            vec![format!("(rule ((= zx ({f} zy))) () :name \"zdup\")")],
            format!("(rule ((= zx ({f} zy))) ((union zx zy)) :name \"zdup\")"),
            vec![format!("(rule ((= zx ({f} zy))) () :name \"zdup2\")"), s("(run 1)")],
        ),
        32 => e("bad-merge-unknown-function", "function", vec![], s("(function Zf (i64) i64 :merge (bogus old new))"), zf_after()),
        33 => e("bad-merge-wrong-type", "function", vec![], s("(function Zf (i64) i64 :merge (or old new))"), zf_after()),
        34 => e("bad-merge-unbound-name", "function", vec![], s("(function Zf (i64) i64 :merge (min old zq))"), zf_after()),
        35 => e("function-undefined-output-sort", "function", vec![], s("(function Zf (i64) Bogus :no-merge)"), zf_after()),
        36 => e("function-undefined-input-sort", "function", vec![], s("(function Zf (Bogus) i64 :no-merge)"), zf_after()),
        37 => e("unknown-presort", "sort", vec![], format!("(sort ZK (Bogus {s0}))"), zk_after()),
        38 => e("presort-undefined-argument", "sort", vec![], s("(sort ZK (Vec Bogus))"), zk_after()),
        39 => e("presort-wrong-arity", "sort", vec![], format!("(sort ZK (Vec {s0} {s0}))"), zk_after()),
        40 => e("presort-map-one-argument", "sort", vec![], format!("(sort ZK (Map {s0}))"), zk_after()),
        41 => e("unknown-ruleset-in-run", "run", vec![], s("(run bogus 1)"), vec![s("(run 1)")]),
        42 => e("unknown-ruleset-in-schedule", "run-schedule", vec![], s("(run-schedule (seq (run) (run bogus)))"), vec![s("(run-schedule (seq (run)))")]),
        43 => e("unknown-ruleset-in-rule", "rule", vec![], format!("(rule ((= zx ({f} zy))) ((union zx zy)) :ruleset bogus)"), vec![rule_ok.clone(), s("(run 1)")]),
        44 => e(
            "rule-into-combined-ruleset",
            "rule",
            vec![s("(ruleset Zr1)"), s("(ruleset Zr2)"), s("(unstable-combined-ruleset Zcomb Zr1 Zr2)")],
            format!("(rule ((= zx ({f} zy))) ((union zx zy)) :ruleset Zcomb)"),
            vec![format!("(rule ((= zx ({f} zy))) ((union zx zy)) :ruleset Zr1)"), s("(run Zcomb 1)")],
        ),
        45 => e("combined-ruleset-unknown-member", "unstable-combined-ruleset", vec![], s("(unstable-combined-ruleset Zc2 bogus)"), vec![s("(run Zc2 1)"), s("(ruleset Zr3)")]),
        46 => e("constructor-non-eq-output", "constructor", vec![], s("(constructor Zc (i64) i64)"), vec![format!("(constructor Zc (i64) {s0})"), s("(Zc 1)")]),
        47 => e("datatype-undefined-field-sort", "datatype", vec![], s("(datatype ZD (ZA Bogus))"), vec![s("(datatype ZD (ZA i64))"), s("(ZA 1)")]),
        48 => e("datatype-duplicate-variant", "datatype", vec![], s("(datatype ZD (ZA i64) (ZA i64))"), vec![s("(datatype ZD (ZA i64) (ZB i64))"), s("(ZB 1)")]),
        49 => e("datatype-variant-named-like-constructor", "datatype", vec![], format!("(datatype ZD ({f} i64))"), vec![s("(datatype ZD (ZA i64))"), fa.clone()]),
        50 => e("datatype*-undefined-field-sort", "datatype*", vec![], s("(datatype* (ZD (ZA ZE)) (ZE (ZB Bogus)))"), vec![s("(datatype* (ZD (ZA ZE)) (ZE (ZB i64)))"), s("(ZA (ZB 1))")]),
        51 => e("pop-without-push", "pop", vec![], s("(pop)"), vec![]),
        52 => e("check-unknown-function", "check", vec![], s("(check (Bogus 1))"), vec![s("(check (= 1 1))")]),
        53 => e("check-wrong-type", "check", vec![], format!("(check (= {a0} 1))"), vec![format!("(check (= {a0} {a0}))")]),
        54 => e("extract-negative-variants", "extract", vec![], format!("(extract {a0} -1)"), vec![format!("(extract {a0} 1)")]),
        55 => e("fail-of-valid-command", "fail", vec![], s("(fail (check (= 1 1)))"), vec![s("(fail (check (= 1 2)))")]),
        56 => e("fail-of-ill-typed-command", "fail", vec![], format!("(fail ({f} 1))"), vec![s("(fail (check (= 1 2)))")]),
        57 => e("print-function-unknown", "print-function", vec![], s("(print-function Bogus 5)"), vec![format!("(print-function {f} 5)")]),
        58 => e("print-size-unknown", "print-size", vec![], s("(print-size Bogus)"), vec![format!("(print-size {f})")]),
        59 => e("input-unknown-function", "input", vec![], format!("(input Bogus \"{}\")", scratch_file("in0.csv")), vec![]),
        60 => e("set-unknown-function", "action", vec![], s("(set (Bogus 1) 2)"), vec![]),
        61 => e("delete-unknown-function", "action", vec![], s("(delete (Bogus 1))"), vec![format!("(delete {fa})")]),
        62 => e("rewrite-unbound-rhs-var", "rewrite", vec![], format!("(rewrite ({f} zx) ({f} zq))"), vec![format!("(rewrite ({f} ({f} zx)) ({f} zx))"), s("(run 1)")]),
        63 => e("let-in-rule-redefines-var", "rule", vec![], format!("(rule ((= zx ({f} zy))) ((let zx zy)))"), vec![format!("(rule ((= zx ({f} zy))) ((let zl zy)))")]),
        64 => e("subsume-function-with-merge", "action", zg_setup.clone(), s("(subsume (Zg 0))"), vec![s("(set (Zg 0) 3)"), s("(check (= (Zg 0) 3))")]),
        65 => e("prove-exists-unknown", "prove-exists", vec![], s("(prove-exists Bogus)"), vec![]),
        66 => e(
            "merge-unresolved-unstable-fn",
            "function",
            vec![s("(sort ZFn (UnstableFn (i64) i64))")],
            s("(function Zh () ZFn :merge (unstable-fn \"bogus\"))"),
            vec![s("(function Zh () ZFn :merge old)"), s("(set (Zh) (unstable-fn \"abs\"))"), s("(check (= (unstable-app (Zh) -2) 2))")],
        ),
        67 => e("relation-undefined-sort", "relation", vec![], s("(relation Zr (Bogus))"), vec![s("(relation Zr (i64))"), s("(Zr 1)")]),
        68 => e("sort-named-like-base-sort", "sort", vec![], s("(sort i64)"), vec![s("(sort ZS)"), s("(check (= 1 1))")]),
        69 => e("let-with-ill-typed-expr", "let", vec![], format!("(let $zg ({f} 1))"), vec![format!("(let $zg {fa})"), format!("(check (= $zg {fa}))")]),
        70 => e("global-used-as-function-name", "constructor", glob_setup.clone(), format!("(constructor $zg () {s0})"), vec![format!("(check (= $zg {a0}))"), format!("(constructor Zc2 () {s0})")]),
        71 => e("delete-in-rule-unknown-function", "rule", vec![], format!("(rule ((= zx ({f} zy))) ((delete (Bogus zy))))"), vec![format!("(rule ((= zx ({f} zy))) ((delete ({f} zy))))")]),
        // re-binding an existing global with a value of ANOTHER sort: rejected (shadowing), and the global must keep its sort
        72 => e("shadow-global-twice-other-sort", "let", glob_setup.clone(), s("(let $zg 1)"), vec![format!("(check (= $zg {a0}))"), s("(extract $zg)"), format!("(union $zg {a1})"), format!("(let $zh {a1})")]),
        _ => e("shadow-primitive-global-other-sort", "let", vec![s("(let $zi 1)")], s("(let $zi \"one\")"), vec![s("(extract $zi)"), s("(check (= $zi 1))"), s("(let $zj (+ $zi 1))")]),
    }
}

/// The generator's "closed ruleset" bookkeeping does not see values computed in a rule BODY
/// (`(= z (+ x 2))` with `z` used in the head), so a generated `(saturate ..)` may diverge. This property does
/// not need saturation: every saturate becomes `(repeat 3 ..)` (an input must never make the engine run forever).
fn tame(prog: &mut Prog) {
    fn go(s: &mut Sched) {
        match s {
            Sched::Saturate(xs) => {
                xs.iter_mut().for_each(go);
                *s = Sched::Repeat(3, std::mem::take(xs));
            }
            Sched::Repeat(_, xs) | Sched::Seq(xs) => xs.iter_mut().for_each(go),
            Sched::Run { .. } => {}
        }
    }
    for c in prog.cmds.iter_mut() {
        if let Cmd::Sched(s) = c {
            go(s);
        }
    }
}

#[derive(Clone, Debug, Serialize, Deserialize)]
pub struct TmCase {
    pub mode: u8,
    pub prog: Prog,
    pub entry: usize,
    /// None: every position; Some(p): only position p (used while shrinking)
    pub only_pos: Option<usize>,
}

struct Typed {
    cfg: GenCfg,
}

fn typed_cfg() -> GenCfg {
    GenCfg { max_cmds: 7, min_cmds: 2, subsume: true, delete: true, push_pop: true, extract_cmds: true, max_run: 2, ..GenCfg::default() }
}

fn atoms_of(text: &str, out: &mut Vec<String>) {
    fn go(f: &Sx, out: &mut Vec<String>) {
        match f {
            Sx::A(a) => {
                if !KEYWORDS.contains(&a.as_str()) && !a.starts_with(':') && !out.contains(a) {
                    out.push(a.clone())
                }
            }
            Sx::L(l) => l.iter().for_each(|x| go(x, out)),
        }
    }
    lex_forms(text).0.iter().for_each(|f| go(f, out));
}

struct Step {
    res: Res,
    dump: eng::CanonDump,
}

impl Typed {
    fn session(&self, c: &TmCase) -> (Vec<String>, Entry, usize) {
        let ent = entry(&c.prog.sig, c.entry);
        let mut s = c.prog.sig.prelude();
        s.extend(ent.setup.iter().cloned());
        let n_decl = s.len();
        s.extend(c.prog.cmd_texts());
        (s, ent, n_decl)
    }

    /// one position. Returns false when the case is decided (failure recorded).
    fn position(&self, c: &TmCase, sess: &[String], ent: &Entry, base: &[Step], base0: &eng::CanonDump, p: usize, out: &mut Outcome, reached_tc: &mut bool) -> bool {
        let mode = c.mode % 3;
        let mname = MODES[mode as usize];
        let label = ent.label;
        let ctx = |what: &str| format!("[{mname}] entry `{label}`, bad command `{}` inserted at position {p} of {}: {what}", ent.bad, sess.len());
        // ---- A: S1 ; bad ; S2
        let mut a = mk(mode);
        for t in &sess[..p] {
            if let Res::Panic(pn) = exec(&mut a, t) {
                out.fail(panic_root(&pn), ctx(&format!("prefix command `{t}` panicked: {pn}")));
                return false;
            }
        }
        let rb = exec(&mut a, &ent.bad);
        let stat = match &rb {
            Res::Panic(pn) => {
                out.fail(panic_root(pn), ctx(&format!("the bad command panicked: {pn}")));
                return false;
            }
            Res::Ok(_) => {
                out.class(format!("{label}|accepted"));
                out.class(format!("mode:{mname}|accepted"));
                false
            }
            Res::Err(k @ (ErrKind::Static | ErrKind::Pop), l, _) => {
                out.class(format!("{label}|rejected:{l}"));
                out.class(format!("mode:{mname}|rejected-{:?}", k));
                if l != "ParseError" {
                    *reached_tc = true;
                }
                true
            }
            Res::Err(k, l, _) => {
                out.class(format!("{label}|runtime:{l}"));
                out.class(format!("mode:{mname}|failed-{:?}", k));
                false
            }
        };
        if !stat {
            // accepted or failed during execution: later commands must not panic, the database stays readable
            for t in ent.after.iter().chain(sess[p..].iter()) {
                if let Res::Panic(pn) = exec(&mut a, t) {
                    out.fail(panic_root(&pn), ctx(&format!("(bad command: {}) later command `{t}` panicked: {pn}", rb.short())));
                    return false;
                }
            }
            if mode == 0 {
                if let Some(v) = crate::inv::check_all(&a) {
                    out.fail(format!("{}-after-failed-command", v.sig), ctx(&format!("(bad command: {}) at the end of the session: {}", rb.short(), v.detail)));
                    return false;
                }
            }
            return true;
        }
        // oracle 2: no observable effect, after the bad command and after every command of S2
        let before = if p == 0 { base0 } else { &base[p - 1].dump };
        let d = eng::canon_dump(&a);
        if d != *before {
            out.fail(format!("partial-effect:{}:database-changed", ent.kind), ctx(&format!("rejected ({}) but the database changed (left: before, right: after):\n{}", rb.short(), before.diff(&d))));
            return false;
        }
        for (i, t) in sess[p..].iter().enumerate() {
            let r = exec(&mut a, t);
            if let Res::Panic(pn) = &r {
                out.fail(panic_root(pn), ctx(&format!("rejected ({}); then session command #{} `{t}` panicked: {pn}", rb.short(), p + i)));
                return false;
            }
            let b = &base[p + i];
            if r.observable() != b.res.observable() {
                out.fail(
                    format!("partial-effect:{}:later-result-differs", ent.kind),
                    ctx(&format!("rejected ({}); then session command #{} `{t}` gives {} but {} without the rejected command", rb.short(), p + i, r.short(), b.res.short())),
                );
                return false;
            }
            let d = eng::canon_dump(&a);
            if d != b.dump {
                out.fail(
                    format!("partial-effect:{}:later-database-differs", ent.kind),
                    ctx(&format!("rejected ({}); after session command #{} `{t}` the database differs (left: without the rejected command, right: with it):\n{}", rb.short(), p + i, b.dump.diff(&d))),
                );
                return false;
            }
        }
        out.count("positions_compared", 1);
        if ent.after.is_empty() {
            return true;
        }
        // oracle 3: B = S1 ; bad ; after.. ; S2   versus   C = S1 ; after.. ; S2
        let mut b = mk(mode);
        let mut cc = mk(mode);
        for t in &sess[..p] {
            exec(&mut b, t);
            exec(&mut cc, t);
        }
        exec(&mut b, &ent.bad);
        let full = mode == 0;
        let tail: Vec<&String> = if full { ent.after.iter().chain(sess[p..].iter()).collect() } else { ent.after.iter().collect() };
        for (i, t) in tail.iter().enumerate() {
            let r1 = exec(&mut b, t);
            let r2 = exec(&mut cc, t);
            let which = if i < ent.after.len() { if i == 0 { "corrected command" } else { "follow-up command" } } else { "session command" };
            if let Res::Panic(pn) = &r1 {
                out.fail(panic_root(pn), ctx(&format!("rejected ({}); then {which} `{t}` panicked: {pn}", rb.short())));
                return false;
            }
            if let Res::Panic(pn) = &r2 {
                out.fail(panic_root(pn), ctx(&format!("(without the bad command) {which} `{t}` panicked: {pn}")));
                return false;
            }
            if r1.observable() != r2.observable() {
                let what = match (&r1, &r2) {
                    (Res::Err(_, l, m), Res::Ok(_)) if l.contains("AlreadyBound") || m.contains("already") || l == "Shadowing" => "name-left-bound",
                    (Res::Err(..), Res::Ok(_)) => "later-command-refused",
                    (Res::Ok(_), Res::Err(..)) => "later-command-wrongly-accepted",
                    _ => "later-result-differs",
                };
                out.fail(
                    format!("partial-effect:{}:{what}", ent.kind),
                    ctx(&format!("rejected ({}); then the {which} `{t}` gives {}, but {} in the same session without the rejected command", rb.short(), r1.short(), r2.short())),
                );
                return false;
            }
            if i == 0 {
                out.class(format!("{label}|twin:{}", if matches!(r2, Res::Ok(_)) { "ok" } else { "err" }));
            }
        }
        let (d1, d2) = (eng::canon_dump(&b), eng::canon_dump(&cc));
        if d1 != d2 {
            out.fail(
                format!("partial-effect:{}:later-database-differs", ent.kind),
                ctx(&format!("rejected ({}); after the follow-ups {:?} and the rest of the session the databases differ (left: with the rejected command, right: without):\n{}", rb.short(), ent.after, d1.diff(&d2))),
            );
            return false;
        }
        true
    }
}

impl Stage for Typed {
    type Input = TmCase;
    fn name(&self) -> &'static str {
        "typed-mutations"
    }
    fn decode(&self, src: &mut Src) -> TmCase {
        let mode = src.pick_weighted(&[8, 1, 1]) as u8;
        let entry = src.below(N_ENTRIES);
        let mut prog = Gen::new(src, self.cfg.clone()).gen_prog();
        prog.cmds.truncate(10);
        tame(&mut prog);
        TmCase { mode, prog, entry, only_pos: None }
    }
    fn render(&self, c: &TmCase) -> serde_json::Value {
        let (s, ent, _) = self.session(c);
        serde_json::json!({"mode": MODES[c.mode as usize % 3], "entry": ent.label, "bad": ent.bad, "follow_ups": ent.after, "position": c.only_pos, "session": s})
    }
    fn simplify(&self, c: &TmCase) -> Vec<TmCase> {
        let mut v = vec![];
        if c.only_pos.is_none() {
            let (s, _, _) = self.session(c);
            for p in (0..=s.len()).rev() {
                v.push(TmCase { only_pos: Some(p), ..c.clone() });
            }
        }
        for q in simplify_prog(&c.prog) {
            let dropped = c.prog.cmds.len().saturating_sub(q.cmds.len());
            v.push(TmCase { prog: q.clone(), only_pos: None, ..c.clone() });
            if let Some(p) = c.only_pos {
                v.push(TmCase { prog: q, only_pos: Some(p.saturating_sub(dropped)), ..c.clone() });
            }
        }
        if c.mode != 0 {
            v.push(TmCase { mode: 0, ..c.clone() });
        }
        v
    }
    fn check(&self, c: &TmCase) -> Outcome {
        let _flight = flight("typed-mutations", c);
        let mode = c.mode % 3;
        let (sess, ent, n_decl) = self.session(c);
        let mut out = Outcome::new(mix(fnv_str(&sess.join("\n")), (c.entry as u64) << 2 | mode as u64));
        // baseline S1;S2 with a dump after every command
        let mut eg = mk(mode);
        let base0 = eng::canon_dump(&eg);
        let mut base: Vec<Step> = vec![];
        for (i, t) in sess.iter().enumerate() {
            let r = exec(&mut eg, t);
            match &r {
                Res::Panic(p) => {
                    out.fail(panic_root(p), format!("[{}] valid session command #{i} `{t}` panicked: {p}", MODES[mode as usize]));
                    return out;
                }
                Res::Err(ErrKind::Static, l, m) if mode == 0 && i < n_decl => {
                    out.class("gen-invalid-decl");
                    if std::env::var("VERIF_DEBUG").is_ok() {
                        eprintln!("declaration rejected: {t}: {l}: {m}");
                    }
                }
                _ => {}
            }
            base.push(Step { res: r, dump: eng::canon_dump(&eg) });
        }
        let positions: Vec<usize> = match c.only_pos {
            Some(p) => vec![p.min(sess.len())],
            None if mode == 0 => (0..=sess.len()).collect(),
            // the encodings are an order of magnitude slower: a spread of positions, all covered over many cases
            None => {
                let k = out.key as usize;
                let mut v = vec![sess.len(), n_decl.min(sess.len()), k % (sess.len() + 1), (k / 7) % (sess.len() + 1)];
                v.sort();
                v.dedup();
                v
            }
        };
        let mut reached_tc = false;
        for p in &positions {
            out.count(format!("pos-decile-{}", p * 10 / (sess.len() + 1)), 1);
            if !self.position(c, &sess, &ent, &base, &base0, *p, &mut out, &mut reached_tc) {
                return out;
            }
        }
        // non-trivial: the bad command reached the type checker at a position with non-empty S1, and what follows
        // (S2 or the follow-ups) mentions a name the bad command mentioned
        let mut bad_names = vec![];
        atoms_of(&ent.bad, &mut bad_names);
        let mut later = vec![];
        for t in ent.after.iter().chain(sess.iter().skip(n_decl)) {
            atoms_of(t, &mut later);
        }
        let shares = bad_names.iter().any(|n| later.contains(n));
        out.nontrivial = reached_tc && shares && positions.iter().any(|p| *p >= 1);
        out
    }
}

// ---------------------------------------------------------------------------------------------
// stage (c): commands failing during execution
// ---------------------------------------------------------------------------------------------

#[derive(Clone, Debug, Serialize, Deserialize)]
pub struct RtCase {
    pub mode: u8,
    pub prog: Prog,
}

struct Runtime {
    cfg: GenCfg,
}

fn runtime_cfg() -> GenCfg {
    GenCfg { max_cmds: 16, min_cmds: 5, subsume: true, delete: true, containers: true, push_pop: true, extract_cmds: true, faults: true, panics: true, ..GenCfg::default() }
}

impl Stage for Runtime {
    type Input = RtCase;
    fn name(&self) -> &'static str {
        "runtime-failures"
    }
    fn decode(&self, src: &mut Src) -> RtCase {
        let mode = src.pick_weighted(&[6, 1, 1]) as u8;
        let mut prog = Gen::new(src, self.cfg.clone()).gen_prog();
        tame(&mut prog);
        RtCase { mode, prog }
    }
    fn render(&self, c: &RtCase) -> serde_json::Value {
        serde_json::json!({"mode": MODES[c.mode as usize % 3], "session": c.prog.text().lines().collect::<Vec<_>>()})
    }
    fn simplify(&self, c: &RtCase) -> Vec<RtCase> {
        let mut v: Vec<RtCase> = simplify_prog(&c.prog).into_iter().map(|p| RtCase { mode: c.mode, prog: p }).collect();
        if c.mode != 0 {
            v.push(RtCase { mode: 0, prog: c.prog.clone() });
        }
        v
    }
    fn check(&self, c: &RtCase) -> Outcome {
        let _flight = flight("runtime-failures", c);
        let mode = c.mode % 3;
        let mname = MODES[mode as usize];
        let mut out = Outcome::new(mix(fnv_str(&c.prog.text()), mode as u64));
        let mut eg = mk(mode);
        let mut failed_at: Option<usize> = None;
        let mut continued = false;
        let texts: Vec<String> = c.prog.sig.prelude().into_iter().chain(c.prog.cmd_texts()).collect();
        for (i, t) in texts.iter().enumerate() {
            let r = exec(&mut eg, t);
            match &r {
                Res::Panic(p) => {
                    let after = failed_at.map(|k| format!(" (after command #{k} `{}` had failed during execution)", texts[k])).unwrap_or_default();
                    out.fail(panic_root(p), format!("[{mname}] command #{i} `{t}` panicked{after}: {p}"));
                    return out;
                }
                Res::Err(ErrKind::Runtime, l, _) => {
                    out.class(format!("{mname}|runtime-failure:{l}"));
                    if failed_at.is_none() {
                        failed_at = Some(i);
                    }
                }
                Res::Err(k, _, _) => {
                    out.class(format!("{mname}|{:?}", k));
                    if failed_at.is_some() {
                        continued = true;
                    }
                }
                Res::Ok(_) => {
                    if failed_at.is_some() {
                        continued = true;
                    }
                }
            }
            // consistent afterwards (the canonicity predicate is about the plain database, not the term encoding)
            if mode == 0 {
                if let Some(v) = crate::inv::check_all(&eg) {
                    let ctx = if failed_at.is_some() { "-after-runtime-failure" } else { "" };
                    out.fail(format!("{}{}", v.sig, ctx), format!("[{mname}] after command #{i} `{t}` ({}): {}", r.short(), v.detail));
                    return out;
                }
            } else if let Err(p) = catch(|| eng::canon_dump(&eg)) {
                out.fail(panic_root(&p), format!("[{mname}] after command #{i} `{t}` ({}) reading the database panicked: {p}", r.short()));
                return out;
            }
        }
        if failed_at.is_some() && continued {
            out.class(format!("{mname}|failure-then-further-commands"));
        }
        out.nontrivial = failed_at.is_some() && continued;
        out
    }
}

// ---------------------------------------------------------------------------------------------
// stage (d): the REPL protocol
// ---------------------------------------------------------------------------------------------

#[derive(Clone, Debug, Serialize, Deserialize)]
pub struct ReplCase {
    pub mode: u8,
    /// one complete (balanced) chunk per line
    pub lines: Vec<String>,
}

struct Repl {
    cfg: GenCfg,
}

const JUNK_LINES: &[&str] = &["xyz", "42", "\"str\"", "()", "(())", "", "; just a comment", "(push) (pop)", "(check (= 1 1)) (bogus-command)", "(let)", ":merge", "(run)", "(sort)"];

impl Stage for Repl {
    type Input = ReplCase;
    fn name(&self) -> &'static str {
        "repl"
    }
    fn decode(&self, src: &mut Src) -> ReplCase {
        let mode = src.pick_weighted(&[6, 1, 1]) as u8;
        let mut prog = Gen::new(src, self.cfg.clone()).gen_prog();
        tame(&mut prog);
        let mut lines: Vec<String> = prog.sig.prelude();
        let n_decl = lines.len();
        lines.extend(prog.cmd_texts());
        let k = 1 + src.below(3);
        for _ in 0..k {
            let ent = entry(&prog.sig, src.below(N_ENTRIES));
            let at = if src.chance(3, 4) { n_decl + src.below(lines.len() - n_decl + 1) } else { src.below(lines.len() + 1) };
            let mut ins: Vec<String> = ent.setup.clone();
            ins.push(ent.bad.clone());
            if src.bool() {
                ins.extend(ent.after.iter().cloned());
            }
            for (j, l) in ins.into_iter().enumerate() {
                lines.insert(at + j, l);
            }
        }
        if src.chance(1, 2) {
            let at = src.below(lines.len() + 1);
            lines.insert(at, (*src.pick(JUNK_LINES)).to_string());
        }
        ReplCase { mode, lines }
    }
    fn simplify(&self, c: &ReplCase) -> Vec<ReplCase> {
        let mut v = vec![];
        if c.lines.len() > 1 {
            let mut d = c.clone();
            d.lines.truncate(c.lines.len() / 2);
            v.push(d);
        }
        for i in (0..c.lines.len()).rev() {
            let mut d = c.clone();
            d.lines.remove(i);
            v.push(d);
        }
        if c.mode != 0 {
            v.push(ReplCase { mode: 0, lines: c.lines.clone() });
        }
        v
    }
    fn check(&self, c: &ReplCase) -> Outcome {
        let _flight = flight("repl", c);
        let mode = c.mode % 3;
        let mname = MODES[mode as usize];
        let mut out = Outcome::new(mix(fnv_str(&c.lines.join("\n")), mode as u64));
        // lines must be complete chunks (that is how this stage drives the protocol)
        let lines: Vec<String> = c.lines.iter().map(|l| l.replace('\n', " ")).filter(|l| lex_forms(l).1 && !dangerous(l) && paren_depth(l) <= MAX_DEPTH_IN_PROCESS).collect();
        // reference: the same chunks through parse_and_run_program, one by one
        let mut reference = mk(mode);
        let mut expected: Vec<(bool, Option<String>)> = vec![];
        for l in &lines {
            match eng::run_raw(&mut reference, l) {
                Ok(Ok(outs)) => {
                    let stable = outs.iter().all(|o| !matches!(o, egglog::CommandOutput::RunSchedule(_) | egglog::CommandOutput::OverallStatistics(_)));
                    let text: String = outs.iter().map(|o| o.to_string()).collect();
                    expected.push((true, if stable { Some(text) } else { None }));
                }
                Ok(Err(_)) => expected.push((false, Some(String::new()))),
                Err(p) => {
                    if tolerated_panic(&p).is_some() {
                        return out;
                    }
                    out.fail(panic_root(&p), format!("[{mname}] chunk `{l}` panicked in parse_and_run_program: {p}"));
                    return out;
                }
            }
        }
        let input = lines.iter().map(|l| format!("{l}\n")).collect::<String>();
        let mut eg = mk(mode);
        let mut buf: Vec<u8> = vec![];
        match catch(|| eg.repl_with(input.as_bytes(), &mut buf, egglog::RunMode::Interactive, false)) {
            Err(p) => {
                out.fail(panic_root(&p), format!("[{mname}] the REPL panicked: {p}"));
                return out;
            }
            Ok(Err(e)) => {
                out.fail("repl-io-error", format!("[{mname}] the REPL returned an I/O error on an in-memory channel: {e}"));
                return out;
            }
            Ok(Ok(())) => {}
        }
        let text = String::from_utf8_lossy(&buf).to_string();
        // split the transcript at the protocol lines
        let mut chunks: Vec<(bool, String)> = vec![];
        let mut cur = String::new();
        for l in text.split_inclusive('\n') {
            let t = l.trim_end_matches('\n');
            if t == "(done)" || t == "(error)" {
                chunks.push((t == "(done)", std::mem::take(&mut cur)));
            } else {
                cur.push_str(l);
            }
        }
        if !cur.is_empty() {
            out.fail("repl-protocol:trailing-output", format!("[{mname}] output after the last (done)/(error) line: {:?}", excerpt(&cur, 300)));
            return out;
        }
        if chunks.len() != expected.len() {
            out.fail(
                "repl-protocol:marker-count",
                format!("[{mname}] {} chunks were sent, the REPL printed {} (done)/(error) lines\ninput:\n{}\ntranscript:\n{}", expected.len(), chunks.len(), excerpt(&input, 2000), excerpt(&text, 2000)),
            );
            return out;
        }
        let mut saw_error = false;
        let mut done_after_error = false;
        for (i, ((ok, body), (eok, ebody))) in chunks.iter().zip(expected.iter()).enumerate() {
            if ok != eok {
                out.fail(
                    "repl-protocol:wrong-marker",
                    format!("[{mname}] chunk #{i} `{}`: the REPL printed {} but parse_and_run_program on an identical session {}", lines[i], if *ok { "(done)" } else { "(error)" }, if *eok { "succeeds" } else { "fails" }),
                );
                return out;
            }
            if let Some(eb) = ebody {
                if eb != body {
                    out.fail("repl-protocol:output-differs", format!("[{mname}] chunk #{i} `{}`: REPL output {:?}, expected {:?}", lines[i], excerpt(body, 400), excerpt(eb, 400)));
                    return out;
                }
            }
            if !*ok {
                saw_error = true;
                out.count("repl_error_lines", 1);
            } else {
                out.count("repl_done_lines", 1);
                if saw_error {
                    done_after_error = true;
                }
            }
        }
        out.class(format!("{mname}|{}", if done_after_error { "done-after-error" } else if saw_error { "error-only-at-end" } else { "no-error" }));
        out.nontrivial = done_after_error && lines.len() >= 3;
        out
    }
}

// ---------------------------------------------------------------------------------------------

pub fn replay(rep: &Report, stage: &str, j: &serde_json::Value) -> i32 {
    match stage {
        "bytes" => crate::registry::replay_stage(rep, &Bytes, j),
        "deep" => crate::registry::replay_stage(rep, &Deep, j),
        "typed-mutations" => crate::registry::replay_stage(rep, &Typed { cfg: typed_cfg() }, j),
        "runtime-failures" => crate::registry::replay_stage(rep, &Runtime { cfg: runtime_cfg() }, j),
        "repl" => crate::registry::replay_stage(rep, &Repl { cfg: typed_cfg() }, j),
        _ => 2,
    }
}

fn run_deep(rep: &Report) {
    let depths: Vec<usize> = match rep.tier {
        Tier::Quick => vec![2_000, 100_000],
        Tier::Thorough => vec![500, 2_000, 10_000, 30_000, 100_000, 300_000],
    };
    let mut jobs: Vec<DeepCase> = vec![];
    for site in DEEP_SITES {
        for d in &depths {
            if *site == "resource-vec-range" && *d != depths[0] {
                continue;
            }
            jobs.push(DeepCase { site: site.to_string(), depth: *d, mode: 0 });
        }
    }
    // the encodings share the reader; a few sites there as well
    for site in ["action-expr", "rule-body", "schedule-seq"] {
        for mode in [1u8, 2] {
            jobs.push(DeepCase { site: site.to_string(), depth: depths[depths.len() / 2], mode });
        }
    }
    let next = std::sync::atomic::AtomicUsize::new(0);
    std::thread::scope(|sc| {
        for _ in 0..(rep.threads / 2).clamp(1, 8) {
            sc.spawn(|| loop {
                let i = next.fetch_add(1, std::sync::atomic::Ordering::Relaxed);
                if i >= jobs.len() {
                    break;
                }
                // known findings keep the search going; an unknown abort stops the run like any violation
                rep.run_one(&Deep, &jobs[i]);
            });
        }
    });
}

pub fn run(rep: &Report) {
    rep.set_rule(
        "stage bytes: cases = 1-6 texts (a small tests/*.egg or tests/fail-typecheck/*.egg file cut into chunks or taken whole, with 0-4 tree mutations each: splice a subtree of another file, delete / duplicate / swap / wrap / unwrap a subtree, replace an atom by a dictionary word (every command keyword and option name, sorts, primitives) or an odd literal (i64 edge values, NaN, unicode, NUL, 20k-char atoms, broken strings); then optionally one text mutation: drop/add a paren, drop a quote, truncate, insert an odd char; or 1-5 grammar-ish random commands over a small valid prelude) fed through parse_and_run_program to a fresh or ONE long-lived e-graph in plain, term-encoding or proof mode. Oracle: no panic; on the long-lived plain e-graph `(check (= 1 1))` still succeeds. Sanitised by construction (counted): run/repeat/push/pop counts capped, saturate -> repeat 2, file names redirected into a scratch directory, vec-range/<</pow with large or computed sizes neutralised, nesting > 150 skipped (deep nesting goes to child processes: stage deep). non-trivial = at least one input parsed into >= 1 command. \
         stage typed-mutations: cases = (generated typed session S of declarations + 2-10 commands, ONE of 72 catalogue entries building an ill-formed command from the session's own signature, mode); the bad command is inserted at EVERY position of S (4 positions in the slower encodings); when it is rejected before execution (ErrKind Static/Pop): (2) result and canonical dump after the bad command and after EVERY later command equal those of S alone, (3) the follow-ups of the entry (corrected twin of the bad command, uses of the names it mentioned) and then the rest of S behave exactly as in the same session without the bad command. Accepted / failing-at-run-time entries are only classes (no panic, inv::check_all at the end). non-trivial = the bad command reached the type checker (not a parse error) at a position with non-empty S1 and a later command mentions a name it mentioned. \
         stage runtime-failures: generated sessions with faults (rule panics, :no-merge conflicts, failing primitives, failed lookups): no later command panics, inv::check_all holds after every command (plain mode), the read API does not panic (encodings). non-trivial = a command failed during execution and further commands followed. \
         stage repl: the session with 1-3 catalogue entries and a junk line, one chunk per line, through EGraph::repl_with(.., Interactive, false): exactly one (done)/(error) line per chunk, the same verdicts and outputs as parse_and_run_program chunk by chunk, no panic. non-trivial = a (done) after an (error), >= 3 chunks. \
         stage deep: 19 syntactic positions nested 2k-300k deep (plus one resource probe), each in a child process; a killed child is a finding abort:deep-nesting:<class>.",
    );
    rep.assume("tests/no_panic.rs documents the todo!() for log/cbrt of a bigrat as intentional: those two panics are tolerated (class documented-todo-bigrat)");
    rep.assume("memory/time exhaustion by legitimately huge requests ((run 10^9), saturate of a diverging ruleset, (push 10^6), (<< (bigint 1) 10^9)) is outside the property; such inputs are neutralised by construction and counted");
    rep.assume("a command that fails during execution may leave its partial effect (e.g. (fail <valid command>), (pop 2) at depth 1, extract -1 after evaluating its term): only usability/consistency is required there");
    let _ = scratch_dir();
    spawn_slow_case_monitor();
    if corpus().is_empty() {
        rep.note("corpus directory /repo/tests not readable: stage bytes ran on generated inputs only");
    }
    rep.extra("corpus_files", serde_json::json!(corpus().len()));
    {
        let mut src = Src::new(&[]);
        let sig = Gen::new(&mut src, typed_cfg()).gen_prog().sig;
        rep.extra("catalogue_entries", serde_json::json!((0..N_ENTRIES).map(|i| entry(&sig, i).label).collect::<Vec<_>>()));
    }

    let typed = Typed { cfg: typed_cfg() };
    let bytes = Bytes;
    let runtime = Runtime { cfg: runtime_cfg() };
    let repl = Repl { cfg: typed_cfg() };
    rep.run_regressions(&typed);
    rep.run_regressions(&bytes);
    rep.run_regressions(&runtime);
    rep.run_regressions(&repl);
    rep.run_regressions(&Deep);
    // every catalogue entry at least once in every mode, on one fixed small session (deterministic coverage floor)
    {
        let mut src = Src::new(&[]);
        let mut prog = Gen::new(&mut src, typed_cfg()).gen_prog();
        tame(&mut prog);
        for i in 0..N_ENTRIES {
            for mode in 0..3u8 {
                if rep.stopped() {
                    break;
                }
                if mode > 0 && rep.tier == Tier::Quick && i % 3 != (rep.seed % 3) as usize {
                    continue;
                }
                rep.run_one(&typed, &TmCase { mode, prog: prog.clone(), entry: i, only_pos: None });
            }
        }
    }
    let t0 = std::time::Instant::now();
    let lap = |what: &str| rep.note(format!("stage {what} finished at {:.1}s", t0.elapsed().as_secs_f64()));
    lap("golden");
    rep.explore(&typed, rep.tier.pick(1000, 40_000), 500);
    lap("typed-mutations");
    rep.explore(&bytes, rep.tier.pick(3000, 80_000), 400);
    lap("bytes");
    rep.explore(&runtime, rep.tier.pick(800, 20_000), 600);
    lap("runtime-failures");
    rep.explore(&repl, rep.tier.pick(800, 20_000), 500);
    lap("repl");
    if !rep.stopped() {
        run_deep(rep);
    }
    lap("deep");
}
