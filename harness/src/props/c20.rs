//! C20 — single-threaded runs are reproducible bit for bit.
//!
//! The same program is executed twice in-process and in two child processes
//! with different environments (junk variables, different cwd, ASLR on); all
//! rendered command outputs in order, all error strings, every run report with
//! durations zeroed and the final canonical dump are compared byte for byte.

use super::corpus::{run_corpus, Compare, CorpusDiff, Filter};
use crate::choice::{fnv_str, Src};
use crate::fw::{Outcome, Report, Stage};
use crate::pgen::{simplify_prog, Gen, GenCfg};
use crate::prog::Prog;
use crate::runner::{run_in_child, run_text, ChildRun, RunCfg, RunResult};
use std::time::Duration;

pub struct C20;

fn cfg() -> GenCfg {
    GenCfg { containers: true, subsume: true, delete: true, costs: true, extract_cmds: true, push_pop: true, max_cmds: 22, min_cmds: 8, panics: true, faults: true, ..GenCfg::default() }
}

fn run_cfg() -> RunCfg {
    RunCfg { reports: true, final_dump: true, ..RunCfg::default() }
}

pub fn env_variant(i: usize) -> Vec<(String, String)> {
    match i {
        0 => vec![],
        1 => vec![("ZZZ_VERIF_JUNK".into(), "x".repeat(4097)), ("AAA_FIRST".into(), "1".into()), ("LANG".into(), "C".into()), ("TZ".into(), "Pacific/Kiritimati".into())],
        _ => (0..40).map(|k| (format!("VERIF_PAD_{k}"), "y".repeat(k * 13 + 1))).collect(),
    }
}

fn diff(a: &RunResult, b: &RunResult) -> Option<String> {
    if a.parse_error != b.parse_error {
        return Some(format!("parse result: {:?} vs {:?}", a.parse_error, b.parse_error));
    }
    if a.cmds.len() != b.cmds.len() {
        return Some(format!("{} vs {} commands executed", a.cmds.len(), b.cmds.len()));
    }
    for (i, (x, y)) in a.cmds.iter().zip(b.cmds.iter()).enumerate() {
        if x != y {
            return Some(format!("command #{i} `{}`:\n  run A: {} {:?} {}\n  run B: {} {:?} {}", x.text, x.res, x.out, x.err, y.res, y.out, y.err));
        }
    }
    if a.reports != b.reports {
        let i = a.reports.iter().zip(b.reports.iter()).position(|(x, y)| x != y).unwrap_or(0);
        return Some(format!("run report #{i} (durations zeroed) differs:\n  {}\n  {}", a.reports.get(i).cloned().unwrap_or_default(), b.reports.get(i).cloned().unwrap_or_default()));
    }
    if a.dump != b.dump {
        return Some("final canonical dumps differ".into());
    }
    None
}

impl Stage for C20 {
    type Input = Prog;
    fn name(&self) -> &'static str {
        "generated"
    }
    fn decode(&self, src: &mut Src) -> Prog {
        Gen::new(src, cfg()).gen_prog()
    }
    fn render(&self, inp: &Prog) -> serde_json::Value {
        serde_json::json!(inp.text().lines().collect::<Vec<_>>())
    }
    fn simplify(&self, inp: &Prog) -> Vec<Prog> {
        simplify_prog(inp)
    }
    fn check(&self, prog: &Prog) -> Outcome {
        let text = prog.text();
        let mut out = Outcome::new(fnv_str(&text));
        let rc = run_cfg();
        let a = run_text(None, &text, &rc);
        let b = run_text(None, &text, &rc);
        if let Some(d) = diff(&a, &b) {
            out.fail("differs-in-process", format!("two in-process runs differ: {d}"));
            return out;
        }
        if let Some(c) = a.cmds.iter().find(|c| c.res == "panic") {
            // a panic is not a reproducibility question; C09/C04 own it. Stop comparing here.
            out.class("panic-in-program");
            let _ = c;
            return out;
        }
        for i in 1..3 {
            let cwd = if i == 1 { "/tmp" } else { "/" };
            match run_in_child(None, Some(&text), &rc, &env_variant(i), Duration::from_secs(60), Some(cwd)) {
                ChildRun::Done(r) => {
                    out.count("child_runs", 1);
                    if let Some(d) = diff(&a, &r) {
                        out.fail("differs-across-processes", format!("in-process run (A) and child process #{i} (B, other env/cwd/address space) differ: {d}"));
                        return out;
                    }
                }
                ChildRun::Timeout => {
                    out.class("child-timeout");
                    return out;
                }
                ChildRun::Crashed(m) => {
                    out.fail("child-crashed-but-in-process-run-did-not", format!("child #{i} crashed: {m}"));
                    return out;
                }
                ChildRun::Deadlock => {
                    out.fail("child-deadlock", format!("child #{i} quiescent and unfinished"));
                    return out;
                }
                ChildRun::Broken(m) => {
                    out.class(format!("child-broken:{}", m.chars().take(40).collect::<String>()));
                    return out;
                }
            }
        }
        let multi_row = a.cmds.iter().any(|c| c.out.iter().any(|o| o.lines().count() >= 3));
        let extracted = a.cmds.iter().any(|c| c.text.starts_with("(extract") && c.res == "ok");
        if multi_row {
            out.class("multi-row-print");
        }
        if extracted {
            out.class("extraction");
        }
        if a.cmds.iter().any(|c| c.res.starts_with("err:Runtime")) {
            out.class("runtime-error-text-compared");
        }
        out.nontrivial = multi_row || extracted;
        out
    }
}

/// Many rows holding containers whose contents change in place when elements are unioned, followed by
/// print-function / extraction: row order after a rebuild is observable output.
pub struct ContainerRows;

impl Stage for ContainerRows {
    type Input = Prog;
    fn name(&self) -> &'static str {
        "container-rows"
    }
    fn decode(&self, src: &mut Src) -> Prog {
        use crate::prog::*;
        let mut sig = Sig::default();
        sig.sorts.push("S".into());
        let kind = *src.pick(&[ContKind::Vec, ContKind::Set, ContKind::MultiSet]);
        sig.conts.push(ContDecl { name: "K0".into(), kind, elem: Ty::Eq(0) });
        let ctor = |name: &str, args: Vec<Ty>| FuncDecl { name: name.into(), kind: FKind::Ctor { cost: None, unextractable: false }, args, out: Ty::Eq(0) };
        sig.funcs.push(ctor("Num", vec![Ty::I64]));
        sig.funcs.push(ctor("Holds", vec![Ty::Cont(0)]));
        sig.funcs.push(FuncDecl { name: "Seen".into(), kind: FKind::Rel, args: vec![Ty::Cont(0), Ty::I64], out: Ty::I64 });
        let lit = crate::pgen::cont_ctor(kind).to_string();
        let num = |i: i64| Term::App(0, vec![Term::I(i)]);
        let n = 8 + src.below(56) as i64;
        let hot = src.range(0, 3);
        let mut cmds = vec![];
        // the union partner is OLDER than the hot element, so the hot element's id is displaced and every container
        // holding it is rewritten in place
        let partner = 1000 + src.range(0, 3);
        cmds.push(Cmd::Act(Action::Expr(num(partner))));
        for i in 0..n {
            // every container mentions the "hot" element, so one union rewrites all of them in place
            let es = if src.bool() { vec![num(hot), num(10 + i)] } else { vec![num(10 + i), num(hot)] };
            let c = Term::Prim(lit.clone(), es);
            cmds.push(Cmd::Act(Action::Expr(Term::App(1, vec![c.clone()]))));
            if src.chance(1, 3) {
                cmds.push(Cmd::Act(Action::Expr(Term::App(2, vec![c, Term::I(i % 3)]))));
            }
        }
        cmds.push(Cmd::Act(Action::Union(num(hot), num(partner))));
        if src.bool() {
            cmds.push(Cmd::Act(Action::Union(num(10), num(11))));
        }
        cmds.push(Cmd::PrintFunction(1, 500));
        cmds.push(Cmd::PrintFunction(2, 500));
        cmds.push(Cmd::Extract(Term::App(1, vec![Term::Prim(lit.clone(), vec![num(hot), num(10)])]), Some(3)));
        cmds.push(Cmd::PrintSize(None));
        Prog { sig, cmds }
    }
    fn render(&self, inp: &Prog) -> serde_json::Value {
        serde_json::json!(inp.text().lines().collect::<Vec<_>>())
    }
    fn check(&self, prog: &Prog) -> Outcome {
        C20.check(prog)
    }
}

/// A relation that is bulk-loaded, mostly deleted again (so the table compacts before any index on it exists), then
/// joined with a second relation; the join output and the tables are printed. Which index-construction path the
/// engine takes may depend on state left behind by earlier e-graphs on the thread (pools, capacities), and that must
/// not show: the in-process runs see recycled state, the child processes start clean.
pub struct ChurnJoin;

impl Stage for ChurnJoin {
    type Input = Prog;
    fn name(&self) -> &'static str {
        "churn-join"
    }
    fn decode(&self, src: &mut Src) -> Prog {
        use crate::prog::*;
        let mut sig = Sig::default();
        sig.sorts.push("S".into());
        let rel = |name: &str, n: usize| FuncDecl { name: name.into(), kind: FKind::Rel, args: vec![Ty::I64; n], out: Ty::I64 };
        sig.funcs.push(rel("R", 2)); // 0
        sig.funcs.push(rel("Q", 2)); // 1
        sig.funcs.push(rel("T", 2)); // 2
        sig.funcs.push(FuncDecl { name: "Mk".into(), kind: FKind::Ctor { cost: None, unextractable: false }, args: vec![Ty::I64, Ty::I64], out: Ty::Eq(0) }); // 3
        let n = 12 + src.below(70) as i64;
        let m = 3 + src.below(9) as i64;
        let step = 1 + src.below(7) as i64;
        let row = |f: usize, a: i64, b: i64| Cmd::Act(Action::Expr(Term::App(f, vec![Term::I(a), Term::I(b)])));
        let mut cmds = vec![];
        // R: n rows, second column scattered
        let rows: Vec<(i64, i64)> = (0..n).map(|i| (i, (i * step + 1) % (m * 3))).collect();
        let rev = src.bool();
        for k in 0..rows.len() {
            let (a, b) = rows[if rev { rows.len() - 1 - k } else { k }];
            cmds.push(row(0, a, b));
        }
        // delete more than half (sometimes fewer: no compaction) before R is ever queried
        let del = if src.chance(4, 5) { n / 2 + 1 + src.below((n / 3) as usize) as i64 } else { src.below((n / 2) as usize) as i64 };
        let from_front = src.bool();
        for k in 0..del.min(n - 1) {
            let (a, b) = rows[if from_front { k as usize } else { (n - 1 - k) as usize }];
            cmds.push(Cmd::Act(Action::Delete(0, vec![Term::I(a), Term::I(b)])));
        }
        // Q: the other side of the join, usually larger than what is left of R
        let nq = 4 + src.below(120) as i64;
        for j in 0..nq {
            cmds.push(row(1, j % (m * 3), 100 + (j * 7) % 13));
        }
        if src.bool() {
            // some late inserts into R
            for k in 0..1 + src.below(5) as i64 {
                cmds.push(row(0, 500 + k, (k * 5) % (m * 3)));
            }
        }
        let (x, y, z) = (Term::Var("x".into()), Term::Var("y".into()), Term::Var("z".into()));
        let head = if src.bool() {
            vec![Action::Expr(Term::App(2, vec![x.clone(), z.clone()]))]
        } else {
            // fresh e-class ids are handed out in match order; extraction / print of Mk shows them
            vec![Action::Expr(Term::App(3, vec![x.clone(), z.clone()])), Action::Expr(Term::App(2, vec![x.clone(), z.clone()]))]
        };
        let body = match src.below(3) {
            0 => vec![Fact::T(Term::App(0, vec![x.clone(), y.clone()])), Fact::T(Term::App(1, vec![y.clone(), z.clone()]))],
            1 => vec![Fact::T(Term::App(1, vec![y.clone(), z.clone()])), Fact::T(Term::App(0, vec![x.clone(), y.clone()]))],
            _ => vec![Fact::T(Term::App(0, vec![x.clone(), y.clone()])), Fact::T(Term::App(0, vec![y.clone(), z.clone()]))],
        };
        cmds.push(Cmd::Rule { body, head, opts: RuleOpts::default() });
        cmds.push(Cmd::RunN { rs: None, n: 1 + src.below(2), until: vec![] });
        cmds.push(Cmd::PrintFunction(2, 1000));
        cmds.push(Cmd::PrintFunction(3, 1000));
        cmds.push(Cmd::PrintFunction(0, 1000));
        cmds.push(Cmd::PrintSize(None));
        Prog { sig, cmds }
    }
    fn render(&self, inp: &Prog) -> serde_json::Value {
        serde_json::json!(inp.text().lines().collect::<Vec<_>>())
    }
    fn simplify(&self, inp: &Prog) -> Vec<Prog> {
        simplify_prog(inp)
    }
    fn check(&self, prog: &Prog) -> Outcome {
        C20.check(prog)
    }
}

pub fn corpus_stage() -> CorpusDiff {
    CorpusDiff {
        a: run_cfg(),
        b: run_cfg(),
        env_a: env_variant(0),
        env_b: env_variant(1),
        compare: Compare::Bytes,
        filter: Filter::All,
        timeout: Duration::from_secs(30),
        max_bytes: 40_000,
        label_a: "process 1",
        label_b: "process 2 (other environment)",
    }
}

pub fn replay(rep: &Report, stage: &str, j: &serde_json::Value) -> i32 {
    match stage {
        "corpus" => crate::registry::replay_stage(rep, &corpus_stage(), j),
        "container-rows" => crate::registry::replay_stage(rep, &ContainerRows, j),
        "churn-join" => crate::registry::replay_stage(rep, &ChurnJoin, j),
        _ => crate::registry::replay_stage(rep, &C20, j),
    }
}

pub fn run(rep: &Report) {
    rep.set_rule(
        "cases = feature-rich generated programs (containers, costs, extraction incl. variants, print-function, print-size, schedules, push/pop, run-time errors) and the repository's .egg files (including those upstream's skip list calls non-deterministic); \
         each is run twice in-process and in two further processes with different environment/cwd/address space; rendered outputs in order, error strings, run reports (durations zeroed) and final dump compared byte for byte. \
         non-trivial = distinct program whose output contains a multi-row print or an extraction",
    );
    rep.assume("timings (Durations) and print-stats text are excluded, as the property states");
    rep.run_regressions(&C20);
    rep.explore(&C20, rep.tier.pick(700, 8_000), 700);
    rep.run_regressions(&ContainerRows);
    rep.explore(&ContainerRows, rep.tier.pick(120, 2000), 200);
    rep.run_regressions(&ChurnJoin);
    rep.explore(&ChurnJoin, rep.tier.pick(160, 2500), 200);
    run_corpus(rep, &corpus_stage());
}
