//! Differential runs of the repository's own tests/*.egg files under two
//! configurations that a property says must agree. Each run happens in a child
//! process (cwd=/repo) with a watchdog; a time-out is "skipped", never a
//! violation. Reported separately from generated cases (stage "corpus").

use crate::choice::{fnv_str, Src};
use crate::fw::{Outcome, Report, Stage, Tier};
use crate::runner::{run_in_child, ChildRun, RunCfg, RunResult};
use std::sync::atomic::{AtomicUsize, Ordering};
use std::time::Duration;

#[derive(Clone, Copy, PartialEq, Eq)]
pub enum Compare {
    /// per-command result kind + check outcomes + final canonical dump
    Dump,
    /// per-command result kind + snapshot_stable_under_proof_encoding text + sizes
    Stable,
    /// everything rendered, byte for byte: outputs, error text, run reports (durations zeroed)
    Bytes,
}

#[derive(Clone, Copy, PartialEq, Eq)]
pub enum Filter {
    /// only files whose actions are monotone by a conservative textual test
    Monotone,
    All,
}

pub struct CorpusDiff {
    pub a: RunCfg,
    pub b: RunCfg,
    pub env_a: Vec<(String, String)>,
    pub env_b: Vec<(String, String)>,
    pub compare: Compare,
    pub filter: Filter,
    pub timeout: Duration,
    pub max_bytes: usize,
    pub label_a: &'static str,
    pub label_b: &'static str,
}

pub const REPO_TESTS: &str = "/repo/tests";

impl CorpusDiff {
    pub fn seminaive() -> Self {
        CorpusDiff {
            a: RunCfg { seminaive: true, ..RunCfg::default() },
            b: RunCfg { seminaive: false, ..RunCfg::default() },
            env_a: vec![],
            env_b: vec![],
            compare: Compare::Dump,
            filter: Filter::Monotone,
            timeout: Duration::from_secs(15),
            max_bytes: 40_000,
            label_a: "semi-naive",
            label_b: "naive",
        }
    }
}

pub fn monotone_text(t: &str) -> bool {
    // conservative: anything that is not obviously in the monotone fragment is excluded
    let banned = [
        "(delete", "unsafe-seminaive", ":merge new", ":merge old", "unstable-fn", "unstable-app", "(panic", "(fail", "(input", "(include", "(output", ":no-merge", "(clear",
        "ordering-", "f64", "rational", "bigrat", "(pop", "to-string", "interval-", "bound-", "vec-union", "(const ", "(baz", ":merge (max 1",
    ];
    !banned.iter().any(|b| t.contains(b))
}

pub fn corpus_files(max_bytes: usize) -> Vec<String> {
    let mut v = vec![];
    if let Ok(rd) = std::fs::read_dir(REPO_TESTS) {
        for e in rd.flatten() {
            let p = e.path();
            if p.extension().and_then(|x| x.to_str()) == Some("egg") {
                if let Ok(md) = e.metadata() {
                    if (md.len() as usize) <= max_bytes {
                        v.push(p.file_name().unwrap().to_string_lossy().to_string());
                    }
                }
            }
        }
    }
    v.sort();
    v
}

fn first_diff(a: &RunResult, b: &RunResult, cmp: Compare) -> Option<String> {
    if a.parse_error != b.parse_error {
        return Some(format!("parse result differs: {:?} vs {:?}", a.parse_error, b.parse_error));
    }
    for (i, (x, y)) in a.cmds.iter().zip(b.cmds.iter()).enumerate() {
        if x.res != y.res {
            return Some(format!("command #{i} `{}`: {} ({}) vs {} ({})", x.text, x.res, x.err.lines().last().unwrap_or(""), y.res, y.err.lines().last().unwrap_or("")));
        }
        match cmp {
            Compare::Dump => {
                // extraction may legitimately pick different equal-cost terms only if ids differ; compare the stable form
                if x.stable != y.stable {
                    return Some(format!("command #{i} `{}`: stable output {:?} vs {:?}", x.text, x.stable, y.stable));
                }
            }
            Compare::Stable => {
                if x.stable != y.stable {
                    return Some(format!("command #{i} `{}`: stable output {:?} vs {:?}", x.text, x.stable, y.stable));
                }
            }
            Compare::Bytes => {
                if x.out != y.out || x.err != y.err {
                    return Some(format!("command #{i} `{}`: output {:?}/{:?} vs {:?}/{:?}", x.text, x.out, x.err, y.out, y.err));
                }
            }
        }
    }
    if a.cmds.len() != b.cmds.len() {
        return Some(format!("number of executed commands differs: {} vs {}", a.cmds.len(), b.cmds.len()));
    }
    match cmp {
        Compare::Dump => {
            if a.dump != b.dump {
                let da = crate::eng::CanonDump { tables: a.dump.clone() };
                let db = crate::eng::CanonDump { tables: b.dump.clone() };
                return Some(format!("final databases differ:\n{}", da.diff(&db)));
            }
        }
        Compare::Stable => {
            if a.sizes != b.sizes {
                return Some(format!("table sizes differ: {:?} vs {:?}", a.sizes, b.sizes));
            }
        }
        Compare::Bytes => {
            if a.reports != b.reports {
                let i = a.reports.iter().zip(b.reports.iter()).position(|(x, y)| x != y).unwrap_or(0);
                return Some(format!("run report #{i} differs:\n{}\nvs\n{}", a.reports.get(i).cloned().unwrap_or_default(), b.reports.get(i).cloned().unwrap_or_default()));
            }
            if a.dump != b.dump {
                return Some("final databases differ".into());
            }
        }
    }
    None
}

impl Stage for CorpusDiff {
    type Input = String;
    fn name(&self) -> &'static str {
        "corpus"
    }
    fn decode(&self, src: &mut Src) -> String {
        let files = corpus_files(self.max_bytes);
        if files.is_empty() { String::new() } else { src.pick(&files).clone() }
    }
    fn check(&self, name: &String) -> Outcome {
        let mut out = Outcome::new(fnv_str(name));
        let path = format!("{REPO_TESTS}/{name}");
        let Ok(text) = std::fs::read_to_string(&path) else {
            out.class("unreadable");
            return out;
        };
        if self.filter == Filter::Monotone && !monotone_text(&text) {
            out.class("filtered-not-monotone");
            return out;
        }
        let ra = run_in_child(Some(&path), None, &self.a, &self.env_a, self.timeout, Some("/repo"));
        let rb = run_in_child(Some(&path), None, &self.b, &self.env_b, self.timeout, Some("/repo"));
        let (a, b) = match (ra, rb) {
            (ChildRun::Done(a), ChildRun::Done(b)) => (a, b),
            (ChildRun::Timeout, _) | (_, ChildRun::Timeout) => {
                out.class("skipped-timeout");
                return out;
            }
            (ChildRun::Crashed(m), _) => {
                out.fail(format!("corpus-crash:{}", self.label_a), format!("{name} under {}: child crashed: {m}", self.label_a));
                return out;
            }
            (_, ChildRun::Crashed(m)) => {
                out.fail(format!("corpus-crash:{}", self.label_b), format!("{name} under {}: child crashed: {m}", self.label_b));
                return out;
            }
            (ChildRun::Deadlock, _) | (_, ChildRun::Deadlock) => {
                out.fail("corpus-deadlock", format!("{name}: child quiescent and unfinished"));
                return out;
            }
            (ChildRun::Broken(m), _) | (_, ChildRun::Broken(m)) => {
                out.class(format!("broken:{}", m.chars().take(30).collect::<String>()));
                return out;
            }
        };
        if a.cmds.iter().any(|c| c.res == "panic") {
            let c = a.cmds.iter().find(|c| c.res == "panic").unwrap();
            out.fail(format!("panic:{}", crate::fw::panic_key(&c.err)), format!("{name} under {}: `{}` panicked: {}", self.label_a, c.text, c.err));
            return out;
        }
        if let Some(d) = first_diff(&a, &b, self.compare) {
            out.fail(format!("corpus-differs:{name}"), format!("{name}: {} vs {}: {d}", self.label_a, self.label_b));
            return out;
        }
        out.class("compared");
        let ran_rules = a.cmds.iter().any(|c| c.text.starts_with("(run"));
        out.nontrivial = ran_rules && a.cmds.iter().all(|c| c.res == "ok" || c.res.starts_with("err:Check") == false || true);
        out
    }
}

/// Run every (size-limited) corpus file once through the stage, in parallel.
pub fn run_corpus(rep: &Report, stage: &CorpusDiff) {
    if rep.stopped() {
        return;
    }
    let mut files = corpus_files(if rep.tier == Tier::Thorough { stage.max_bytes * 10 } else { stage.max_bytes });
    if rep.tier == Tier::Quick {
        // fixed-work subset in quick: every third file, rotated by the seed so all files are visited across seeds
        let k = (rep.seed % 3) as usize;
        files = files.into_iter().enumerate().filter(|(i, _)| i % 3 == k).map(|(_, f)| f).collect();
    }
    let next = AtomicUsize::new(0);
    std::thread::scope(|sc| {
        for _ in 0..(rep.threads / 2).max(1) {
            sc.spawn(|| loop {
                let i = next.fetch_add(1, Ordering::Relaxed);
                if i >= files.len() || rep.stopped() {
                    break;
                }
                rep.run_one(stage, &files[i]);
            });
        }
    });
}
