//! C17 — stub (being built).
use crate::fw::Report;
use serde_json::Value as J;

pub fn run(_rep: &Report) {}
pub fn replay(_rep: &Report, _stage: &str, _j: &J) -> i32 {
    2
}
pub fn child(_kind: &str, _payload: &J) -> Option<J> {
    None
}
