//! C17 — union-find: same class iff connected, representative is the minimum id
//! (sequential `egglog_union_find::UnionFind` and `egglog_union_find::concurrent::UnionFind`).
//!
//! Stages
//! * `seq-exhaustive`: bounded-exhaustive enumeration of EVERY sequence of public
//!   operations of length <= L over <= N ids, for the sequential structure
//!   (union / find / find_naive / reserve / reset) and for the concurrent structure
//!   used from one thread (union / find / same_set / reset, several initial
//!   capacities so that the resize path is taken), against a trivial partition
//!   model (`Part`: a vector of min-id labels). The enumeration is a DFS that shares
//!   prefixes (`Clone` / `deep_copy` of the structure), cut into *batches*
//!   (a 0- or 2-op prefix + "all extensions up to k more ops") that are executed by
//!   single-threaded child processes, one shard of the batch list each (hang/crash
//!   isolation; processes rather than threads because constructing and dropping the
//!   concurrent structure goes through process-global arc-swap bookkeeping that
//!   contends badly between threads). One recorded evaluation = one batch; the number
//!   of sequences is in the counters and in the `seq_exhaustive` evidence key. A
//!   failing sequence is minimised and re-run on its own through `run_one`, so the
//!   replay file holds exactly that sequence.
//! * `seq-random`: proptest-driven random sequences (<= 2000 ops, <= 64 ids) against
//!   the same model with the full oracle after every operation.
//! * `concurrent`: seeded multi-thread scenarios for the concurrent structure
//!   (2..16 threads, fixed op lists, id space up to 8x the initial capacity, barrier +
//!   spin-aligned start, scenario-decided yields/spins; generator shapes: uniform ids,
//!   growing id bound (resize after resize), descending union partners and a
//!   "displacement" template in which one thread keeps querying two joined ids while
//!   the others displace the root of their class again and again). Every scenario is
//!   repeated several times in a child process (one process per scenario: the watchdog
//!   of `run_child` turns a deadlock into `Quiescent`). Oracles: final partition =
//!   closure of all unions with min-id representatives (plus deep_copy / reset after
//!   the join); sound necessary conditions of linearizability on the stamped history;
//!   complete Wing–Gong search for histories of <= 16 operations.
//!   A failure depends on the OS schedule, so it is remembered per scenario (`MEMO`)
//!   and byte-level shrinking is skipped (see `ConcStage::check`); the structural
//!   `simplify` pass re-runs a bounded number of smaller scenarios with more repetitions.
//!   The violation detail contains the recorded history, which is checkable on its own.
//!
//! Deviations from the plan forced by the real API (all deliberate):
//! * the sequential structure has no `same_set`; the concurrent one has no
//!   `find_naive`/`reserve` (ids are reserved implicitly by every operation). Each
//!   structure is driven with the operations it really has.
//! * the concurrent structure cannot be observed without path compression, so the
//!   "observe everything" oracle runs on a `deep_copy` (which is itself documented
//!   to be an independent copy).
//! * `concurrent::UnionFind::union` is documented to return (new parent, new child).
//!   Under concurrency the returned *parent* can already have been displaced by a
//!   concurrent link when the CAS happens, so only `child` is required to be exact
//!   (it is the root the successful CAS was applied to); the parent only has to be a
//!   smaller member of the other argument's class that was a root during the call.

use crate::child::{run_child, ChildJob, ChildResult};
use crate::choice::{fnv_str, Src};
use crate::fw::{self, Outcome, Report, Stage, Tier, Violation};
use egglog_numeric_id::NumericId;
use egglog_union_find::concurrent::UnionFind as ConcUf;
use egglog_union_find::UnionFind as SeqUf;
use serde::{Deserialize, Serialize};
use serde_json::{json, Value as J};
use std::collections::BTreeMap;
use std::sync::atomic::{AtomicU64, AtomicUsize, Ordering};
use std::sync::{Barrier, Condvar, Mutex};
use std::time::Duration;

use egglog_numeric_id::define_id;
define_id!(pub Id, u32, "id type for the union-finds under test (the engine's Value is a u32 newtype as well)");

fn id(x: u32) -> Id {
    Id::new(x)
}

// ---------------------------------------------------------------------------
// reference models
// ---------------------------------------------------------------------------

/// The trivial partition model: `label[x]` = smallest id of x's class.
#[derive(Clone)]
struct Part {
    label: Vec<u32>,
}

impl Part {
    fn new(n: usize) -> Self {
        Part { label: (0..n as u32).collect() }
    }
    fn root(&self, x: u32) -> u32 {
        self.label[x as usize]
    }
    /// (new root, displaced root, merged?) — (root, root, false) when already together.
    fn union(&mut self, a: u32, b: u32) -> (u32, u32, bool) {
        let (ra, rb) = (self.root(a), self.root(b));
        if ra == rb {
            return (ra, ra, false);
        }
        let (p, c) = (ra.min(rb), ra.max(rb));
        for l in self.label.iter_mut() {
            if *l == c {
                *l = p;
            }
        }
        (p, c, true)
    }
    fn reset(&mut self) {
        for (i, l) in self.label.iter_mut().enumerate() {
            *l = i as u32;
        }
    }
}

/// Independent disjoint-set forest for the history checker (larger root is linked
/// under the smaller one, so `find` is the minimum id of the class).
struct Dsu {
    p: Vec<u32>,
}

impl Dsu {
    fn new(n: usize) -> Self {
        Dsu { p: (0..n as u32).collect() }
    }
    fn find(&mut self, mut x: u32) -> u32 {
        while self.p[x as usize] != x {
            let g = self.p[self.p[x as usize] as usize];
            self.p[x as usize] = g;
            x = g;
        }
        x
    }
    fn union(&mut self, a: u32, b: u32) {
        let (ra, rb) = (self.find(a), self.find(b));
        if ra != rb {
            self.p[ra.max(rb) as usize] = ra.min(rb);
        }
    }
    fn same(&mut self, a: u32, b: u32) -> bool {
        self.find(a) == self.find(b)
    }
}

// ---------------------------------------------------------------------------
// sequential use (stages seq-exhaustive, seq-random)
// ---------------------------------------------------------------------------

#[derive(Clone, Copy, Serialize, Deserialize, PartialEq, Eq, Debug)]
pub enum Target {
    /// `egglog_union_find::UnionFind`
    Seq,
    /// `egglog_union_find::concurrent::UnionFind` driven from one thread
    Conc,
}

impl Target {
    fn tag(self) -> &'static str {
        match self {
            Target::Seq => "seq",
            Target::Conc => "conc",
        }
    }
}

#[derive(Clone, Copy, Serialize, Deserialize, PartialEq, Eq, Debug)]
pub enum Op {
    Union(u32, u32),
    Find(u32),
    /// sequential only (the concurrent structure has none: treated as `find`)
    FindNaive(u32),
    /// concurrent only (sequential: compared through find_naive)
    SameSet(u32, u32),
    /// sequential only (concurrent: ids are reserved by every access; treated as `find`)
    Reserve(u32),
    Reset,
}

impl Op {
    fn show(&self) -> String {
        match self {
            Op::Union(a, b) => format!("union({a},{b})"),
            Op::Find(a) => format!("find({a})"),
            Op::FindNaive(a) => format!("find_naive({a})"),
            Op::SameSet(a, b) => format!("same_set({a},{b})"),
            Op::Reserve(a) => format!("reserve({a})"),
            Op::Reset => "reset()".to_string(),
        }
    }
    fn kind(&self) -> &'static str {
        match self {
            Op::Union(..) => "union",
            Op::Find(..) => "find",
            Op::FindNaive(..) => "find_naive",
            Op::SameSet(..) => "same_set",
            Op::Reserve(..) => "reserve",
            Op::Reset => "reset",
        }
    }
    fn max_id(&self) -> u32 {
        match *self {
            Op::Union(a, b) | Op::SameSet(a, b) => a.max(b),
            Op::Find(a) | Op::FindNaive(a) | Op::Reserve(a) => a,
            Op::Reset => 0,
        }
    }
    fn is_query(&self) -> bool {
        matches!(self, Op::Find(..) | Op::FindNaive(..) | Op::SameSet(..))
    }
}

fn show_ops(ops: &[Op]) -> String {
    ops.iter().map(|o| o.show()).collect::<Vec<_>>().join("; ")
}

/// A sequence of operations; with `extend > 0` it stands for the whole batch
/// "`ops` followed by every sequence of at most `extend` further operations of the
/// alphabet over ids < n" (used by the exhaustive stage).
#[derive(Clone, Serialize, Deserialize)]
pub struct SeqCase {
    pub target: Target,
    /// ids used by operations are < n (id n is observed as an untouched witness)
    pub n: u32,
    /// initial capacity of the concurrent structure (ignored for Seq)
    pub cap: u32,
    pub ops: Vec<Op>,
    #[serde(default)]
    pub extend: u32,
}

enum Sut {
    Seq(SeqUf<Id>),
    Conc(ConcUf<Id>),
}

impl Sut {
    fn new(t: Target, cap: u32) -> Sut {
        match t {
            Target::Seq => Sut::Seq(SeqUf::default()),
            Target::Conc => Sut::Conc(ConcUf::with_capacity(cap as usize)),
        }
    }
    fn fork(&self) -> Sut {
        match self {
            Sut::Seq(u) => Sut::Seq(u.clone()),
            Sut::Conc(u) => Sut::Conc(u.deep_copy()),
        }
    }
    fn tag(&self) -> &'static str {
        match self {
            Sut::Seq(_) => "seq",
            Sut::Conc(_) => "conc",
        }
    }
}

fn same_partition(a: &[u32], b: &[u32]) -> bool {
    // same equivalence relation <=> the map a[i] -> b[i] is a bijection between labels
    let mut ab: BTreeMap<u32, u32> = BTreeMap::new();
    let mut ba: BTreeMap<u32, u32> = BTreeMap::new();
    for (x, y) in a.iter().zip(b.iter()) {
        if *ab.entry(*x).or_insert(*y) != *y || *ba.entry(*y).or_insert(*x) != *x {
            return false;
        }
    }
    true
}

fn partition_violation(tag: &str, after: &str, what: &str, reps: &[u32], m: &Part) -> Violation {
    let mutating = matches!(after, "union" | "reset" | "init");
    let kind = if same_partition(reps, &m.label) { "representative-not-minimum" } else { "partition-differs" };
    let sig = if mutating { format!("{tag}-{kind}-after-{after}") } else { format!("{tag}-{after}-changed-state") };
    Violation::new(
        sig,
        format!(
            "after `{after}`, {what}: representatives by id = {reps:?}, but the closure of the unions performed gives (min id of each class) {:?}",
            m.label
        ),
    )
}

/// Observe everything without perturbing the structure under test.
fn observe(sut: &Sut, m: &Part, n: u32, after: &str) -> Result<(), Violation> {
    let tag = sut.tag();
    match sut {
        Sut::Seq(u) => {
            let reps: Vec<u32> = (0..=n).map(|x| u.find_naive(id(x)).rep()).collect();
            if reps != m.label {
                return Err(partition_violation(tag, after, "find_naive of every id", &reps, m));
            }
            let mut f = u.clone();
            // largest id first: parents are smaller ids, so the largest ids sit deepest and are looked up on the
            // still uncompressed clone
            for x in (0..=n).rev() {
                let r = f.find(id(x)).rep();
                if r != m.root(x) {
                    return Err(Violation::new(
                        "seq-find-disagrees-with-find-naive",
                        format!("after `{after}`: find({x}) = {r} but find_naive({x}) = {} = min id of the class (find was called for the ids above {x} before, on a clone)", m.root(x)),
                    ));
                }
            }
            let reps2: Vec<u32> = (0..=n).map(|x| f.find_naive(id(x)).rep()).collect();
            if reps2 != m.label {
                return Err(Violation::new(
                    "seq-path-compression-changed-partition",
                    format!("after `{after}` and then find(x) for every x: find_naive by id = {reps2:?}, expected {:?}", m.label),
                ));
            }
        }
        Sut::Conc(u) => {
            // one deep copy (construction and destruction of the concurrent structure are expensive):
            // find of every id on the raw state, then same_set queries, then find again.
            // same_set on raw (uncompressed) states is covered by the SameSet operations of the sequence itself.
            let f = u.deep_copy();
            // largest (deepest) id first, on the still uncompressed copy
            let mut reps: Vec<u32> = (0..=n).rev().map(|x| f.find(id(x)).rep()).collect();
            reps.reverse();
            if reps != m.label {
                return Err(partition_violation(tag, after, "find of every id, largest first (on a deep copy)", &reps, m));
            }
            let pairs: Vec<(u32, u32)> = if n <= 5 {
                (0..=n).flat_map(|a| (0..=n).map(move |b| (a, b))).collect()
            } else {
                (0..=n).flat_map(|a| [(a, (a * 7 + 3) % (n + 1)), (a, m.root(a)), (m.root(a), a), ((a + 1) % (n + 1), a)]).collect()
            };
            for (a, b) in pairs {
                let got = f.same_set(id(a), id(b));
                let want = m.root(a) == m.root(b);
                if got != want {
                    return Err(Violation::new(
                        format!("conc-same-set-wrong-{got}"),
                        format!("after `{after}`: same_set({a},{b}) = {got}, but connected by the unions performed = {want} (classes by min id {:?})", m.label),
                    ));
                }
            }
            let reps2: Vec<u32> = (0..=n).map(|x| f.find(id(x)).rep()).collect();
            if reps2 != m.label {
                return Err(Violation::new(
                    "conc-path-compression-changed-partition",
                    format!("after `{after}`, find(x) for every x and same_set queries: second round of find by id = {reps2:?}, expected {:?}", m.label),
                ));
            }
        }
    }
    Ok(())
}

struct StepInfo {
    merged: bool,
}

/// Apply one operation to the structure and the model, compare the returned value
/// with the documented contract, then observe the whole state.
fn step(sut: &mut Sut, m: &mut Part, n: u32, op: Op) -> Result<StepInfo, Violation> {
    let tag = sut.tag();
    let mut merged = false;
    match op {
        Op::Union(a, b) => {
            let (p, c) = match sut {
                Sut::Seq(u) => u.union(id(a), id(b)),
                Sut::Conc(u) => u.union(id(a), id(b)),
            };
            let (p, c) = (p.rep(), c.rep());
            let (ra, rb) = (m.root(a), m.root(b));
            let (mp, mc, mg) = m.union(a, b);
            merged = mg;
            if (p, c) != (mp, mc) {
                let sig = if mg { format!("{tag}-union-return-wrong-when-merging") } else { format!("{tag}-union-return-wrong-when-already-joined") };
                return Err(Violation::new(
                    sig,
                    format!(
                        "union({a},{b}) returned (parent {p}, child {c}); roots before were {ra} and {rb}, so the contract \"(new parent, displaced child) / the representative twice if already together\" with min-id representatives requires ({mp},{mc})"
                    ),
                ));
            }
        }
        Op::Find(x) | Op::FindNaive(x) | Op::Reserve(x) => {
            let r = match (&mut *sut, op) {
                (Sut::Seq(u), Op::Find(_)) => Some(u.find(id(x)).rep()),
                (Sut::Seq(u), Op::FindNaive(_)) => Some(u.find_naive(id(x)).rep()),
                (Sut::Seq(u), _) => {
                    u.reserve(id(x));
                    None
                }
                (Sut::Conc(u), _) => Some(u.find(id(x)).rep()),
            };
            if let Some(r) = r {
                if r != m.root(x) {
                    let k = if matches!(op, Op::FindNaive(_)) { "find-naive" } else { "find" };
                    return Err(Violation::new(
                        format!("{tag}-{k}-wrong-representative"),
                        format!("{} returned {r}; the class of {x} under the unions performed is {:?}, minimum {}", op.show(), class_of(m, x), m.root(x)),
                    ));
                }
            }
        }
        Op::SameSet(a, b) => {
            let got = match sut {
                Sut::Seq(u) => u.find_naive(id(a)) == u.find_naive(id(b)),
                Sut::Conc(u) => u.same_set(id(a), id(b)),
            };
            let want = m.root(a) == m.root(b);
            if got != want {
                return Err(Violation::new(
                    format!("{tag}-same-set-wrong-{got}"),
                    format!("same_set({a},{b}) = {got}, but connected by the unions performed = {want} (classes by min id {:?})", m.label),
                ));
            }
        }
        Op::Reset => {
            match sut {
                Sut::Seq(u) => u.reset(),
                Sut::Conc(u) => u.reset(),
            }
            m.reset();
        }
    }
    observe(sut, m, n, op.kind())?;
    Ok(StepInfo { merged })
}

fn class_of(m: &Part, x: u32) -> Vec<u32> {
    (0..m.label.len() as u32).filter(|y| m.root(*y) == m.root(x)).collect()
}

fn guarded_step(sut: &mut Sut, m: &mut Part, n: u32, op: Op) -> Result<StepInfo, Violation> {
    match fw::catch(|| step(sut, m, n, op)) {
        Ok(r) => r,
        Err(msg) => Err(Violation::new(format!("panic:{}", fw::panic_key(&msg)), format!("`{}` (or the observation after it) panicked: {msg}", op.show()))),
    }
}

fn alphabet(t: Target, n: u32) -> Vec<Op> {
    let mut v = vec![];
    for a in 0..n {
        for b in 0..n {
            v.push(Op::Union(a, b));
        }
    }
    for a in 0..n {
        v.push(Op::Find(a));
    }
    match t {
        Target::Seq => {
            for a in 0..n {
                v.push(Op::FindNaive(a));
            }
            for a in 0..n {
                v.push(Op::Reserve(a));
            }
        }
        Target::Conc => {
            for a in 0..n {
                for b in 0..n {
                    v.push(Op::SameSet(a, b));
                }
            }
        }
    }
    v.push(Op::Reset);
    v
}

#[derive(Default)]
struct Eval {
    /// sequences fully checked (for a batch: the extensions; for a plain sequence: 1)
    sequences: u64,
    /// of those: >= 1 union that merged two classes and >= 1 find/find_naive/same_set after it
    nontrivial: u64,
    merges: u64,
    fail: Option<(Vec<Op>, Violation)>,
    invalid: bool,
}

struct Dfs<'a> {
    n: u32,
    alpha: &'a [Op],
    path: Vec<Op>,
    ev: Eval,
    /// only failures strictly shorter than this are still interesting
    limit: usize,
}

impl Dfs<'_> {
    /// `flags`: 0 = no merge yet, 1 = merged, 2 = merged and queried afterwards
    fn go(&mut self, sut: &Sut, m: &Part, left: u32, flags: u8) {
        for i in 0..self.alpha.len() {
            if self.path.len() + 1 >= self.limit {
                return;
            }
            let op = self.alpha[i];
            let mut s = sut.fork();
            let mut mm = m.clone();
            self.path.push(op);
            match guarded_step(&mut s, &mut mm, self.n, op) {
                Err(v) => {
                    self.limit = self.path.len();
                    self.ev.fail = Some((self.path.clone(), v));
                }
                Ok(info) => {
                    let fl = match (flags, info.merged, op.is_query()) {
                        (0, true, _) => 1,
                        (1, _, true) => 2,
                        (f, _, _) => f,
                    };
                    self.ev.sequences += 1;
                    self.ev.merges += info.merged as u64;
                    if fl == 2 {
                        self.ev.nontrivial += 1;
                    }
                    if left > 1 {
                        self.go(&s, &mm, left - 1, fl);
                    }
                }
            }
            self.path.pop();
        }
    }
}

fn eval_seq(case: &SeqCase) -> Eval {
    let mut ev = Eval::default();
    if case.n == 0 || case.n > 4096 || case.cap > 1 << 20 || case.ops.iter().any(|o| o.max_id() >= case.n) {
        ev.invalid = true;
        return ev;
    }
    let n = case.n;
    let mut sut = Sut::new(case.target, case.cap);
    let mut m = Part::new(n as usize + 1);
    if let Err(v) = fw::catch(|| observe(&sut, &m, n, "init")).unwrap_or_else(|p| Err(Violation::new(format!("panic:{}", fw::panic_key(&p)), format!("observing the fresh structure panicked: {p}")))) {
        ev.fail = Some((vec![], v));
        return ev;
    }
    let mut flags = 0u8;
    for (i, op) in case.ops.iter().enumerate() {
        match guarded_step(&mut sut, &mut m, n, *op) {
            Err(v) => {
                ev.fail = Some((case.ops[..=i].to_vec(), v));
                return ev;
            }
            Ok(info) => {
                ev.merges += info.merged as u64;
                flags = match (flags, info.merged, op.is_query()) {
                    (0, true, _) => 1,
                    (1, _, true) => 2,
                    (f, _, _) => f,
                };
            }
        }
    }
    if case.extend == 0 {
        ev.sequences = 1;
        ev.nontrivial = (flags == 2) as u64;
        return ev;
    }
    let alpha = alphabet(case.target, n);
    let merges = ev.merges;
    let mut d = Dfs { n, alpha: &alpha, path: case.ops.clone(), ev: Eval::default(), limit: usize::MAX };
    d.go(&sut, &m, case.extend, flags);
    d.ev.merges += merges;
    d.ev
}

pub struct SeqStage {
    pub name: &'static str,
}

fn render_seq(c: &SeqCase) -> J {
    let mut j = json!({
        "structure": match c.target { Target::Seq => "egglog_union_find::UnionFind", Target::Conc => "egglog_union_find::concurrent::UnionFind (single thread)" },
        "ids_below": c.n,
        "ops": if c.ops.len() <= 64 { json!(show_ops(&c.ops)) } else { json!(format!("{} … ({} ops)", show_ops(&c.ops[..48]), c.ops.len())) },
    });
    if c.target == Target::Conc {
        j["initial_capacity"] = json!(c.cap);
    }
    if c.extend > 0 {
        j["then_every_extension_of_length_up_to"] = json!(c.extend);
    }
    j
}

impl Stage for SeqStage {
    type Input = SeqCase;
    fn name(&self) -> &'static str {
        self.name
    }
    fn decode(&self, src: &mut Src) -> SeqCase {
        let target = if src.chance(2, 5) { Target::Conc } else { Target::Seq };
        let n = 2 + src.below(63) as u32;
        let cap = *src.pick(&[0u32, 1, 2, 4, 8, 16, 32, 64]);
        let maxlen = match src.below(4) {
            0 => 24,
            1 => 240,
            _ => 2000,
        };
        let uw = *src.pick(&[8usize, 20, 36]);
        let reset_on = src.chance(1, 3);
        let local = src.bool();
        let half = uw + (60 - uw) / 2;
        let mut ops = vec![];
        while ops.len() < maxlen && !src.exhausted() {
            let k = src.below(64);
            let a = src.below(n as usize) as u32;
            let op = if k < uw {
                let b = if local { (a + 1 + src.below(3) as u32) % n } else { src.below(n as usize) as u32 };
                Op::Union(a, b)
            } else if k < half {
                Op::Find(a)
            } else if k < 60 {
                match target {
                    Target::Seq => Op::FindNaive(a),
                    Target::Conc => Op::SameSet(a, src.below(n as usize) as u32),
                }
            } else if k < 63 {
                match target {
                    Target::Seq => Op::Reserve(a),
                    Target::Conc => Op::Find(a),
                }
            } else if reset_on {
                Op::Reset
            } else {
                Op::Find(a)
            };
            ops.push(op);
        }
        SeqCase { target, n, cap, ops, extend: 0 }
    }
    fn render(&self, c: &SeqCase) -> J {
        render_seq(c)
    }
    fn simplify(&self, c: &SeqCase) -> Vec<SeqCase> {
        let mut out = vec![];
        if c.extend > 0 {
            if let Some((ops, _)) = eval_seq(c).fail {
                out.push(SeqCase { ops, extend: 0, ..c.clone() });
            }
            return out;
        }
        if let Some((ops, _)) = eval_seq(c).fail {
            if ops.len() < c.ops.len() {
                out.push(SeqCase { ops, ..c.clone() });
            }
        }
        let len = c.ops.len();
        let mut size = len / 2;
        while size >= 1 && out.len() < 300 {
            let mut at = 0;
            while at + size <= len && out.len() < 300 {
                let mut ops = c.ops.clone();
                ops.drain(at..at + size);
                out.push(SeqCase { ops, ..c.clone() });
                at += size;
            }
            size /= 2;
        }
        let used = c.ops.iter().map(|o| o.max_id()).max().unwrap_or(0) + 1;
        if used < c.n {
            out.push(SeqCase { n: used, ..c.clone() });
        }
        if c.target == Target::Conc && c.cap != 0 {
            out.push(SeqCase { cap: 0, ..c.clone() });
        }
        out
    }
    fn check(&self, c: &SeqCase) -> Outcome {
        let ev = eval_seq(c);
        seq_outcome(c, &ev)
    }
}

fn seq_key(c: &SeqCase) -> u64 {
    fnv_str(&serde_json::to_string(c).unwrap_or_default())
}

fn seq_outcome(c: &SeqCase, ev: &Eval) -> Outcome {
    let mut out = Outcome::new(seq_key(c));
    if ev.invalid {
        out.class("invalid-input");
        return out;
    }
    out.nontrivial = ev.nontrivial > 0;
    out.count("sequences", ev.sequences);
    out.count("nontrivial_sequences", ev.nontrivial);
    out.count("merging_unions", ev.merges);
    out.class(format!("structure={}", c.target.tag()));
    if c.extend > 0 {
        out.class(format!("{}:ids={}:len<={}", c.target.tag(), c.n, c.ops.len() as u32 + c.extend));
    } else {
        out.class(match c.ops.len() {
            0..=24 => "len<=24",
            25..=240 => "len<=240",
            _ => "len<=2000",
        });
        out.class(match ev.merges {
            0 => "merges=0",
            1..=7 => "merges=1..7",
            8..=31 => "merges=8..31",
            _ => "merges>=32",
        });
        if c.ops.iter().any(|o| matches!(o, Op::Reset)) {
            out.class("has-reset");
        }
    }
    if let Some((ops, v)) = &ev.fail {
        out.fail(v.sig.clone(), format!("failing sequence ({} ops, {}, ids < {}{}): {}\n{}", ops.len(), c.target.tag(), c.n, if c.target == Target::Conc { format!(", initial capacity {}", c.cap) } else { String::new() }, show_ops(ops), v.detail));
    }
    out
}

// ----- exhaustive plan -------------------------------------------------------

#[derive(Clone, Copy)]
struct ExhCfg {
    target: Target,
    n: u32,
    cap: u32,
    len: u32,
}

fn exh_plan(tier: Tier) -> Vec<ExhCfg> {
    let c = |target, n, cap, len| ExhCfg { target, n, cap, len };
    match tier {
        Tier::Quick => vec![
            c(Target::Seq, 4, 0, 5),
            c(Target::Seq, 3, 0, 6),
            c(Target::Seq, 5, 0, 4),
            c(Target::Conc, 3, 0, 5),
            c(Target::Conc, 3, 2, 4),
            c(Target::Conc, 4, 0, 4),
            c(Target::Conc, 4, 3, 4),
        ],
        Tier::Thorough => vec![
            c(Target::Seq, 4, 0, 6),
            c(Target::Seq, 3, 0, 7),
            c(Target::Seq, 5, 0, 5),
            c(Target::Seq, 6, 0, 4),
            c(Target::Conc, 3, 0, 6),
            c(Target::Conc, 3, 1, 5),
            c(Target::Conc, 3, 2, 5),
            c(Target::Conc, 4, 0, 5),
            c(Target::Conc, 4, 3, 5),
            c(Target::Conc, 4, 32, 4),
            c(Target::Conc, 5, 0, 4),
        ],
    }
}

/// Shallow batches (all sequences of length <= 2) for every configuration first,
/// then one deep batch per 2-op prefix. Returns (batches, number of shallow ones).
fn exh_batches(tier: Tier) -> (Vec<SeqCase>, usize) {
    let plan = exh_plan(tier);
    let mut v = vec![];
    for c in &plan {
        v.push(SeqCase { target: c.target, n: c.n, cap: c.cap, ops: vec![], extend: c.len.min(2) });
    }
    let shallow = v.len();
    for c in &plan {
        if c.len <= 2 {
            continue;
        }
        let alpha = alphabet(c.target, c.n);
        for a in &alpha {
            for b in &alpha {
                v.push(SeqCase { target: c.target, n: c.n, cap: c.cap, ops: vec![*a, *b], extend: c.len - 2 });
            }
        }
    }
    (v, shallow)
}

fn tier_of(s: &str) -> Tier {
    if s == "thorough" { Tier::Thorough } else { Tier::Quick }
}

/// child `c17-seqexh`: run the batches i of the tier's plan with i % shards == shard,
/// in increasing order, single-threaded (the concurrent structure's construction and
/// destruction go through process-global arc-swap bookkeeping that contends badly
/// between threads, so the parallelism is over processes); stop at the first failure.
fn child_seqexh(payload: &J) -> J {
    fw::install_quiet_panic_hook();
    let tier = tier_of(payload["tier"].as_str().unwrap_or("quick"));
    let shards = payload["shards"].as_u64().unwrap_or(1).max(1) as usize;
    let shard = payload["shard"].as_u64().unwrap_or(0) as usize;
    let (batches, _) = exh_batches(tier);
    let mut results: Vec<J> = vec![];
    let mut complete = true;
    for (i, b) in batches.iter().enumerate() {
        if i % shards != shard {
            continue;
        }
        let t = std::time::Instant::now();
        let ev = eval_seq(b);
        results.push(json!({"i": i, "us": t.elapsed().as_micros() as u64, "sequences": ev.sequences, "nontrivial": ev.nontrivial, "merges": ev.merges,
               "fail": ev.fail.as_ref().map(|(ops, v)| json!({"ops": ops, "sig": v.sig, "detail": v.detail}))}));
        if ev.fail.is_some() {
            complete = false;
            break;
        }
    }
    json!({"results": results, "complete": complete})
}

fn run_seq_exhaustive(rep: &Report) {
    let stage = SeqStage { name: "seq-exhaustive" };
    rep.run_regressions(&stage);
    if rep.stopped() {
        return;
    }
    let (batches, _) = exh_batches(rep.tier);
    let timeout = Duration::from_secs(rep.tier.pick(900, 6 * 3600));
    let shards = rep.threads.clamp(1, 64);
    let outcomes: Vec<ChildResult> = std::thread::scope(|sc| {
        let hs: Vec<_> = (0..shards)
            .map(|k| {
                let tier = rep.tier.name();
                sc.spawn(move || run_child(ChildJob { kind: "c17-seqexh", payload: json!({"tier": tier, "shard": k, "shards": shards}), env: vec![], timeout, cwd: None }))
            })
            .collect();
        hs.into_iter().map(|h| h.join().unwrap_or_else(|_| ChildResult::Broken("launcher thread panicked".into()))).collect()
    });
    let mut all: Vec<J> = vec![];
    let mut complete = true;
    for res in outcomes {
        match res {
            ChildResult::Ok(j) => {
                complete &= j["complete"].as_bool() == Some(true);
                all.extend(j["results"].as_array().cloned().unwrap_or_default());
            }
            ChildResult::Crashed { status, stderr } => {
                let v = Violation::new(
                    format!("seq-exhaustive-crash:{}", crash_key(&status, &stderr)),
                    format!("a child enumerating all short operation sequences died ({status}); stderr tail:\n{stderr}"),
                );
                rep.add_violation(v, "<none: the enumerating child crashed; re-run the stage>".to_string());
                return;
            }
            ChildResult::Quiescent { stderr } => {
                let v = Violation::new("seq-exhaustive-deadlock", format!("a child enumerating all short operation sequences went quiescent (every thread asleep) before finishing; stderr tail:\n{stderr}"));
                rep.add_violation(v, "<none: the enumerating child deadlocked; re-run the stage>".to_string());
                return;
            }
            ChildResult::Busy => {
                rep.inconclusive(format!("seq-exhaustive: a child was still computing after {}s (hang / infinite loop suspect, or machine too slow)", timeout.as_secs()));
                return;
            }
            ChildResult::Broken(m) => {
                rep.inconclusive(format!("seq-exhaustive: child protocol error: {m}"));
                return;
            }
        }
    }
    // deterministic order; everything after the smallest failing batch is dropped
    all.sort_by_key(|r| r["i"].as_u64().unwrap_or(u64::MAX));
    if let Some(pos) = all.iter().position(|r| r["fail"].is_object()) {
        all.truncate(pos + 1);
    }
    let j = json!({"results": all, "complete": complete});
    let mut total = 0u64;
    let mut total_nt = 0u64;
    let mut per_cfg: BTreeMap<String, u64> = BTreeMap::new();
    let mut per_cfg_cpu: BTreeMap<String, f64> = BTreeMap::new();
    for r in j["results"].as_array().cloned().unwrap_or_default() {
        let i = r["i"].as_u64().unwrap_or(u64::MAX) as usize;
        let Some(b) = batches.get(i) else { continue };
        let mut ev = Eval { sequences: r["sequences"].as_u64().unwrap_or(0), nontrivial: r["nontrivial"].as_u64().unwrap_or(0), merges: r["merges"].as_u64().unwrap_or(0), fail: None, invalid: false };
        total += ev.sequences;
        total_nt += ev.nontrivial;
        let cfg = format!("{}:ids={}:cap={}:len<={}", b.target.tag(), b.n, b.cap, b.ops.len() as u32 + b.extend);
        *per_cfg.entry(cfg.clone()).or_insert(0) += ev.sequences;
        *per_cfg_cpu.entry(cfg).or_insert(0.0) += r["us"].as_u64().unwrap_or(0) as f64 / 1e6;
        if r["fail"].is_object() {
            let ops: Vec<Op> = serde_json::from_value(r["fail"]["ops"].clone()).unwrap_or_default();
            let exact = minimize_seq(&stage, SeqCase { ops, extend: 0, ..b.clone() }, r["fail"]["sig"].as_str().unwrap_or(""));
            if rep.run_one(&stage, &exact).is_none() {
                // did not reproduce as a plain sequence: report the batch itself
                rep.note(format!("seq-exhaustive: the failure in batch {i} did not reproduce as a single sequence; replaying the batch"));
                if rep.run_one(&stage, b).is_none() {
                    ev.fail = Some((vec![], Violation::new(r["fail"]["sig"].as_str().unwrap_or("?").to_string(), r["fail"]["detail"].as_str().unwrap_or("").to_string())));
                    let out = seq_outcome(b, &ev);
                    if let Some(v) = rep.record(stage.name(), out, || render_seq(b)) {
                        let p = rep.write_replay(&stage, b, &v);
                        rep.add_violation(v, p);
                    }
                }
            }
            return;
        }
        let out = seq_outcome(b, &ev);
        rep.record(stage.name(), out, || render_seq(b));
    }
    rep.extra(
        "seq_exhaustive",
        json!({"sequences_checked": total, "nontrivial_sequences": total_nt, "per_configuration": per_cfg, "per_configuration_thread_seconds": per_cfg_cpu,
               "complete": j["complete"].as_bool().unwrap_or(false),
               "alphabet": "seq: union(a,b) all ordered pairs incl. a=b, find(a), find_naive(a), reserve(a), reset; conc: union(a,b), find(a), same_set(a,b), reset"}),
    );
    if j["complete"].as_bool() == Some(true) {
        rep.set_exhaustive();
        rep.note("exhaustive=true refers to stage seq-exhaustive (every operation sequence up to the stated length over the stated ids); seq-random and concurrent are sampled");
    }
}

/// Greedy structural minimisation of a failing plain sequence (same signature), in-process.
fn minimize_seq(stage: &SeqStage, mut case: SeqCase, sig: &str) -> SeqCase {
    let mut budget = 400;
    'outer: loop {
        for cand in stage.simplify(&case) {
            if budget == 0 {
                break 'outer;
            }
            budget -= 1;
            if matches!(eval_seq(&cand).fail, Some((_, ref v)) if v.sig == sig) {
                case = cand;
                continue 'outer;
            }
        }
        break;
    }
    case
}

fn crash_key(status: &str, stderr: &str) -> String {
    let line = stderr.lines().rev().find(|l| l.contains("panicked") || l.contains("overflow") || l.contains("SIG")).unwrap_or("");
    if line.is_empty() { status.to_string() } else { fw::panic_key(line) }
}

// ---------------------------------------------------------------------------
// concurrent scenarios
// ---------------------------------------------------------------------------

#[derive(Clone, Copy, Serialize, Deserialize, PartialEq, Eq, Debug)]
pub enum CK {
    Union,
    Find,
    SameSet,
}

#[derive(Clone, Copy, Serialize, Deserialize, Debug)]
pub struct COp {
    pub k: CK,
    pub a: u32,
    pub b: u32,
    /// perturbation before the call: 1..=9 -> that many yield_now(), >= 10 -> (pause-9)*32 spin hints
    pub pause: u8,
}

impl COp {
    fn show(&self) -> String {
        match self.k {
            CK::Union => format!("union({},{})", self.a, self.b),
            CK::Find => format!("find({})", self.a),
            CK::SameSet => format!("same_set({},{})", self.a, self.b),
        }
    }
}

#[derive(Clone, Serialize, Deserialize)]
pub struct ConcCase {
    /// `UnionFind::with_capacity(cap)`
    pub cap: u32,
    /// operations use ids < ids
    pub ids: u32,
    pub threads: Vec<Vec<COp>>,
}

/// One completed operation of a recorded history.
#[derive(Clone, Serialize, Deserialize, Debug)]
struct Rec {
    t: u32,
    k: CK,
    a: u32,
    b: u32,
    inv: u64,
    resp: u64,
    /// find: representative; same_set: 0/1; union: parent
    r0: u32,
    /// union: child
    r1: u32,
}

impl Rec {
    fn show(&self) -> String {
        let res = match self.k {
            CK::Union => format!("union({},{}) -> (parent {}, child {})", self.a, self.b, self.r0, self.r1),
            CK::Find => format!("find({}) -> {}", self.a, self.r0),
            CK::SameSet => format!("same_set({},{}) -> {}", self.a, self.b, self.r0 == 1),
        };
        format!("T{} [{}..{}] {}", self.t, self.inv, self.resp, res)
    }
}

fn pause(p: u8) {
    if p == 0 {
    } else if p <= 9 {
        for _ in 0..p {
            std::thread::yield_now();
        }
    } else {
        for _ in 0..(p as u32 - 9) * 32 {
            std::hint::spin_loop();
        }
    }
}

#[derive(Default)]
struct ConcStats {
    runs: u64,
    ops: u64,
    /// pairs of operations of different threads whose [inv, resp] intervals overlap
    overlapping_pairs: u64,
    /// ... and which touch the same final class, at least one being a union
    conflicting_pairs: u64,
    /// unions that returned a parent that was not the class minimum when they completed
    displaced_parent: u64,
    wg_histories: u64,
    wg_states: u64,
    /// runs in which some operation on an id >= cap overlapped another thread's operation
    runs_with_concurrent_resize: u64,
}

/// Execute the scenario `reps` times; Err = first violation found.
fn run_scenario(case: &ConcCase, reps: usize, stats: &mut ConcStats) -> Result<(), Violation> {
    let nt = case.threads.len();
    let ufs: Vec<ConcUf<Id>> = (0..reps).map(|_| ConcUf::with_capacity(case.cap as usize)).collect();
    let clocks: Vec<AtomicU64> = (0..reps).map(|_| AtomicU64::new(0)).collect();
    let arrived: Vec<AtomicUsize> = (0..reps).map(|_| AtomicUsize::new(0)).collect();
    let bar = Barrier::new(nt);
    let per_thread: Vec<Vec<(Vec<Rec>, Option<String>)>> = std::thread::scope(|s| {
        let handles: Vec<_> = case
            .threads
            .iter()
            .enumerate()
            .map(|(t, ops)| {
                let (ufs, clocks, arrived, bar) = (&ufs, &clocks, &arrived, &bar);
                s.spawn(move || {
                    let mut out = Vec::with_capacity(reps);
                    for r in 0..reps {
                        // a shallow clone shares the structure (documented)
                        let uf = ufs[r].clone();
                        let clock = &clocks[r];
                        let mut recs: Vec<Rec> = Vec::with_capacity(ops.len());
                        bar.wait();
                        // every thread is past the barrier and runnable: align the start more tightly
                        arrived[r].fetch_add(1, Ordering::SeqCst);
                        let mut spins = 0u32;
                        while arrived[r].load(Ordering::Acquire) < nt && spins < 60_000 {
                            spins += 1;
                            if spins > 30_000 {
                                std::thread::yield_now();
                            } else {
                                std::hint::spin_loop();
                            }
                        }
                        let res = fw::catch(|| {
                            for op in ops {
                                pause(op.pause);
                                let (r0, r1, inv, resp);
                                match op.k {
                                    CK::Union => {
                                        inv = clock.fetch_add(1, Ordering::SeqCst);
                                        let (p, c) = uf.union(id(op.a), id(op.b));
                                        resp = clock.fetch_add(1, Ordering::SeqCst);
                                        r0 = p.rep();
                                        r1 = c.rep();
                                    }
                                    CK::Find => {
                                        inv = clock.fetch_add(1, Ordering::SeqCst);
                                        let x = uf.find(id(op.a));
                                        resp = clock.fetch_add(1, Ordering::SeqCst);
                                        r0 = x.rep();
                                        r1 = 0;
                                    }
                                    CK::SameSet => {
                                        inv = clock.fetch_add(1, Ordering::SeqCst);
                                        let x = uf.same_set(id(op.a), id(op.b));
                                        resp = clock.fetch_add(1, Ordering::SeqCst);
                                        r0 = x as u32;
                                        r1 = 0;
                                    }
                                }
                                recs.push(Rec { t: t as u32, k: op.k, a: op.a, b: op.b, inv, resp, r0, r1 });
                            }
                        });
                        bar.wait();
                        out.push((recs, res.err()));
                    }
                    out
                })
            })
            .collect();
        handles.into_iter().map(|h| h.join().unwrap_or_default()).collect()
    });
    for r in 0..reps {
        let mut hist: Vec<Rec> = vec![];
        let mut panic: Option<(usize, String)> = None;
        for (t, th) in per_thread.iter().enumerate() {
            let Some((recs, p)) = th.get(r) else {
                return Err(Violation::new("concurrent-crash:worker-thread-lost", format!("worker thread {t} did not return its history")));
            };
            hist.extend(recs.iter().cloned());
            if let (Some(p), None) = (p, &panic) {
                panic = Some((t, p.clone()));
            }
        }
        hist.sort_by_key(|x| x.inv);
        if let Some((t, p)) = panic {
            return Err(Violation::new(
                format!("concurrent-crash:{}", fw::panic_key(&p)),
                format!("run {r}: thread {t} panicked inside an operation: {p}\ncompleted operations so far:\n{}", show_hist(&hist, 80)),
            ));
        }
        stats.runs += 1;
        stats.ops += hist.len() as u64;
        check_final(case, &ufs[r]).map_err(|v| with_hist(v, r, &hist))?;
        check_history(case, &hist, stats).map_err(|v| with_hist(v, r, &hist))?;
        if hist.len() <= 16 {
            stats.wg_histories += 1;
            if !wing_gong(case.ids as usize, &hist, &mut stats.wg_states) {
                return Err(with_hist(
                    Violation::new(
                        "concurrent-not-linearizable",
                        "complete search: no order of the operations that respects real time (an operation that returned before another was called comes first) explains every find / same_set / union result with min-id representatives",
                    ),
                    r,
                    &hist,
                ));
            }
        }
    }
    Ok(())
}

fn show_hist(hist: &[Rec], max: usize) -> String {
    let mut s: Vec<String> = hist.iter().take(max).map(|r| format!("  {}", r.show())).collect();
    if hist.len() > max {
        s.push(format!("  … ({} operations in total)", hist.len()));
    }
    s.join("\n")
}

fn with_hist(v: Violation, run: usize, hist: &[Rec]) -> Violation {
    Violation::new(v.sig, format!("run {run}: {}\nrecorded history (stamps from one shared counter, [invocation..response]):\n{}", v.detail, show_hist(hist, 120)))
}

/// After all threads joined: the partition is the closure of all unions, every
/// representative is the class minimum, same_set agrees, a deep copy agrees and
/// reset gives singletons.
fn check_final(case: &ConcCase, uf: &ConcUf<Id>) -> Result<(), Violation> {
    let n = case.ids;
    let mut m = Part::new(n as usize + 1);
    for th in &case.threads {
        for op in th {
            if op.k == CK::Union {
                m.union(op.a, op.b);
            }
        }
    }
    let copy = uf.deep_copy();
    for x in 0..=n {
        let y = m.root(x);
        let got = uf.same_set(id(x), id(y));
        if !got {
            return Err(Violation::new(
                "concurrent-lost-union",
                format!("after all threads finished: same_set({x},{y}) = false, but the unions performed connect them (class {:?})", class_of(&m, x)),
            ));
        }
        let z = (x * 7 + 3) % (n + 1);
        let got = uf.same_set(id(x), id(z));
        if got != (m.root(z) == y) {
            return Err(Violation::new(
                if got { "concurrent-spurious-merge" } else { "concurrent-lost-union" },
                format!("after all threads finished: same_set({x},{z}) = {got}, closure of the unions says {}", m.root(z) == y),
            ));
        }
    }
    let reps: Vec<u32> = (0..=n).map(|x| uf.find(id(x)).rep()).collect();
    if reps != m.label {
        let sig = if same_partition(&reps, &m.label) {
            "concurrent-final-representative-not-minimum"
        } else if reps.iter().zip(m.label.iter()).enumerate().any(|(x, (r, l))| r != l && m.root(*r) != m.root(x as u32)) {
            "concurrent-spurious-merge"
        } else {
            "concurrent-lost-union"
        };
        return Err(Violation::new(sig, format!("after all threads finished: find by id = {reps:?}, but the closure of all unions gives (min id of each class) {:?}", m.label)));
    }
    let reps2: Vec<u32> = (0..=n).map(|x| copy.find(id(x)).rep()).collect();
    if reps2 != m.label {
        return Err(Violation::new("concurrent-deep-copy-differs", format!("deep_copy taken after all threads finished: find by id = {reps2:?}, expected {:?}", m.label)));
    }
    copy.reset();
    let reps3: Vec<u32> = (0..=n).map(|x| copy.find(id(x)).rep()).collect();
    if reps3.iter().enumerate().any(|(i, r)| *r != i as u32) {
        return Err(Violation::new("concurrent-reset-not-singletons", format!("after reset() on the deep copy: find by id = {reps3:?}")));
    }
    let again: Vec<u32> = (0..=n).map(|x| uf.find(id(x)).rep()).collect();
    if again != m.label {
        return Err(Violation::new("concurrent-deep-copy-not-independent", format!("reset() on the deep copy changed the original: find by id = {again:?}, expected {:?}", m.label)));
    }
    Ok(())
}

/// Sound necessary conditions of linearizability (with min-id representatives):
/// for an operation o let MAY(o) be the closure of the unions invoked before o
/// returned and MUST(o) the closure of the unions that returned before o was invoked.
/// At o's linearization point the partition S satisfies MUST ⊆ S ⊆ MAY, so a
/// representative r reported for x must have: r ~MAY x, r <= min MUST-class(x),
/// and r = min of its own MUST class (otherwise r stopped being a root before o began).
fn check_history(case: &ConcCase, hist: &[Rec], stats: &mut ConcStats) -> Result<(), Violation> {
    let n = case.ids as usize + 1;
    let cnt = hist.len();
    for r in hist {
        let bad = match r.k {
            CK::Union => r.r0 as usize >= n || r.r1 as usize >= n,
            CK::Find => r.r0 as usize >= n,
            CK::SameSet => false,
        };
        if bad {
            return Err(Violation::new("concurrent-result-out-of-range", format!("{} returned an id that was never used", r.show())));
        }
    }
    // facts under MAY (ops by response, unions by invocation)
    let mut may_a = vec![false; cnt]; // find: r~x ; same_set: a~b ; union: child~a
    let mut may_b = vec![false; cnt]; // union: parent~a
    {
        let mut by_resp: Vec<usize> = (0..cnt).collect();
        by_resp.sort_by_key(|i| hist[*i].resp);
        let mut us: Vec<usize> = (0..cnt).filter(|i| hist[*i].k == CK::Union).collect();
        us.sort_by_key(|i| hist[*i].inv);
        let mut d = Dsu::new(n);
        let mut ui = 0;
        for &i in &by_resp {
            let o = &hist[i];
            while ui < us.len() && hist[us[ui]].inv < o.resp {
                d.union(hist[us[ui]].a, hist[us[ui]].b);
                ui += 1;
            }
            match o.k {
                CK::Find => may_a[i] = d.same(o.r0, o.a),
                CK::SameSet => may_a[i] = d.same(o.a, o.b),
                CK::Union => {
                    may_a[i] = d.same(o.r1, o.a);
                    may_b[i] = d.same(o.r0, o.a);
                }
            }
        }
    }
    // facts under MUST (ops by invocation, unions by response)
    let mut must_min_a = vec![0u32; cnt];
    let mut must_min_b = vec![0u32; cnt];
    let mut must_min_r0 = vec![0u32; cnt];
    let mut must_min_r1 = vec![0u32; cnt];
    {
        let mut us: Vec<usize> = (0..cnt).filter(|i| hist[*i].k == CK::Union).collect();
        us.sort_by_key(|i| hist[*i].resp);
        let mut d = Dsu::new(n);
        let mut ui = 0;
        for (i, o) in hist.iter().enumerate() {
            // hist is sorted by invocation
            while ui < us.len() && hist[us[ui]].resp < o.inv {
                d.union(hist[us[ui]].a, hist[us[ui]].b);
                ui += 1;
            }
            must_min_a[i] = d.find(o.a);
            must_min_b[i] = d.find(o.b);
            if o.k != CK::SameSet {
                must_min_r0[i] = d.find(o.r0);
            }
            if o.k == CK::Union {
                must_min_r1[i] = d.find(o.r1);
            }
        }
    }
    let mut child_of: BTreeMap<u32, usize> = BTreeMap::new();
    for (i, o) in hist.iter().enumerate() {
        match o.k {
            CK::Find => {
                let r = o.r0;
                if !may_a[i] {
                    return Err(Violation::new("concurrent-find-unconnected-representative", format!("{}: {r} is not connected to {} by the unions invoked before this find returned", o.show(), o.a)));
                }
                if r > must_min_a[i] {
                    return Err(Violation::new(
                        "concurrent-find-not-minimum",
                        format!("{}: unions that had already returned before this find was called put {} in a class with the smaller id {}, so the representative cannot be {r}", o.show(), o.a, must_min_a[i]),
                    ));
                }
                if must_min_r0[i] != r {
                    return Err(Violation::new(
                        "concurrent-find-stale-root",
                        format!("{}: {r} had been joined to the smaller id {} by unions that returned before this find was called; it is not a representative any more", o.show(), must_min_r0[i]),
                    ));
                }
            }
            CK::SameSet => {
                if o.r0 == 1 && !may_a[i] {
                    return Err(Violation::new("concurrent-same-set-true-unconnected", format!("{}: not connected by the unions invoked before it returned", o.show())));
                }
                if o.r0 == 0 && must_min_a[i] == must_min_b[i] {
                    return Err(Violation::new("concurrent-same-set-false-after-union", format!("{}: unions that returned before it was called already connect them (class minimum {})", o.show(), must_min_a[i])));
                }
            }
            CK::Union => {
                let (p, c) = (o.r0, o.r1);
                if p == c {
                    // "already in the same class, representative twice"
                    let r = p;
                    if o.a != o.b {
                        let mut d = Dsu::new(n);
                        for (j, u) in hist.iter().enumerate() {
                            if j != i && u.k == CK::Union && u.inv < o.resp {
                                d.union(u.a, u.b);
                            }
                        }
                        if !d.same(o.a, o.b) {
                            return Err(Violation::new(
                                "concurrent-union-claims-already-joined",
                                format!("{}: returned the same id twice (\"already in one class\"), but no other unions invoked before it returned connect {} and {}", o.show(), o.a, o.b),
                            ));
                        }
                    }
                    if !may_b[i] {
                        return Err(Violation::new("concurrent-union-unconnected-representative", format!("{}: {r} is not connected to the arguments by unions invoked before it returned", o.show())));
                    }
                    if r > must_min_a[i] || r > must_min_b[i] || must_min_r0[i] != r {
                        return Err(Violation::new(
                            "concurrent-union-representative-not-minimum",
                            format!("{}: unions that returned before the call give class minima {} / {} for the arguments and {} for {r}", o.show(), must_min_a[i], must_min_b[i], must_min_r0[i]),
                        ));
                    }
                } else {
                    if p > c {
                        return Err(Violation::new("concurrent-union-parent-larger-than-child", format!("{}: the new parent must be the smaller id", o.show())));
                    }
                    if must_min_a[i] == must_min_b[i] {
                        return Err(Violation::new(
                            "concurrent-union-relinked-joined-class",
                            format!("{}: reports a fresh link, but unions that returned before the call already connect the arguments (class minimum {})", o.show(), must_min_a[i]),
                        ));
                    }
                    if !may_a[i] || !may_b[i] {
                        return Err(Violation::new("concurrent-union-unconnected-representative", format!("{}: a returned id is not connected to the arguments by unions invoked before it returned", o.show())));
                    }
                    if must_min_r1[i] != c || must_min_r0[i] != p {
                        return Err(Violation::new(
                            "concurrent-union-stale-root",
                            format!("{}: a returned id had already been joined to a smaller id (child -> {}, parent -> {}) by unions that returned before the call", o.show(), must_min_r1[i], must_min_r0[i]),
                        ));
                    }
                    let ok = (c <= must_min_a[i] && p <= must_min_b[i]) || (c <= must_min_b[i] && p <= must_min_a[i]);
                    if !ok {
                        return Err(Violation::new(
                            "concurrent-union-representative-not-minimum",
                            format!("{}: unions that returned before the call give class minima {} / {} for the arguments; (parent, child) cannot both have been roots of the two classes", o.show(), must_min_a[i], must_min_b[i]),
                        ));
                    }
                    if let Some(j) = child_of.insert(c, i) {
                        return Err(Violation::new(
                            "concurrent-child-returned-twice",
                            format!("{} and {}: the same id was reported as the displaced child of two links; an id stops being a root once and for all", hist[j].show(), o.show()),
                        ));
                    }
                }
            }
        }
    }
    // statistics: real overlap, conflicting overlap, displaced parents
    let mut fin = Dsu::new(n);
    for o in hist {
        if o.k == CK::Union {
            fin.union(o.a, o.b);
        }
    }
    let mut resize_overlap = false;
    for i in 0..cnt {
        let a = &hist[i];
        for b in hist.iter().skip(i + 1) {
            if b.inv > a.resp {
                break;
            }
            if a.t == b.t {
                continue;
            }
            stats.overlapping_pairs += 1;
            let big = |o: &Rec| o.a >= case.cap || (o.k != CK::Find && o.b >= case.cap);
            if big(a) || big(b) {
                resize_overlap = true;
            }
            if (a.k == CK::Union || b.k == CK::Union) && fin.same(a.a, b.a) {
                stats.conflicting_pairs += 1;
            }
        }
    }
    stats.runs_with_concurrent_resize += resize_overlap as u64;
    {
        // parent returned by a link that was not the class minimum once every union that returned before it did is applied
        let mut us: Vec<usize> = (0..cnt).filter(|i| hist[*i].k == CK::Union).collect();
        us.sort_by_key(|i| hist[*i].resp);
        let mut d = Dsu::new(n);
        for &i in &us {
            let o = &hist[i];
            d.union(o.a, o.b);
            if o.r0 != o.r1 && d.find(o.r0) != o.r0 {
                stats.displaced_parent += 1;
            }
        }
    }
    Ok(())
}

/// Complete linearizability search (Wing & Gong) for small histories. The abstract
/// state after a set of unions does not depend on their order, so the search
/// memoises on the set of linearized operations. Specification: find(x) = class
/// minimum; same_set = connected; union = (r, r) if connected, else child = the
/// larger of the two roots (exact) and parent = a member of the other class
/// (relaxed, see the module comment).
fn wing_gong(ids: usize, hist: &[Rec], states: &mut u64) -> bool {
    let cnt = hist.len();
    if cnt == 0 {
        return true;
    }
    let full: u32 = if cnt == 32 { u32::MAX } else { (1u32 << cnt) - 1 };
    let mut dead = vec![false; 1usize << cnt];
    let mut stack: Vec<u32> = vec![0];
    while let Some(mask) = stack.pop() {
        if mask == full {
            return true;
        }
        if dead[mask as usize] {
            continue;
        }
        dead[mask as usize] = true;
        *states += 1;
        let mut d = Dsu::new(ids + 1);
        for (i, o) in hist.iter().enumerate() {
            if mask >> i & 1 == 1 && o.k == CK::Union {
                d.union(o.a, o.b);
            }
        }
        // earliest response among the pending operations: only operations invoked before it may go next
        let min_resp = hist.iter().enumerate().filter(|(i, _)| mask >> i & 1 == 0).map(|(_, o)| o.resp).min().unwrap_or(u64::MAX);
        for (i, o) in hist.iter().enumerate() {
            if mask >> i & 1 == 1 || o.inv > min_resp {
                continue;
            }
            let ok = match o.k {
                CK::Find => d.find(o.a) == o.r0,
                CK::SameSet => d.same(o.a, o.b) == (o.r0 == 1),
                CK::Union => {
                    let (ra, rb) = (d.find(o.a), d.find(o.b));
                    if ra == rb {
                        o.r0 == ra && o.r1 == ra
                    } else {
                        o.r1 == ra.max(rb) && o.r0 != o.r1 && d.find(o.r0) == ra.min(rb)
                    }
                }
            };
            if ok {
                stack.push(mask | 1 << i);
            }
        }
    }
    false
}

/// child `c17-concurrent`: {"case": ConcCase, "reps": n} -> verdict
fn child_concurrent(payload: &J) -> J {
    fw::install_quiet_panic_hook();
    let Ok(case) = serde_json::from_value::<ConcCase>(payload["case"].clone()) else {
        return json!({"error": "bad scenario"});
    };
    let reps = payload["reps"].as_u64().unwrap_or(1).max(1) as usize;
    let mut st = ConcStats::default();
    let res = run_scenario(&case, reps, &mut st);
    let stats = json!({"runs": st.runs, "ops": st.ops, "overlapping_pairs": st.overlapping_pairs, "conflicting_pairs": st.conflicting_pairs,
        "displaced_parent": st.displaced_parent, "wg_histories": st.wg_histories, "wg_states": st.wg_states, "runs_with_concurrent_resize": st.runs_with_concurrent_resize});
    match res {
        Ok(()) => json!({"ok": true, "stats": stats}),
        Err(v) => json!({"ok": false, "sig": v.sig, "detail": v.detail, "stats": stats}),
    }
}

pub struct ConcStage {
    pub reps: usize,
    pub timeout: Duration,
}

/// A violation seen once for a scenario stays attached to that scenario for the rest
/// of the process: the OS schedule is sampled, so re-running the scenario while
/// shrinking may not hit the same interleaving again; the recorded history in the
/// detail is the evidence.
static MEMO: Mutex<BTreeMap<u64, Violation>> = Mutex::new(BTreeMap::new());

thread_local! {
    /// a scenario failed on this worker thread: proptest is now shrinking bytes on this thread
    static TL_FAILED: std::cell::Cell<bool> = const { std::cell::Cell::new(false) };
    /// the framework's structural simplification pass is running on this thread
    static TL_SIMPLIFY: std::cell::Cell<bool> = const { std::cell::Cell::new(false) };
}
/// candidates actually executed during structural simplification (bounded: each costs a child process)
static SIMPLIFY_RUNS: AtomicUsize = AtomicUsize::new(0);

static CHILD_BUSY: AtomicUsize = AtomicUsize::new(0);
static CHILD_BROKEN: AtomicUsize = AtomicUsize::new(0);

/// Bound on concurrently running scenario children (each has up to 16 threads).
static SLOTS: (Mutex<usize>, Condvar) = (Mutex::new(0), Condvar::new());

struct Slot;
impl Slot {
    fn take(max: usize) -> Slot {
        let mut g = SLOTS.0.lock().unwrap();
        while *g >= max {
            g = SLOTS.1.wait(g).unwrap();
        }
        *g += 1;
        Slot
    }
}
impl Drop for Slot {
    fn drop(&mut self) {
        *SLOTS.0.lock().unwrap() -= 1;
        SLOTS.1.notify_one();
    }
}

fn conc_valid(c: &ConcCase) -> bool {
    c.ids >= 1
        && c.ids <= 4096
        && c.cap <= 1 << 16
        && !c.threads.is_empty()
        && c.threads.len() <= 64
        && c.threads.iter().all(|t| t.len() <= 1000 && t.iter().all(|o| o.a < c.ids && o.b < c.ids))
}

impl Stage for ConcStage {
    type Input = ConcCase;
    fn name(&self) -> &'static str {
        "concurrent"
    }
    fn decode(&self, src: &mut Src) -> ConcCase {
        let tiny = src.chance(1, 3);
        let (cap, ids, nt, maxops);
        if tiny {
            cap = *src.pick(&[0u32, 1, 2, 4]);
            ids = 2 + src.below(5) as u32;
            nt = 2 + src.below(3);
            maxops = 4;
        } else {
            cap = *src.pick(&[1u32, 0, 2, 4, 8, 16, 32]);
            let mult = *src.pick(&[8u32, 4, 2, 1]);
            ids = (cap.max(1) * mult).max(3) + src.below(3) as u32;
            nt = *src.pick(&[2usize, 3, 4, 4, 6, 8, 12, 16]);
            maxops = 40;
        }
        let nops = 1 + src.below(maxops);
        // 0: ids uniform; 1: the id bound grows with the op index (one resize after the other while
        // the threads run); 2: the second argument of unions comes from a window that moves DOWN with the op
        // index, so class roots keep being displaced by smaller ids during the whole run
        let mode = src.below(4);
        if mode == 3 && !tiny && ids >= 4 {
            // "displacement" template: thread 0 joins two high ids and then keeps asking about them while
            // every other thread links one of them to ever smaller ids, so that the root of their class is
            // displaced again and again during the queries (exercises the re-check loop of same_set and the
            // retry loop of merge)
            let h1 = ids - 1 - src.below(ids as usize / 4 + 1) as u32;
            let mut h2 = ids - 1 - src.below(ids as usize / 2 + 1) as u32;
            if h2 == h1 {
                h2 = h1 - 1;
            }
            let nops = nops.max(4);
            let mut threads = vec![];
            let mut obs = vec![COp { k: CK::Union, a: h1, b: h2, pause: 0 }];
            for i in 1..nops {
                let (a, b) = if i % 2 == 0 { (h1, h2) } else { (h2, h1) };
                let k = if src.chance(1, 4) { CK::Find } else { CK::SameSet };
                obs.push(COp { k, a, b: if k == CK::Find { 0 } else { b }, pause: 0 });
            }
            threads.push(obs);
            for t in 1..nt {
                let mut ops = vec![];
                let lead = *src.pick(&[0u8, 0, 12, 30, 60, 120]);
                for i in 0..nops {
                    let z = (ids as usize * (nops - 1 - i) / nops + (t + src.below(3)) % (ids as usize / nops + 1)).min(ids as usize - 1) as u32;
                    let h = if src.bool() { h1 } else { h2 };
                    let k = if src.chance(1, 6) { CK::Find } else { CK::Union };
                    ops.push(COp { k, a: h, b: if k == CK::Find { 0 } else { z }, pause: if i == 0 { lead } else { 0 } });
                }
                threads.push(ops);
            }
            return ConcCase { cap, ids, threads };
        }
        let nhot = 2 + src.below(3);
        let hot: Vec<u32> = (0..nhot).map(|_| src.below(ids as usize) as u32).collect();
        let n_ids = ids as usize;
        let mut threads = vec![];
        for _ in 0..nt {
            // per thread: mixed / union-heavy / query-only observer / same_set-heavy
            let weights = *src.pick(&[[4usize, 3, 2], [7, 1, 1], [0, 3, 3], [2, 1, 5]]);
            let mut ops = vec![];
            for i in 0..nops {
                if i > 0 && src.exhausted() {
                    break;
                }
                let k = [CK::Union, CK::Find, CK::SameSet][src.pick_weighted(&weights)];
                let bound = if mode == 1 { ((n_ids * (i + 1)) / nops).clamp(2, n_ids) } else { n_ids };
                let pick_id = |src: &mut Src| -> u32 {
                    if src.chance(1, 2) { hot[src.below(hot.len())] } else { src.below(bound) as u32 }
                };
                let a = pick_id(src);
                let b = if k == CK::Find {
                    0
                } else if mode == 2 && k == CK::Union && src.chance(3, 4) {
                    let lo = n_ids * (nops - 1 - i) / nops;
                    let width = (n_ids / nops + 1).min(n_ids - lo);
                    (lo + src.below(width)) as u32
                } else {
                    pick_id(src)
                };
                // mostly none; spins are cheap, yields are rare (a yield costs milliseconds on a loaded machine)
                let pause = *src.pick(&[0u8, 0, 0, 0, 0, 0, 0, 0, 0, 0, 0, 12, 30, 60, 1, 2]);
                ops.push(COp { k, a, b, pause });
            }
            threads.push(ops);
        }
        ConcCase { cap, ids, threads }
    }
    fn render(&self, c: &ConcCase) -> J {
        json!({
            "initial_capacity": c.cap,
            "ids_below": c.ids,
            "threads": c.threads.iter().map(|t| t.iter().map(|o| if o.pause > 0 { format!("pause{} {}", o.pause, o.show()) } else { o.show() }).collect::<Vec<_>>().join("; ")).collect::<Vec<_>>(),
        })
    }
    fn simplify(&self, c: &ConcCase) -> Vec<ConcCase> {
        TL_SIMPLIFY.with(|f| f.set(true));
        let mut out = vec![];
        if c.threads.len() > 2 {
            for t in 0..c.threads.len() {
                let mut d = c.clone();
                d.threads.remove(t);
                out.push(d);
            }
        }
        for t in 0..c.threads.len() {
            if c.threads[t].len() > 1 {
                let mut d = c.clone();
                let l = d.threads[t].len();
                d.threads[t].truncate(l / 2);
                out.push(d);
                let mut d = c.clone();
                d.threads[t].pop();
                out.push(d);
            }
        }
        out.truncate(24);
        out
    }
    fn check(&self, c: &ConcCase) -> Outcome {
        let text = serde_json::to_string(c).unwrap_or_default();
        let mut out = Outcome::new(fnv_str(&text));
        if !conc_valid(c) {
            out.class("invalid-input");
            return out;
        }
        // static facts about the scenario (pure functions of the input)
        let n = c.ids as usize + 1;
        let mut fin = Dsu::new(n);
        let mut beyond = 0u64;
        let mut total = 0u64;
        for t in &c.threads {
            for o in t {
                total += 1;
                if o.k == CK::Union {
                    fin.union(o.a, o.b);
                }
                if o.a >= c.cap || (o.k != CK::Find && o.b >= c.cap) {
                    beyond += 1;
                }
            }
        }
        let mut touched: BTreeMap<u32, (std::collections::BTreeSet<usize>, bool)> = BTreeMap::new();
        for (ti, t) in c.threads.iter().enumerate() {
            for o in t {
                let ids: &[u32] = if o.k == CK::Find { &[o.a] } else { &[o.a, o.b] };
                for x in ids {
                    let e = touched.entry(fin.find(*x)).or_default();
                    e.0.insert(ti);
                    e.1 |= o.k == CK::Union && o.a != o.b;
                }
            }
        }
        let shared = touched.values().filter(|(ts, u)| ts.len() >= 2 && *u).count();
        out.nontrivial = beyond > 0 && shared > 0;
        out.class(format!("threads={}", match c.threads.len() { 2 => "2", 3..=4 => "3-4", 5..=8 => "5-8", _ => "9-16" }));
        out.class(format!("cap={}", c.cap));
        out.class(if total <= 16 { "ops<=16(complete-linearizability-search)" } else if total <= 100 { "ops<=100" } else { "ops>100" });
        out.class(if beyond > 0 { "resizes" } else { "no-resize" });
        out.class(if shared > 0 { "class-shared-by->=2-threads" } else { "no-shared-class" });
        if let Some(v) = MEMO.lock().unwrap().get(&out.key) {
            out.fail(v.sig.clone(), v.detail.clone());
            return out;
        }
        // After a failure on this thread proptest shrinks the byte string by re-running `check` thousands of
        // times. The failure depends on the OS schedule, every run costs a process, and a smaller byte string is
        // a different scenario anyway: byte-level shrinking is skipped (candidates are not executed, the failing
        // scenario itself stays failing through MEMO); the structural pass (`simplify`) re-runs a bounded number
        // of smaller scenarios with more repetitions.
        let simplifying = TL_SIMPLIFY.with(|f| f.get());
        if TL_FAILED.with(|f| f.get()) && !simplifying {
            out.class("skipped-while-shrinking");
            return out;
        }
        // the same number of thread-runs for every scenario: many-thread scenarios are repeated less often
        let mut reps = (self.reps * 4 / c.threads.len().max(4)).max(3);
        if simplifying {
            if SIMPLIFY_RUNS.fetch_add(1, Ordering::SeqCst) >= 60 {
                return out;
            }
            reps *= 5;
        }
        let max_children = (std::thread::available_parallelism().map(|n| n.get()).unwrap_or(8) / 4).max(1);
        let res = {
            let _slot = Slot::take(max_children);
            let t = std::time::Instant::now();
            let r = run_child(ChildJob { kind: "c17-concurrent", payload: json!({"case": c, "reps": reps}), env: vec![], timeout: self.timeout, cwd: None });
            let ms = t.elapsed().as_millis() as u64;
            out.count("child_wall_ms", ms);
            if ms >= 1000 {
                out.class("child-took>=1s");
            }
            r
        };
        let mut fail: Option<Violation> = None;
        match res {
            ChildResult::Ok(j) => {
                if j.get("error").is_some() {
                    out.class("child-error");
                    out.count("child_errors", 1);
                    return out;
                }
                for k in ["runs", "ops", "overlapping_pairs", "conflicting_pairs", "displaced_parent", "wg_histories", "wg_states", "runs_with_concurrent_resize"] {
                    out.count(k, j["stats"][k].as_u64().unwrap_or(0));
                }
                if j["stats"]["conflicting_pairs"].as_u64().unwrap_or(0) > 0 {
                    out.class("observed-overlapping-conflicting-ops");
                }
                if j["ok"].as_bool() != Some(true) {
                    fail = Some(Violation::new(j["sig"].as_str().unwrap_or("concurrent-unknown").to_string(), j["detail"].as_str().unwrap_or("").to_string()));
                }
            }
            ChildResult::Quiescent { stderr } => {
                fail = Some(Violation::new(
                    "concurrent-deadlock",
                    format!("the scenario did not finish within {}s and every thread of the process was asleep without CPU progress (deadlock suspect); stderr tail:\n{stderr}", self.timeout.as_secs()),
                ));
            }
            ChildResult::Crashed { status, stderr } => {
                fail = Some(Violation::new(format!("concurrent-crash:{}", crash_key(&status, &stderr)), format!("the process running the scenario died ({status}); stderr tail:\n{stderr}")));
            }
            ChildResult::Busy => {
                CHILD_BUSY.fetch_add(1, Ordering::SeqCst);
                out.class("child-busy");
                out.count("child_busy", 1);
            }
            ChildResult::Broken(m) => {
                CHILD_BROKEN.fetch_add(1, Ordering::SeqCst);
                out.class("child-broken");
                out.count("child_broken", 1);
                if std::env::var("VERIF_DEBUG").is_ok() {
                    eprintln!("c17 child broken: {m}");
                }
            }
        }
        if let Some(v) = fail {
            TL_FAILED.with(|f| f.set(true));
            MEMO.lock().unwrap().insert(out.key, v.clone());
            out.fail(v.sig, v.detail);
        }
        out
    }
}

// ---------------------------------------------------------------------------
// entry points
// ---------------------------------------------------------------------------

pub fn run(rep: &Report) {
    rep.set_rule(
        "seq-exhaustive: one case = one batch = a 0- or 2-operation prefix plus EVERY extension up to the stated length over the full operation alphabet on <= 6 ids \
         (sequential UnionFind: union/find/find_naive/reserve/reset; concurrent UnionFind used single-threaded with several initial capacities: union/find/same_set/reset); \
         counters seq-exhaustive:sequences / nontrivial_sequences give the number of sequences, every one checked after every operation against a min-label partition model \
         (returned values, find_naive and find of every id, find on a clone then find_naive again). \
         seq-random: proptest byte strings decoded into sequences of <= 2000 operations over <= 64 ids, same oracle after every operation. \
         A sequential case is non-trivial when it has >= 1 union that merged two classes and >= 1 find/find_naive/same_set after it; distinct = distinct (structure, ids, capacity, sequence). \
         concurrent: proptest byte strings decoded into a scenario (initial capacity 0..32, id space up to 8x capacity, 2..16 threads with fixed lists of union/find/same_set and scenario-decided yields/spins; \
         shapes: tiny (<= 4 threads x <= 4 ops), uniform, growing id bound, descending union partners, root-displacement template); \
         each scenario is executed `runs` times in a child process with every operation stamped from one shared counter; oracles: final partition = closure of all unions with min-id representatives, \
         sound necessary conditions of linearizability on the stamped history, complete Wing-Gong search for histories of <= 16 operations. \
         A scenario is non-trivial when some operation uses an id >= the initial capacity (forces a resize while other threads run) and some final class containing a real union is touched by >= 2 threads; \
         distinct = distinct scenario; the OS schedule is the sampled part (counters concurrent:runs, overlapping_pairs, conflicting_pairs measure it).",
    );
    rep.assume("stamps: an operation A precedes B in real time iff A's response stamp < B's invocation stamp (one SeqCst counter, fetch_add immediately before the call and after the return)");
    rep.assume("concurrent union: only the returned child is required to be exact; the returned parent may have been displaced by a concurrent link (it must still be a smaller id that was a root of the other argument's class during the call)");
    rep.assume("no reset() runs concurrently with other operations (the quantifier names unions, finds, same_set and growth only); reset and deep_copy are checked after the threads joined");

    // VERIF_C17_ONLY=<stage name> restricts the run to one stage (sensitivity measurements, debugging);
    // such a run is marked in the evidence.
    let only = std::env::var("VERIF_C17_ONLY").ok().filter(|s| !s.is_empty());
    let want = |name: &str| only.as_deref().is_none_or(|o| o == name);
    if let Some(o) = &only {
        rep.note(format!("PARTIAL RUN: VERIF_C17_ONLY={o}"));
    }
    let mut walls = serde_json::Map::new();
    let random = SeqStage { name: "seq-random" };
    let conc = ConcStage { reps: rep.tier.pick(16, 32), timeout: Duration::from_secs(60) };

    // golden cases first (smoke test of each stage; they also become the evidence samples)
    if only.is_none() {
        rep.run_one(
            &random,
            &SeqCase {
                target: Target::Seq,
                n: 4,
                cap: 0,
                ops: vec![Op::Union(2, 3), Op::Union(1, 2), Op::Union(0, 1), Op::FindNaive(3), Op::Find(3), Op::Reserve(3), Op::Union(0, 3), Op::Union(2, 2), Op::Reset, Op::Find(3), Op::Union(3, 1)],
                extend: 0,
            },
        );
        rep.run_one(
            &random,
            &SeqCase {
                target: Target::Conc,
                n: 6,
                cap: 1,
                ops: vec![Op::Union(4, 5), Op::Union(3, 4), Op::Union(2, 3), Op::SameSet(5, 2), Op::Find(5), Op::SameSet(4, 1), Op::Union(1, 1), Op::Union(5, 2), Op::Reset, Op::Find(5), Op::Union(5, 0)],
                extend: 0,
            },
        );
        let o = |k, a, b, pause| COp { k, a, b, pause };
        rep.run_one(
            &conc,
            &ConcCase {
                cap: 1,
                ids: 8,
                threads: vec![
                    vec![o(CK::Union, 7, 3, 0), o(CK::Find, 7, 0, 0), o(CK::SameSet, 3, 7, 1)],
                    vec![o(CK::Union, 7, 5, 0), o(CK::Find, 5, 0, 12)],
                    vec![o(CK::Union, 5, 3, 0), o(CK::SameSet, 7, 5, 0), o(CK::Find, 7, 0, 0)],
                ],
            },
        );
    }
    let mut timed = |name: &str, f: &dyn Fn()| {
        if want(name) && !rep.stopped() {
            let t = std::time::Instant::now();
            f();
            walls.insert(name.to_string(), json!((t.elapsed().as_secs_f64() * 10.0).round() / 10.0));
        }
    };
    timed("seq-exhaustive", &|| run_seq_exhaustive(rep));
    timed("seq-random", &|| {
        rep.run_regressions(&random);
        rep.explore(&random, rep.tier.pick(6_000, 200_000), 6_200);
    });
    timed("concurrent", &|| {
        rep.run_regressions(&conc);
        rep.explore(&conc, rep.tier.pick(500, 6_000), 2_400);
    });
    rep.extra("stage_wall_s", J::Object(walls));
    let (busy, broken) = (CHILD_BUSY.load(Ordering::SeqCst), CHILD_BROKEN.load(Ordering::SeqCst));
    if busy > 0 {
        rep.inconclusive(format!("concurrent: {busy} scenario child(ren) were still computing after the watchdog timeout (livelock suspect or machine too slow)"));
    }
    if broken > 0 {
        rep.inconclusive(format!("concurrent: {broken} scenario child(ren) could not be started or broke the protocol"));
    }
}

pub fn replay(rep: &Report, stage: &str, j: &J) -> i32 {
    match stage {
        "seq-exhaustive" => crate::registry::replay_stage(rep, &SeqStage { name: "seq-exhaustive" }, j),
        "seq-random" => crate::registry::replay_stage(rep, &SeqStage { name: "seq-random" }, j),
        "concurrent" => crate::registry::replay_stage(rep, &ConcStage { reps: 300, timeout: Duration::from_secs(120) }, j),
        _ => 2,
    }
}

pub fn child(kind: &str, payload: &J) -> Option<J> {
    match kind {
        "c17-seqexh" => Some(child_seqexh(payload)),
        "c17-concurrent" => Some(child_concurrent(payload)),
        _ => None,
    }
}
