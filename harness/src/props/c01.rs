//! C01 — equality is exactly the congruence closure of what was asserted.
//! (see lockstep.rs for the machinery)

use super::lockstep::{Lockstep, Mode};
use crate::fw::{Report, Tier};
use crate::pgen::GenCfg;

fn stage(pairs: usize) -> Lockstep {
    Lockstep { name: "lockstep", mode: Mode::C01, cfg: GenCfg { subsume: false, delete: false, ..GenCfg::default() }, pairs_per_prefix: pairs, naive_engine: false }
}

pub fn replay(rep: &Report, _stage: &str, j: &serde_json::Value) -> i32 {
    crate::registry::replay_stage(rep, &stage(5), j)
}

pub fn run(rep: &Report) {
    rep.set_rule(
        "cases = typed monotone egglog histories (constructors, relations, lattice functions, rules, rewrites, unions, schedules) decoded from proptest byte strings; \
         each runs command-by-command on the engine and on the naive reference interpreter, comparing canonical dumps after every command plus check/extract probes on a clone; \
         non-trivial = distinct program text in which the reference model performed at least one congruence-induced merge during rebuilding",
    );
    rep.assume("reference interpreter refegg.rs is a faithful executable definition of congruence closure + one-iteration rule semantics (it is cross-checked against the engine on the unchanged tree)");
    rep.assume("terms not represented in the e-graph are outside the claim (egglog does not assume reflexivity for absent terms)");
    let st = stage(rep.tier.pick(3, 5));
    rep.run_regressions(&st);
    let cases = match rep.tier {
        Tier::Quick => 12_000,
        Tier::Thorough => 150_000,
    };
    rep.explore(&st, cases, 400);
    let big = Lockstep { cfg: GenCfg { max_cmds: 40, min_cmds: 10, ..st.cfg.clone() }, ..stage(4) };
    rep.explore(&big, rep.tier.pick(600, 12_000), 1200);
}
