//! C01 — equality is exactly the congruence closure of what was asserted.
//! (see lockstep.rs for the machinery)

use super::lockstep::{Lockstep, Mode};
use crate::fw::{Report, Tier};
use crate::pgen::GenCfg;

fn stage(pairs: usize) -> Lockstep {
    Lockstep { name: "lockstep", mode: Mode::C01, cfg: GenCfg { subsume: false, delete: false, ..GenCfg::default() }, pairs_per_prefix: pairs, naive_engine: false }
}

pub fn replay(rep: &Report, stage_name: &str, j: &serde_json::Value) -> i32 {
    match stage_name {
        "large-table" => crate::registry::replay_stage(rep, &LargeTable, j),
        _ => crate::registry::replay_stage(rep, &stage(5), j),
    }
}

pub fn run(rep: &Report) {
    rep.set_rule(
        "cases = typed monotone egglog histories (constructors, relations, lattice functions, rules, rewrites, unions, schedules) decoded from proptest byte strings; \
         each runs command-by-command on the engine and on the naive reference interpreter, comparing canonical dumps after every command plus check/extract probes on a clone; \
         non-trivial = distinct program text in which the reference model performed at least one congruence-induced merge during rebuilding",
    );
    rep.assume("reference interpreter refegg.rs is a faithful executable definition of congruence closure + one-iteration rule semantics (it is cross-checked against the engine on the unchanged tree)");
    rep.assume("terms not represented in the e-graph are outside the claim (egglog does not assume reflexivity for absent terms)");
    let st = stage(rep.tier.pick(3, 5));
    rep.run_regressions(&st);
    let cases = match rep.tier {
        Tier::Quick => 12_000,
        Tier::Thorough => 150_000,
    };
    rep.explore(&st, cases, 400);
    let big = Lockstep { cfg: GenCfg { max_cmds: 40, min_cmds: 10, ..st.cfg.clone() }, ..stage(4) };
    rep.explore(&big, rep.tier.pick(600, 12_000), 1200);
    // > 10 000-row tables: the incremental rebuild path (a handful of unions on a big table)
    rep.run_regressions(&LargeTable);
    rep.explore(&LargeTable, rep.tier.pick(48, 1500), 64);
    let inc = crate::runner::path_counters().get("table_rebuild_incremental").copied().unwrap_or(0);
    rep.extra("incremental_table_rebuilds_entered", serde_json::json!(inc));
}

// ---------------------------------------------------------------------------
// large-table stage: > 10 000 rows so that rebuilding takes the INCREMENTAL path
// ---------------------------------------------------------------------------

use crate::choice::{fnv_str, Src};
use crate::fw::{Outcome, Stage};
use crate::prog::*;
use crate::refegg::{Limits, Model};

pub struct LargeTable;

fn big_sig() -> Sig {
    let mut sig = Sig::default();
    sig.sorts.push("S".into());
    let ctor = |name: &str, args: Vec<Ty>| FuncDecl { name: name.into(), kind: FKind::Ctor { cost: None, unextractable: false }, args, out: Ty::Eq(0) };
    sig.funcs.push(ctor("Num", vec![Ty::I64])); // 0
    sig.funcs.push(ctor("F", vec![Ty::Eq(0), Ty::Eq(0)])); // 1
    sig.funcs.push(ctor("G", vec![Ty::Eq(0)])); // 2
    sig.funcs.push(FuncDecl { name: "R".into(), kind: FKind::Rel, args: vec![Ty::Eq(0)], out: Ty::I64 }); // 3
    sig.funcs.push(FuncDecl { name: "H".into(), kind: FKind::Func { merge: Merge::Min }, args: vec![Ty::Eq(0)], out: Ty::I64 }); // 4
    sig.rulesets.push("fill".into());
    sig.rulesets.push("later".into());
    sig
}

impl Stage for LargeTable {
    type Input = Prog;
    fn name(&self) -> &'static str {
        "large-table"
    }
    fn decode(&self, s: &mut Src) -> Prog {
        let sig = big_sig();
        let n = 101 + s.below(25) as i64; // n*n > 10 000 rows of F
        let num = |i: i64| Term::App(0, vec![Term::I(i)]);
        let f = |a: Term, b: Term| Term::App(1, vec![a, b]);
        let mut cmds = vec![];
        // Num 0..n through one rule over a seed relation would need arithmetic; insert directly in one command batch
        for i in 0..n {
            cmds.push(Cmd::Act(Action::Expr(num(i))));
        }
        let (a, b, i, j) = (Term::Var("a".into()), Term::Var("b".into()), Term::Var("i".into()), Term::Var("j".into()));
        cmds.push(Cmd::Rule {
            body: vec![Fact::Eq(a.clone(), Term::App(0, vec![i])), Fact::Eq(b.clone(), Term::App(0, vec![j]))],
            head: vec![Action::Expr(f(a.clone(), b.clone()))],
            opts: RuleOpts { ruleset: Some(0), ..Default::default() },
        });
        cmds.push(Cmd::RunN { rs: Some(0), n: 1, until: vec![] });
        // a congruence consumer declared late
        if s.bool() {
            let x = Term::Var("x".into());
            cmds.push(Cmd::Rule { body: vec![Fact::Eq(x.clone(), f(a.clone(), a.clone()))], head: vec![Action::Expr(Term::App(3, vec![x]))], opts: RuleOpts { ruleset: Some(1), ..Default::default() } });
        }
        let mut rnd = |s: &mut Src| s.range(0, (n - 1).min(12));
        let n_ops = 3 + s.below(8);
        for _ in 0..n_ops {
            let (p, q, r, t) = (rnd(s), rnd(s), rnd(s), rnd(s));
            match s.below(9) {
                0 => cmds.push(Cmd::Act(Action::Union(f(num(p), num(p)), num(q)))), // row with equal arguments, output displaced
                1 => cmds.push(Cmd::Act(Action::Union(num(p), num(q)))),              // collapses a row and a column of F
                2 => cmds.push(Cmd::Act(Action::Union(f(num(p), num(q)), f(num(r), num(t))))),
                3 => cmds.push(Cmd::Act(Action::Union(f(num(p), num(q)), num(r)))),
                4 => cmds.push(Cmd::Act(Action::Expr(Term::App(2, vec![f(num(p), num(q))])))),
                5 => cmds.push(Cmd::Act(Action::Set(4, vec![f(num(p), num(q))], Term::I(s.range(0, 5))))),
                6 => cmds.push(Cmd::RunN { rs: Some(1), n: 1, until: vec![] }),
                7 => cmds.push(Cmd::Check(vec![Fact::Eq(f(num(p), num(q)), f(num(r), num(t)))])),
                _ => cmds.push(Cmd::Check(vec![Fact::Eq(f(num(p), num(p)), num(q))])),
            }
        }
        Prog { sig, cmds }
    }
    fn render(&self, p: &Prog) -> serde_json::Value {
        let t = p.cmd_texts();
        let inserts = t.iter().filter(|l| l.starts_with("(Num ")).count();
        let rest: Vec<&String> = t.iter().filter(|l| !l.starts_with("(Num ")).collect();
        serde_json::json!({"num_leaves": inserts, "commands": rest})
    }
    fn simplify(&self, p: &Prog) -> Vec<Prog> {
        // keep the table-building prefix, drop later commands one at a time
        let k = p.cmds.iter().position(|c| matches!(c, Cmd::RunN { .. })).map(|i| i + 1).unwrap_or(0);
        let mut v = vec![];
        for i in (k..p.cmds.len()).rev() {
            let mut q = p.clone();
            q.cmds.remove(i);
            v.push(q);
        }
        v
    }
    fn check(&self, prog: &Prog) -> Outcome {
        use super::{compare_dumps, declare, step_both, Step};
        let mut out = Outcome::new(fnv_str(&prog.text()));
        let mut eg = egglog::EGraph::default();
        if !declare(&mut eg, &prog.sig, &mut out) {
            return out;
        }
        let mut model = Model::new(&prog.sig);
        model.limits = Limits { max_rows: 60_000, max_matches: 5_000_000, max_saturate_iters: 10 };
        let before = crate::runner::path_counters().get("table_rebuild_incremental").copied().unwrap_or(0);
        let mut table_built = false;
        for (i, c) in prog.cmds.iter().enumerate() {
            match step_both(&mut eg, &mut model, &prog.sig, i, c, &mut out) {
                Step::Stop => break,
                Step::Both => {}
            }
            if matches!(c, Cmd::RunN { .. }) {
                table_built = true;
            }
            // compare after every command once the big table exists (the leaf inserts before are uninteresting)
            if table_built && !compare_dumps(&eg, &model, &format!("after command #{i} `{}`", prog.sig.cmd(c)), &mut out) {
                break;
            }
            if table_built {
                // the canonical dump canonicalises ids itself, so a row left with a displaced id is invisible there:
                // look at the raw ids too, and ask the engine directly about the equality just asserted
                if let Some(v) = crate::inv::check_all(&eg) {
                    out.fail(format!("large-table:{}", v.sig), format!("after command #{i} `{}`: {}", prog.sig.cmd(c), v.detail));
                    break;
                }
                if let Cmd::Act(Action::Union(a, b)) = c {
                    let text = format!("(check (= {} {}))", prog.sig.term(a), prog.sig.term(b));
                    let mut clone = eg.clone();
                    if !crate::eng::run(&mut clone, &text).is_ok() {
                        out.fail("check-missed-equality", format!("right after `{}`, `{text}` fails", prog.sig.cmd(c)));
                        break;
                    }
                }
            }
        }
        let after = crate::runner::path_counters().get("table_rebuild_incremental").copied().unwrap_or(0);
        if after > before {
            out.class("incremental-rebuild-path-entered(hook counter)");
        }
        if model.congruence_merges >= 1 {
            out.class("has-congruence-merge");
        }
        out.count("rows_in_model", model.st.total_rows() as u64);
        // the counter is process-wide (other worker threads add to it), so the class above is an over-approximation
        // per case; the per-run total in evidence is what shows that the path was entered at all
        out.nontrivial = table_built && model.congruence_merges >= 1;
        out
    }
}
