//! C01 — equality is exactly the congruence closure of what was asserted.
//!
//! Generated monotone histories run in lockstep on the engine and on the naive
//! reference interpreter. After EVERY command: (1) canonical dumps must be
//! isomorphic (every table, every class named by its least term), (2) on a clone
//! of the engine, `(check (= t1 t2))` for sampled pairs of ground terms must
//! succeed exactly for the pairs the model puts in one class, (3) `(extract t)`
//! must print a term of t's class, equal for equal terms and different otherwise.

use super::*;
use crate::choice::{fnv_str, Src};
use crate::fw::{Outcome, Report, Stage, Tier};
use crate::pgen::{simplify_prog, Gen, GenCfg};
use serde::{Deserialize, Serialize};

#[derive(Clone, Serialize, Deserialize)]
pub struct Case {
    pub prog: Prog,
    pub probe: u64,
}

pub struct C01 {
    pub cfg: GenCfg,
    pub pairs_per_prefix: usize,
}

pub fn all_ground_terms(p: &Prog) -> Vec<Term> {
    fn walk_fact(f: &Fact, out: &mut Vec<Term>) {
        match f {
            Fact::Eq(a, b) => {
                collect(a, out);
                collect(b, out);
            }
            Fact::T(t) => collect(t, out),
        }
    }
    fn ground(t: &Term) -> bool {
        let mut v = vec![];
        t.vars(&mut v);
        v.is_empty()
    }
    fn collect(t: &Term, out: &mut Vec<Term>) {
        let mut subs = vec![];
        t.subterms(&mut subs);
        for s in subs {
            if matches!(s, Term::App(..)) && ground(&s) && !out.contains(&s) {
                out.push(s);
            }
        }
    }
    let mut out = vec![];
    for c in &p.cmds {
        match c {
            Cmd::Act(Action::Expr(t)) => collect(t, &mut out),
            Cmd::Act(Action::Union(a, b)) => {
                collect(a, &mut out);
                collect(b, &mut out);
            }
            Cmd::Act(Action::Set(f, args, _)) | Cmd::Act(Action::Subsume(f, args)) | Cmd::Act(Action::Delete(f, args)) => {
                collect(&Term::App(*f, args.clone()), &mut out)
            }
            Cmd::Check(fs) => fs.iter().for_each(|f| walk_fact(f, &mut out)),
            _ => {}
        }
    }
    out
}

impl C01 {
    fn probes(&self, case: &Case, eg: &egglog::EGraph, model: &Model, terms: &[Term], probe: &mut Probe, idx: usize, out: &mut Outcome) {
        let sig = &case.prog.sig;
        // only eq-sort terms
        let eq_terms: Vec<&Term> = terms
            .iter()
            .filter(|t| match t {
                Term::App(f, _) => matches!(sig.funcs[*f].out, Ty::Eq(_)) && sig.funcs[*f].is_ctor(),
                _ => false,
            })
            .collect();
        if eq_terms.len() < 2 {
            return;
        }
        let mut clone = eg.clone();
        for _ in 0..self.pairs_per_prefix {
            let a = eq_terms[probe.below(eq_terms.len())];
            let b = eq_terms[probe.below(eq_terms.len())];
            let (Term::App(fa, _), Term::App(fb, _)) = (a, b) else { continue };
            if sig.funcs[*fa].out != sig.funcs[*fb].out {
                continue;
            }
            let (va, vb) = (model.eval_ground(a), model.eval_ground(b));
            let expected = va.is_some() && vb.is_some() && va == vb;
            let text = format!("(check (= {} {}))", sig.term(a), sig.term(b));
            let r = eng::run(&mut clone, &text);
            out.count("check_probes", 1);
            match (&r, expected) {
                (CmdRes::Ok(_), true) => out.count("check_probes_equal", 1),
                (CmdRes::Err(ErrKind::Check, _), false) => {}
                (CmdRes::Ok(_), false) => {
                    out.fail(
                        "check-invented-equality",
                        format!("after command #{idx}: `{text}` succeeds, but the terms are not equal (or not both represented) in the congruence closure of the asserted unions"),
                    );
                    return;
                }
                (CmdRes::Err(ErrKind::Check, _), true) => {
                    out.fail("check-missed-equality", format!("after command #{idx}: `{text}` fails, but the equality follows from the asserted unions by congruence closure"));
                    return;
                }
                (other, _) => {
                    out.fail("check-probe-error", format!("after command #{idx}: `{text}` gave {}", other.short()));
                    return;
                }
            }
            // extraction channel (only for represented terms, and only when every constructor is extractable)
            if va.is_some() && vb.is_some() {
                let ea = eng::run(&mut clone, &format!("(extract {})", sig.term(a)));
                let eb = eng::run(&mut clone, &format!("(extract {})", sig.term(b)));
                if let (CmdRes::Ok(oa), CmdRes::Ok(ob)) = (&ea, &eb) {
                    if oa.len() == 1 && ob.len() == 1 {
                        out.count("extract_probes", 1);
                        let (sa, sb) = (oa[0].trim(), ob[0].trim());
                        if (sa == sb) != expected {
                            out.fail(
                                "extract-class-mismatch",
                                format!("after command #{idx}: extract {} = {sa}, extract {} = {sb}; model says equal={expected}", sig.term(a), sig.term(b)),
                            );
                            return;
                        }
                        if let Some(t) = sig.parse_term(sa) {
                            let got = model.eval_ground(&t);
                            if got != va {
                                out.fail(
                                    "extract-outside-class",
                                    format!("after command #{idx}: (extract {}) printed {sa}, which the model evaluates to {:?}, but the root is {:?}", sig.term(a), got, va),
                                );
                                return;
                            }
                        }
                    }
                }
            }
        }
    }
}

impl Stage for C01 {
    type Input = Case;
    fn name(&self) -> &'static str {
        "lockstep"
    }
    fn decode(&self, src: &mut Src) -> Case {
        let probe = src.u16() as u64;
        let prog = Gen::new(src, self.cfg.clone()).gen_prog();
        Case { prog, probe }
    }
    fn render(&self, inp: &Case) -> serde_json::Value {
        serde_json::json!({"program": inp.prog.text().lines().collect::<Vec<_>>(), "probe": inp.probe})
    }
    fn simplify(&self, inp: &Case) -> Vec<Case> {
        simplify_prog(&inp.prog).into_iter().map(|p| Case { prog: p, probe: inp.probe }).collect()
    }
    fn check(&self, case: &Case) -> Outcome {
        let prog = &case.prog;
        let mut out = Outcome::new(fnv_str(&prog.text()));
        let mut eg = egglog::EGraph::default();
        if !declare(&mut eg, &prog.sig, &mut out) {
            return out;
        }
        let mut model = Model::new(&prog.sig);
        let terms = all_ground_terms(prog);
        let mut probe = Probe(case.probe ^ out.key);
        let mut executed = 0;
        for (i, c) in prog.cmds.iter().enumerate() {
            match step_both(&mut eg, &mut model, &prog.sig, i, c, &mut out) {
                Step::Stop => break,
                Step::Both => {}
            }
            executed += 1;
            if !compare_dumps(&eg, &model, &format!("after command #{i} `{}`", prog.sig.cmd(c)), &mut out) {
                break;
            }
            self.probes(case, &eg, &model, &terms, &mut probe, i, &mut out);
            if out.fail.is_some() {
                break;
            }
        }
        out.count("commands_executed", executed);
        out.nontrivial = model.congruence_merges >= 1;
        if model.congruence_merges >= 1 {
            out.class("has-congruence-merge");
        }
        if model.rebuild_passes_max >= 3 {
            out.class("congruence-chain>=3-passes");
        }
        if model.rule_unions >= 1 {
            out.class("rule-made-union");
        }
        if model.fd_merges >= 1 {
            out.class("function-merge");
        }
        if model.iterations_changed >= 2 {
            out.class("iterations-changed>=2");
        }
        out
    }
}

pub fn replay(rep: &Report, _stage: &str, j: &serde_json::Value) -> i32 {
    crate::registry::replay_stage(rep, &C01 { cfg: GenCfg::default(), pairs_per_prefix: 5 }, j)
}

pub fn run(rep: &Report) {
    rep.set_rule(
        "cases = typed monotone egglog histories (constructors, relations, lattice functions, rules, rewrites, unions, schedules) decoded from proptest byte strings; \
         each runs command-by-command on the engine and on the naive reference interpreter, comparing canonical dumps after every command plus check/extract probes on a clone; \
         non-trivial = distinct program text in which the reference model performed at least one congruence-induced merge during rebuilding",
    );
    rep.assume("reference interpreter refegg.rs is a faithful executable definition of congruence closure + one-iteration rule semantics (it is cross-checked against the engine on the unchanged tree)");
    rep.assume("terms not represented in the e-graph are outside the claim (egglog does not assume reflexivity for absent terms)");
    let stage = C01 { cfg: GenCfg { subsume: false, delete: false, ..GenCfg::default() }, pairs_per_prefix: rep.tier.pick(3, 5) };
    rep.run_regressions(&stage);
    let cases = match rep.tier {
        Tier::Quick => 1500,
        Tier::Thorough => 40_000,
    };
    rep.explore(&stage, cases, 400);
    if rep.tier == Tier::Thorough {
        let big = C01 { cfg: GenCfg { max_cmds: 40, min_cmds: 10, ..stage.cfg.clone() }, pairs_per_prefix: 4 };
        rep.explore(&big, 6000, 1200);
    }
}
