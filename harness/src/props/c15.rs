//! C15 — printing and re-parsing a program is the identity, at every stage.
//!
//! Stage (a) "command-roundtrip" / "command-roundtrip-bytes": command TEXT from a grammar over
//! every command, option, schedule, fact, action, expression and literal form that
//! `src/ast/parse.rs` knows (resp. mutated/spliced `tests/*.egg` texts) is parsed (AST1), every
//! command is printed with `Display`, the printed text is parsed again (AST2) and a harness-side,
//! span-free canonical tree of AST1 must equal that of AST2. The canonical tree is written here,
//! field by field, over all variants; it never calls the `Display` impls under test (floats by
//! bit pattern, strings by Rust `{:?}`). Two normal forms the code base defines itself are
//! applied: schedules are compared modulo the code's own `flatten_sequences` (re-implemented
//! here), and `_` wildcards are fresh `@_N` names (identical on both sides because the printed
//! text carries the generated name; the sanitised path below is compared up to a bijective
//! renaming). In addition, for trees that contain the reserved prefix: `sanitize_internal_names`
//! must be a bijective renaming and its output must print to text that the DEFAULT parser accepts
//! and that parses back to the sanitised tree.
//! Stage (b) "extract-roundtrip" / "extract-roundtrip-literals": every value of every table of a
//! generated program (pgen: eq-sorts, containers, costs, subsume) resp. of a literal-heavy program
//! (i64/f64/String/bool/Unit/containers over the unusual literals) is extracted; the printed term
//! must parse (to the same term) and evaluate, on a clone, to the value it was extracted from.
//! Stage (c) "resolve-roundtrip" / "resolve-roundtrip-corpus": `EGraph::resolve_program` output,
//! printed command by command, must run on a fresh engine (recipe of tests/files.rs `_desugar`
//! trials: `ensure_no_reserved_symbols(false)`, `(print-size)` appended) with the same stable
//! outputs, the same Ok/Err and the same final user-visible database as the source; the CLI recipe
//! (`sanitize_internal_names`, default parser) must do so as well.

use crate::choice::{fnv_str, Src};
use crate::eng::{self, CmdRes};
use crate::fw::{catch, panic_key, Outcome, Report, Stage, Violation};
use crate::pgen::{simplify_prog, Gen, GenCfg};
use crate::prog::Prog;
use egglog::ast::{
    sanitize_internal_names, Change, Command, ContainerRebuildSpec, Expr, GenericAction, GenericCommand, GenericExpr, GenericFact, GenericRewrite, GenericRule, GenericSchedule, Literal,
    Parser, PrintFunctionMode, ProofConstructorNames, RuleEvalMode, Schema, Subdatatypes, Variant,
};
use egglog::{ArcSort, CommandOutput, EGraph, TermDag, Value};
use serde::{Deserialize, Serialize};
use std::collections::{BTreeMap, BTreeSet};
use std::sync::OnceLock;

type Fact = GenericFact<String, String>;
type Action = GenericAction<String, String>;
type Schedule = GenericSchedule<String, String>;
type Rule = GenericRule<String, String>;
type Rewrite = GenericRewrite<String, String>;

const RESERVED: &str = "@";
pub const REPO_TESTS: &str = "/repo/tests";

// ===========================================================================
// canonical, span-free tree of the syntax
// ===========================================================================

#[derive(Clone, Debug, PartialEq)]
enum N {
    /// a symbol (renamable by sanitisation)
    Sym(String),
    /// string data
    Str(String),
    /// numbers, bit patterns, tags
    Atom(String),
    Rec(&'static str, Vec<(&'static str, N)>),
    List(Vec<N>),
}

fn atom(x: impl ToString) -> N {
    N::Atom(x.to_string())
}
fn sym(x: &str) -> N {
    N::Sym(x.to_string())
}
fn opt<T>(x: &Option<T>, f: impl FnOnce(&T) -> N) -> N {
    match x {
        None => atom("none"),
        Some(v) => N::Rec("some", vec![("v", f(v))]),
    }
}
fn syms(xs: &[String]) -> N {
    N::List(xs.iter().map(|s| sym(s)).collect())
}

fn render(n: &N, out: &mut String) {
    use std::fmt::Write;
    match n {
        N::Sym(s) => {
            let _ = write!(out, "`{}`", s);
        }
        N::Str(s) => {
            let _ = write!(out, "{:?}", s);
        }
        N::Atom(s) => out.push_str(s),
        N::Rec(tag, fields) => {
            out.push('{');
            out.push_str(tag);
            for (k, v) in fields {
                out.push(' ');
                out.push_str(k);
                out.push('=');
                render(v, out);
            }
            out.push('}');
        }
        N::List(xs) => {
            out.push('[');
            for (i, x) in xs.iter().enumerate() {
                if i > 0 {
                    out.push(' ');
                }
                render(x, out);
            }
            out.push(']');
        }
    }
}
fn rendered(n: &N) -> String {
    let mut s = String::new();
    render(n, &mut s);
    s
}
fn clip(s: &str, n: usize) -> String {
    if s.chars().count() <= n { s.to_string() } else { format!("{}…", s.chars().take(n).collect::<String>()) }
}

/// first difference: (path of record tags / field names, left, right)
fn first_diff(a: &N, b: &N, path: &mut Vec<String>) -> Option<(String, String, String)> {
    match (a, b) {
        (N::Rec(ta, fa), N::Rec(tb, fb)) if ta == tb && fa.len() == fb.len() => {
            path.push(ta.to_string());
            for ((ka, va), (kb, vb)) in fa.iter().zip(fb.iter()) {
                if ka != kb {
                    return Some((path.join("/"), ka.to_string(), kb.to_string()));
                }
                path.push(ka.to_string());
                if let Some(d) = first_diff(va, vb, path) {
                    return Some(d);
                }
                path.pop();
            }
            path.pop();
            None
        }
        (N::List(xa), N::List(xb)) if xa.len() == xb.len() => {
            for (x, y) in xa.iter().zip(xb.iter()) {
                if let Some(d) = first_diff(x, y, path) {
                    return Some(d);
                }
            }
            None
        }
        _ => {
            if a == b {
                None
            } else {
                Some((path.join("/"), clip(&rendered(a), 300), clip(&rendered(b), 300)))
            }
        }
    }
}

/// `b` is `a` up to a bijective renaming of symbols (everything else identical)
fn alpha(a: &N, b: &N, fwd: &mut BTreeMap<String, String>, bwd: &mut BTreeMap<String, String>) -> Result<(), String> {
    match (a, b) {
        (N::Sym(x), N::Sym(y)) => {
            if let Some(prev) = fwd.get(x) {
                if prev != y {
                    return Err(format!("symbol `{x}` is renamed to `{prev}` in one place and to `{y}` in another"));
                }
            } else {
                fwd.insert(x.clone(), y.clone());
            }
            if let Some(prev) = bwd.get(y) {
                if prev != x {
                    return Err(format!("distinct symbols `{prev}` and `{x}` are both renamed to `{y}`"));
                }
            } else {
                bwd.insert(y.clone(), x.clone());
            }
            Ok(())
        }
        (N::Rec(ta, fa), N::Rec(tb, fb)) if ta == tb && fa.len() == fb.len() => {
            for ((ka, va), (kb, vb)) in fa.iter().zip(fb.iter()) {
                if ka != kb {
                    return Err(format!("field {ka} vs {kb}"));
                }
                alpha(va, vb, fwd, bwd)?;
            }
            Ok(())
        }
        (N::List(xa), N::List(xb)) if xa.len() == xb.len() => {
            for (x, y) in xa.iter().zip(xb.iter()) {
                alpha(x, y, fwd, bwd)?;
            }
            Ok(())
        }
        _ => {
            if a == b {
                Ok(())
            } else {
                Err(format!("structure differs: {} vs {}", clip(&rendered(a), 200), clip(&rendered(b), 200)))
            }
        }
    }
}

fn any_sym(n: &N, f: &mut impl FnMut(&str) -> bool) -> bool {
    match n {
        N::Sym(s) => f(s),
        N::Rec(_, fs) => fs.iter().any(|(_, v)| any_sym(v, f)),
        N::List(xs) => xs.iter().any(|v| any_sym(v, f)),
        _ => false,
    }
}

/// what a case exercised (for the class distribution and the non-trivial rule)
#[derive(Default)]
struct Stats {
    kinds: BTreeSet<String>,
    opts: BTreeSet<String>,
    lits: BTreeSet<&'static str>,
    nonplain: usize,
    /// culprit candidates for an unparsable print
    panic_needs_escape: bool,
    rule_name_needs_escape: bool,
    stats_file: bool,
    file_debug_differs: bool,
    keyword_ruleset: bool,
}

impl Stats {
    fn kind(&mut self, k: &str) {
        self.kinds.insert(k.to_string());
    }
    fn opt(&mut self, o: &str) {
        self.opts.insert(o.to_string());
    }
}

fn needs_escape(s: &str) -> bool {
    s.contains('"') || s.contains('\\')
}

/// the lexer's own string syntax (parse.rs: escapes n t \\ \" only, everything else verbatim)
fn lexer_quote(s: &str) -> String {
    let mut o = String::from("\"");
    for c in s.chars() {
        match c {
            '\\' => o.push_str("\\\\"),
            '"' => o.push_str("\\\""),
            c => o.push(c),
        }
    }
    o.push('"');
    o
}

fn lit_class(l: &Literal) -> (&'static str, bool) {
    match l {
        Literal::Int(i) => {
            if *i == i64::MAX || *i == i64::MIN || *i == i64::MAX - 1 || *i == i64::MIN + 1 {
                ("lit:i64-extreme", true)
            } else if i.unsigned_abs() > (1u64 << 53) {
                ("lit:i64-big", true)
            } else {
                ("lit:i64-plain", false)
            }
        }
        Literal::Float(f) => {
            let x: f64 = f.0;
            if x.is_nan() {
                ("lit:f64-nan", true)
            } else if x == f64::INFINITY {
                ("lit:f64-inf", true)
            } else if x == f64::NEG_INFINITY {
                ("lit:f64-neg-inf", true)
            } else if x == 0.0 && x.is_sign_negative() {
                ("lit:f64-neg-zero", true)
            } else if x != 0.0 && x.abs() < f64::MIN_POSITIVE {
                ("lit:f64-subnormal", true)
            } else if x.abs() >= 1e300 {
                ("lit:f64-huge", true)
            } else if x != 0.0 && x.abs() <= 1e-300 {
                ("lit:f64-tiny", true)
            } else if x.fract() == 0.0 && x.abs() >= 9.2e18 {
                ("lit:f64-integral-beyond-i64", true)
            } else if x.fract() == 0.0 {
                ("lit:f64-integral", true)
            } else {
                ("lit:f64-plain", false)
            }
        }
        Literal::String(s) => {
            if s.is_empty() {
                ("lit:string-empty", true)
            } else if s.contains('"') {
                ("lit:string-quote", true)
            } else if s.contains('\\') {
                ("lit:string-backslash", true)
            } else if s.contains('\n') {
                ("lit:string-newline", true)
            } else if s.contains('\t') || s.contains('\r') {
                ("lit:string-tab-or-cr", true)
            } else if !s.is_ascii() {
                ("lit:string-unicode", true)
            } else if s.chars().any(|c| c.is_control() || c == ';' || c == '(' || c == ')') {
                ("lit:string-lexer-special", true)
            } else {
                ("lit:string-plain", false)
            }
        }
        Literal::Bool(_) => ("lit:bool", false),
        Literal::Unit => ("lit:unit", true),
    }
}

fn c_lit(l: &Literal, st: &mut Stats) -> N {
    let (cls, np) = lit_class(l);
    st.lits.insert(cls);
    if np {
        st.nonplain += 1;
    }
    match l {
        Literal::Int(i) => N::Rec("int", vec![("v", atom(i))]),
        Literal::Float(f) => N::Rec("f64", vec![("bits", atom(format!("{:016x}", f.0.to_bits())))]),
        Literal::String(s) => N::Rec("string", vec![("v", N::Str(s.clone()))]),
        Literal::Bool(b) => N::Rec("bool", vec![("v", atom(b))]),
        Literal::Unit => N::Rec("unit", vec![]),
    }
}

fn c_expr(e: &Expr, st: &mut Stats) -> N {
    match e {
        GenericExpr::Var(_, v) => {
            if v.starts_with("@_") {
                st.opt("expr:wildcard");
            }
            N::Rec("var", vec![("name", sym(v))])
        }
        GenericExpr::Lit(_, l) => N::Rec("lit", vec![("v", c_lit(l, st))]),
        GenericExpr::Call(_, h, args) => N::Rec("call", vec![("head", sym(h)), ("args", c_exprs(args, st))]),
    }
}
fn c_exprs(es: &[Expr], st: &mut Stats) -> N {
    N::List(es.iter().map(|e| c_expr(e, st)).collect())
}

fn c_fact(f: &Fact, st: &mut Stats) -> N {
    match f {
        GenericFact::Eq(_, a, b) => {
            st.kind("fact:eq");
            N::Rec("eq", vec![("lhs", c_expr(a, st)), ("rhs", c_expr(b, st))])
        }
        GenericFact::Fact(e) => {
            st.kind("fact:expr");
            N::Rec("fact", vec![("e", c_expr(e, st))])
        }
    }
}
fn c_facts(fs: &[Fact], st: &mut Stats) -> N {
    N::List(fs.iter().map(|f| c_fact(f, st)).collect())
}

fn c_action(a: &Action, st: &mut Stats) -> N {
    match a {
        GenericAction::Let(_, v, e) => {
            st.kind("action:let");
            N::Rec("let", vec![("name", sym(v)), ("e", c_expr(e, st))])
        }
        GenericAction::Set(_, h, args, v) => {
            st.kind("action:set");
            N::Rec("set", vec![("head", sym(h)), ("args", c_exprs(args, st)), ("value", c_expr(v, st))])
        }
        GenericAction::Change(_, ch, h, args) => {
            let tag = match ch {
                Change::Delete => {
                    st.kind("action:delete");
                    "delete"
                }
                Change::Subsume => {
                    st.kind("action:subsume");
                    "subsume"
                }
            };
            N::Rec(tag, vec![("head", sym(h)), ("args", c_exprs(args, st))])
        }
        GenericAction::Union(_, a, b) => {
            st.kind("action:union");
            N::Rec("union", vec![("lhs", c_expr(a, st)), ("rhs", c_expr(b, st))])
        }
        GenericAction::Panic(_, msg) => {
            st.kind("action:panic");
            if needs_escape(msg) {
                st.panic_needs_escape = true;
            }
            let (cls, np) = lit_class(&Literal::String(msg.clone()));
            st.lits.insert(cls);
            if np {
                st.nonplain += 1;
            }
            N::Rec("panic", vec![("msg", N::Str(msg.clone()))])
        }
        GenericAction::Expr(_, e) => {
            st.kind("action:expr");
            N::Rec("do", vec![("e", c_expr(e, st))])
        }
    }
}

/// schedule tree before normalisation
enum S {
    Sat(Box<S>),
    Rep(usize, Box<S>),
    Run(N),
    Seq(Vec<S>),
}

fn s_of(s: &Schedule, st: &mut Stats) -> S {
    match s {
        GenericSchedule::Saturate(_, x) => {
            st.kind("sched:saturate");
            S::Sat(Box::new(s_of(x, st)))
        }
        GenericSchedule::Repeat(_, n, x) => {
            st.kind("sched:repeat");
            S::Rep(*n, Box::new(s_of(x, st)))
        }
        GenericSchedule::Run(_, cfg) => {
            st.kind("sched:run");
            if !cfg.ruleset.is_empty() {
                st.opt("run:ruleset");
            }
            if cfg.ruleset.starts_with(':') {
                st.keyword_ruleset = true;
            }
            if cfg.until.is_some() {
                st.opt("run:until");
            }
            S::Run(N::Rec("run", vec![("ruleset", sym(&cfg.ruleset)), ("until", opt(&cfg.until, |fs| c_facts(fs, st)))]))
        }
        GenericSchedule::Sequence(_, xs) => {
            st.kind("sched:seq");
            S::Seq(xs.iter().map(|x| s_of(x, st)).collect())
        }
    }
}

/// the code base's own normal form (ast/mod.rs `flatten_sequences`): nested sequences are
/// spliced, a one-element sequence is its element, an empty sequence stays
fn flatten(s: S) -> S {
    match s {
        S::Sat(x) => S::Sat(Box::new(flatten(*x))),
        S::Rep(n, x) => S::Rep(n, Box::new(flatten(*x))),
        S::Run(c) => S::Run(c),
        S::Seq(xs) => {
            let mut out = vec![];
            for x in xs.into_iter().map(flatten) {
                match x {
                    S::Seq(inner) => out.extend(inner),
                    other => out.push(other),
                }
            }
            if out.len() == 1 { out.pop().unwrap() } else { S::Seq(out) }
        }
    }
}

fn n_of_s(s: &S) -> N {
    match s {
        S::Sat(x) => N::Rec("saturate", vec![("body", n_of_s(x))]),
        S::Rep(n, x) => N::Rec("repeat", vec![("times", atom(n)), ("body", n_of_s(x))]),
        S::Run(c) => c.clone(),
        S::Seq(xs) => N::Rec("seq", vec![("items", N::List(xs.iter().map(n_of_s).collect()))]),
    }
}

fn c_sched(s: &Schedule, st: &mut Stats) -> N {
    n_of_s(&flatten(s_of(s, st)))
}

fn c_variant(v: &Variant, st: &mut Stats, ctx: &str) -> N {
    if v.cost.is_some() {
        st.opt(&format!("{ctx}:variant:cost"));
    }
    if v.unextractable {
        st.opt(&format!("{ctx}:variant:unextractable"));
    }
    N::Rec("variant", vec![("name", sym(&v.name)), ("types", syms(&v.types)), ("cost", opt(&v.cost, |c| atom(c))), ("unextractable", atom(v.unextractable))])
}

fn c_schema(s: &Schema) -> N {
    N::Rec("schema", vec![("input", syms(&s.input)), ("output", sym(&s.output))])
}

fn c_rule(r: &Rule, st: &mut Stats) -> N {
    if !r.ruleset.is_empty() {
        st.opt("rule:ruleset");
    }
    if !r.name.is_empty() {
        st.opt("rule:name");
        if needs_escape(&r.name) {
            st.rule_name_needs_escape = true;
        }
    }
    match r.eval_mode {
        RuleEvalMode::Seminaive => {}
        RuleEvalMode::Naive => st.opt("rule:naive"),
        RuleEvalMode::UnsafeSeminaive => st.opt("rule:unsafe-seminaive"),
    }
    if r.no_decomp {
        st.opt("rule:no-decomp");
    }
    if r.include_subsumed {
        st.opt("rule:internal-include-subsumed");
    }
    let mode = match r.eval_mode {
        RuleEvalMode::Seminaive => "seminaive",
        RuleEvalMode::Naive => "naive",
        RuleEvalMode::UnsafeSeminaive => "unsafe-seminaive",
    };
    N::Rec(
        "rule",
        vec![
            ("body", c_facts(&r.body, st)),
            ("head", N::List(r.head.0.iter().map(|a| c_action(a, st)).collect())),
            // a symbol for the sanitiser (which renames it), string data otherwise
            ("name", sym(&r.name)),
            ("ruleset", sym(&r.ruleset)),
            ("eval_mode", atom(mode)),
            ("no_decomp", atom(r.no_decomp)),
            ("include_subsumed", atom(r.include_subsumed)),
        ],
    )
}

fn c_rewrite(r: &Rewrite, st: &mut Stats, ctx: &str) -> N {
    if !r.conditions.is_empty() {
        st.opt(&format!("{ctx}:when"));
    }
    if !r.name.is_empty() {
        st.opt(&format!("{ctx}:name"));
    }
    N::Rec("rw", vec![("lhs", c_expr(&r.lhs, st)), ("rhs", c_expr(&r.rhs, st)), ("conditions", c_facts(&r.conditions, st)), ("name", N::Str(r.name.clone()))])
}

fn c_file(file: &str, st: &mut Stats) -> N {
    if format!("{file:?}") != lexer_quote(file) {
        st.file_debug_differs = true;
    }
    let (cls, np) = lit_class(&Literal::String(file.to_string()));
    st.lits.insert(cls);
    if np {
        st.nonplain += 1;
    }
    N::Str(file.to_string())
}

fn c_rebuild(s: &ContainerRebuildSpec) -> N {
    N::Rec("container-rebuild-spec", vec![("prim", sym(&s.internal_rebuild_prim)), ("proof_prim", opt(&s.internal_rebuild_proof_prim, |p| sym(p)))])
}
fn c_proof_names(p: &ProofConstructorNames) -> N {
    N::Rec("proof-names", vec![("congr", sym(&p.congr)), ("trans", sym(&p.trans)), ("sym", sym(&p.sym)), ("normalize", sym(&p.normalize))])
}

fn kind_of(c: &Command) -> &'static str {
    match c {
        GenericCommand::Sort { presort_and_args: None, .. } => "sort",
        GenericCommand::Sort { .. } => "sort-container",
        GenericCommand::Datatype { .. } => "datatype",
        GenericCommand::Datatypes { .. } => "datatype*",
        GenericCommand::Constructor { .. } => "constructor",
        GenericCommand::Relation { .. } => "relation",
        GenericCommand::Function { .. } => "function",
        GenericCommand::AddRuleset(..) => "ruleset",
        GenericCommand::UnstableCombinedRuleset(..) => "unstable-combined-ruleset",
        GenericCommand::Rule { .. } => "rule",
        GenericCommand::Rewrite(..) => "rewrite",
        GenericCommand::BiRewrite(..) => "birewrite",
        GenericCommand::Action(_) => "action",
        GenericCommand::Extract(..) => "extract",
        GenericCommand::RunSchedule(..) => "run-schedule",
        GenericCommand::PrintOverallStatistics(..) => "print-stats",
        GenericCommand::Check(..) => "check",
        GenericCommand::Prove(..) => "prove",
        GenericCommand::ProveExists(..) => "prove-exists",
        GenericCommand::PrintFunction(..) => "print-function",
        GenericCommand::PrintSize(..) => "print-size",
        GenericCommand::Input { .. } => "input",
        GenericCommand::Output { .. } => "output",
        GenericCommand::Push(_) => "push",
        GenericCommand::Pop(..) => "pop",
        GenericCommand::Fail(..) => "fail",
        GenericCommand::Include(..) => "include",
        GenericCommand::UserDefined(..) => "user-defined",
    }
}

fn c_cmd(c: &Command, st: &mut Stats) -> N {
    let kind = kind_of(c);
    st.kind(&format!("cmd:{kind}"));
    match c {
        GenericCommand::Sort { span: _, name, presort_and_args, uf, proof_func, container_rebuild, proof_constructors, unionable } => {
            if uf.is_some() {
                st.opt("sort:internal-uf");
                if uf.as_ref().unwrap().1.is_some() {
                    st.opt("sort:internal-uf-index");
                }
            }
            if proof_func.is_some() {
                st.opt(&format!("{kind}:internal-proof-func"));
            }
            if container_rebuild.is_some() {
                st.opt("sort-container:internal-container-rebuild");
                if container_rebuild.as_ref().unwrap().internal_rebuild_proof_prim.is_some() {
                    st.opt("sort-container:internal-container-rebuild-proof-prim");
                }
            }
            if proof_constructors.is_some() {
                st.opt("sort:internal-proof-names");
            }
            N::Rec(
                "sort",
                vec![
                    ("name", sym(name)),
                    ("presort_and_args", opt(presort_and_args, |(h, args)| N::Rec("presort", vec![("head", sym(h)), ("args", c_exprs(args, st))]))),
                    ("uf", opt(uf, |(a, b)| N::Rec("uf", vec![("ctor", sym(a)), ("index", opt(b, |x| sym(x)))]))),
                    ("proof_func", opt(proof_func, |p| sym(p))),
                    ("container_rebuild", opt(container_rebuild, c_rebuild)),
                    ("proof_constructors", opt(proof_constructors, c_proof_names)),
                    ("unionable", atom(unionable)),
                ],
            )
        }
        GenericCommand::Datatype { span: _, name, variants } => N::Rec("datatype", vec![("name", sym(name)), ("variants", N::List(variants.iter().map(|v| c_variant(v, st, "datatype")).collect()))]),
        GenericCommand::Datatypes { span: _, datatypes } => N::Rec(
            "datatypes",
            vec![(
                "datatypes",
                N::List(
                    datatypes
                        .iter()
                        .map(|(_, name, sub)| match sub {
                            Subdatatypes::Variants(vs) => {
                                st.opt("datatype*:variants");
                                N::Rec("sub-variants", vec![("name", sym(name)), ("variants", N::List(vs.iter().map(|v| c_variant(v, st, "datatype*")).collect()))])
                            }
                            Subdatatypes::NewSort(h, args) => {
                                st.opt("datatype*:sort");
                                N::Rec("sub-sort", vec![("name", sym(name)), ("head", sym(h)), ("args", c_exprs(args, st))])
                            }
                        })
                        .collect(),
                ),
            )],
        ),
        GenericCommand::Constructor { span: _, name, schema, cost, unextractable, hidden, let_binding, term_constructor } => {
            if cost.is_some() {
                st.opt("constructor:cost");
            }
            if *unextractable {
                st.opt("constructor:unextractable");
            }
            if *hidden {
                st.opt("constructor:internal-hidden");
            }
            if *let_binding {
                st.opt("constructor:internal-let");
            }
            if term_constructor.is_some() {
                st.opt("constructor:internal-term-constructor");
            }
            N::Rec(
                "constructor",
                vec![
                    ("name", sym(name)),
                    ("schema", c_schema(schema)),
                    ("cost", opt(cost, |c| atom(c))),
                    ("unextractable", atom(unextractable)),
                    ("hidden", atom(hidden)),
                    ("let_binding", atom(let_binding)),
                    ("term_constructor", opt(term_constructor, |t| sym(t))),
                ],
            )
        }
        GenericCommand::Relation { span: _, name, inputs } => N::Rec("relation", vec![("name", sym(name)), ("inputs", syms(inputs))]),
        GenericCommand::Function { span: _, name, schema, merge, hidden, let_binding, term_constructor, unextractable } => {
            st.opt(if merge.is_some() { "function:merge" } else { "function:no-merge" });
            if *unextractable {
                st.opt("function:unextractable");
            }
            if *hidden {
                st.opt("function:internal-hidden");
            }
            if *let_binding {
                st.opt("function:internal-let");
            }
            if term_constructor.is_some() {
                st.opt("function:internal-term-constructor");
            }
            N::Rec(
                "function",
                vec![
                    ("name", sym(name)),
                    ("schema", c_schema(schema)),
                    ("merge", opt(merge, |m| c_expr(m, st))),
                    ("hidden", atom(hidden)),
                    ("let_binding", atom(let_binding)),
                    ("term_constructor", opt(term_constructor, |t| sym(t))),
                    ("unextractable", atom(unextractable)),
                ],
            )
        }
        GenericCommand::AddRuleset(_, name) => N::Rec("ruleset", vec![("name", sym(name))]),
        GenericCommand::UnstableCombinedRuleset(_, name, others) => N::Rec("combined-ruleset", vec![("name", sym(name)), ("members", syms(others))]),
        GenericCommand::Rule { rule } => N::Rec("rule-cmd", vec![("rule", c_rule(rule, st))]),
        GenericCommand::Rewrite(ruleset, rw, subsume) => {
            if !ruleset.is_empty() {
                st.opt("rewrite:ruleset");
            }
            if *subsume {
                st.opt("rewrite:subsume");
            }
            N::Rec("rewrite", vec![("ruleset", sym(ruleset)), ("rewrite", c_rewrite(rw, st, "rewrite")), ("subsume", atom(subsume))])
        }
        GenericCommand::BiRewrite(ruleset, rw) => {
            if !ruleset.is_empty() {
                st.opt("birewrite:ruleset");
            }
            N::Rec("birewrite", vec![("ruleset", sym(ruleset)), ("rewrite", c_rewrite(rw, st, "birewrite"))])
        }
        GenericCommand::Action(a) => N::Rec("action", vec![("a", c_action(a, st))]),
        GenericCommand::Extract(_, e, v) => {
            if !matches!(v, GenericExpr::Lit(_, Literal::Int(0))) {
                st.opt("extract:variants");
            }
            N::Rec("extract", vec![("e", c_expr(e, st)), ("variants", c_expr(v, st))])
        }
        GenericCommand::RunSchedule(s) => N::Rec("run-schedule", vec![("schedule", c_sched(s, st))]),
        GenericCommand::PrintOverallStatistics(_, file) => {
            if file.is_some() {
                st.opt("print-stats:file");
                st.stats_file = true;
            }
            N::Rec("print-stats", vec![("file", opt(file, |f| c_file(f, st)))])
        }
        GenericCommand::Check(_, facts) => N::Rec("check", vec![("facts", c_facts(facts, st))]),
        GenericCommand::Prove(_, facts) => N::Rec("prove", vec![("facts", c_facts(facts, st))]),
        GenericCommand::ProveExists(_, ctor) => N::Rec("prove-exists", vec![("constructor", sym(ctor))]),
        GenericCommand::PrintFunction(_, name, n, file, mode) => {
            if n.is_some() {
                st.opt("print-function:rows");
            }
            if file.is_some() {
                st.opt("print-function:file");
            }
            let m = match mode {
                PrintFunctionMode::Default => "default",
                PrintFunctionMode::CSV => {
                    st.opt("print-function:mode-csv");
                    "csv"
                }
            };
            N::Rec("print-function", vec![("name", sym(name)), ("rows", opt(n, |n| atom(n))), ("file", opt(file, |f| c_file(f, st))), ("mode", atom(m))])
        }
        GenericCommand::PrintSize(_, name) => {
            if name.is_some() {
                st.opt("print-size:name");
            }
            N::Rec("print-size", vec![("name", opt(name, |n| sym(n)))])
        }
        GenericCommand::Input { span: _, name, file } => N::Rec("input", vec![("name", sym(name)), ("file", c_file(file, st))]),
        GenericCommand::Output { span: _, file, exprs } => N::Rec("output", vec![("file", c_file(file, st)), ("exprs", c_exprs(exprs, st))]),
        GenericCommand::Push(n) => {
            if *n != 1 {
                st.opt("push:n");
            }
            N::Rec("push", vec![("n", atom(n))])
        }
        GenericCommand::Pop(_, n) => {
            if *n != 1 {
                st.opt("pop:n");
            }
            N::Rec("pop", vec![("n", atom(n))])
        }
        GenericCommand::Fail(_, inner) => N::Rec("fail", vec![("cmd", c_cmd(inner, st))]),
        GenericCommand::Include(_, file) => N::Rec("include", vec![("file", c_file(file, st))]),
        GenericCommand::UserDefined(_, name, exprs) => N::Rec("user-defined", vec![("name", sym(name)), ("args", c_exprs(exprs, st))]),
    }
}

// ===========================================================================
// stage (a): the judge
// ===========================================================================

#[derive(Clone, Debug, Serialize, Deserialize)]
pub struct TextCase {
    pub text: String,
    /// parse with `ensure_no_reserved_symbols = false` (symbols with the reserved prefix in the source)
    pub reserved_ok: bool,
    /// triggers of known findings that the generator steered around while building this case
    #[serde(default)]
    pub excluded: u32,
}

const USER_CMD: &str = "my-command";

struct NoopCmd;
impl egglog::UserDefinedCommand for NoopCmd {
    fn update(&self, _eg: &mut EGraph, _args: &[Expr]) -> Result<Vec<CommandOutput>, egglog::Error> {
        Ok(vec![])
    }
}

/// the parser of a default engine that additionally knows one user-defined command
fn template_parser() -> Parser {
    static P: OnceLock<std::sync::Mutex<Parser>> = OnceLock::new();
    P.get_or_init(|| {
        let mut eg = EGraph::default();
        let _ = eg.add_command(USER_CMD.to_string(), std::sync::Arc::new(NoopCmd));
        std::sync::Mutex::new(eg.parser.clone())
    })
    .lock()
    .unwrap()
    .clone()
}

fn parser(reserved_ok: bool) -> Parser {
    let mut p = template_parser();
    p.ensure_no_reserved_symbols = !reserved_ok;
    p
}

fn last_line(e: &str) -> String {
    e.lines().last().unwrap_or("").to_string()
}

fn mismatch_signature(kind: &str, path: &str) -> String {
    let p = path;
    if p.ends_with("panic/msg") {
        "display:panic-message-unescaped".into()
    } else if p.ends_with("rule/name") {
        "display:rule-name-unescaped".into()
    } else if p.ends_with("variant/unextractable") {
        "display:variant-unextractable-dropped".into()
    } else if p.ends_with("print-stats/file") || p.ends_with("print-stats/file/some/v") {
        "display:print-stats-file-unquoted".into()
    } else if p.ends_with("/file") || p.ends_with("/file/some/v") {
        "display:file-path-debug-escapes".into()
    } else if p.ends_with("rw/name") {
        "display:rewrite-name-dropped".into()
    } else {
        // root-cause key = field path (record tags and field names only; no indices, no values), anchored at
        // the innermost structure that is shared between commands (a literal, an action, a schedule, ...),
        // else at the command kind
        const SHARED: &[&str] = &[
            "lit", "var", "call", "eq", "fact", "let", "set", "delete", "subsume", "union", "panic", "do", "run", "saturate", "repeat", "seq", "variant", "schema", "rule", "rw", "presort", "uf",
            "container-rebuild-spec", "proof-names",
        ];
        let comps: Vec<&str> = p.split('/').collect();
        match comps.iter().rposition(|c| SHARED.contains(c)) {
            Some(i) => format!("display:mismatch:{}", comps[i..].join("/")),
            None => format!("display:mismatch:{kind}:{}", comps[comps.len().saturating_sub(3)..].join("/")),
        }
    }
}

fn unparsable_signature(kind: &str, st: &Stats) -> String {
    if st.panic_needs_escape {
        "display:panic-message-unescaped".into()
    } else if st.rule_name_needs_escape {
        "display:rule-name-unescaped".into()
    } else if st.stats_file {
        "display:print-stats-file-unquoted".into()
    } else if st.file_debug_differs {
        "display:file-path-debug-escapes".into()
    } else {
        format!("display:unparsable:{kind}")
    }
}

/// Round trip of one parsed command. Returns false when the case should stop.
fn judge_command(idx: usize, cmd: &Command, out: &mut Outcome, nontrivial: &mut bool, classes: &mut BTreeSet<String>) -> bool {
    let kind = kind_of(cmd);
    let mut st = Stats::default();
    let n1 = c_cmd(cmd, &mut st);
    for k in &st.kinds {
        classes.insert(k.clone());
    }
    for o in &st.opts {
        classes.insert(format!("opt:{o}"));
    }
    for l in &st.lits {
        classes.insert(l.to_string());
    }
    // `function` always carries :merge or :no-merge; do not count that as "uses an option"
    let real_opts = st.opts.iter().filter(|o| !matches!(o.as_str(), "function:merge" | "function:no-merge")).count();
    if real_opts > 0 || st.nonplain > 0 {
        *nontrivial = true;
    }
    let printed = match catch(|| cmd.to_string()) {
        Ok(p) => p,
        Err(p) => {
            out.fail(format!("panic:{}", panic_key(&p)), format!("command #{idx} ({kind}): Display panicked: {p}"));
            return false;
        }
    };
    // known finding, not repaired: a bare schedule atom that looks like an option key
    // (`(run-schedule :until)`) prints as `(run :until)`, which is a run WITHOUT a ruleset.
    if st.keyword_ruleset {
        classes.insert("known:keyword-ruleset".into());
        let mut p2 = parser(true);
        let same = match p2.get_program_from_string(None, &printed) {
            Ok(c2) if c2.len() == 1 => c_cmd(&c2[0], &mut Stats::default()) == n1,
            _ => false,
        };
        if !same {
            out.soft.push(Violation::new(
                "display:schedule-ruleset-option-like",
                format!("command #{idx} ({kind}): a ruleset name starting with ':' does not survive printing: printed `{}`", clip(&printed, 300)),
            ));
        }
        return true;
    }
    let mut p2 = parser(true);
    let cmds2 = match catch(|| p2.get_program_from_string(None, &printed)) {
        Err(p) => {
            out.fail(format!("panic:{}", panic_key(&p)), format!("command #{idx} ({kind}): parsing the printed text panicked: {p}\nprinted: {printed}"));
            return false;
        }
        Ok(Err(e)) => {
            out.fail(
                unparsable_signature(kind, &st),
                format!("command #{idx} ({kind}) was accepted by the parser, but its printed form is rejected: {}\nprinted: {}\ntree: {}", last_line(&e.to_string()), clip(&printed, 600), clip(&rendered(&n1), 600)),
            );
            return false;
        }
        Ok(Ok(c)) => c,
    };
    if cmds2.len() != 1 {
        out.fail(
            unparsable_signature(kind, &st).replace("unparsable", "splits"),
            format!("command #{idx} ({kind}): its printed form parses to {} commands instead of 1\nprinted: {}", cmds2.len(), clip(&printed, 600)),
        );
        return false;
    }
    let n2 = c_cmd(&cmds2[0], &mut Stats::default());
    if let Some((path, a, b)) = first_diff(&n1, &n2, &mut vec![]) {
        out.fail(
            mismatch_signature(kind, &path),
            format!("command #{idx} ({kind}): print → parse gives a different syntax tree at {path}:\n  before: {a}\n  after : {b}\nprinted: {}", clip(&printed, 600)),
        );
        return false;
    }
    // print(parse(print(c))) = print(c); schedules are only equal modulo flatten_sequences, so not for them
    if st.kinds.iter().any(|k| k.starts_with("sched:")) {
        return true;
    }
    match catch(|| cmds2[0].to_string()) {
        Ok(p) if p == printed => {}
        Ok(p) => {
            out.fail(format!("display:not-idempotent:{kind}"), format!("command #{idx} ({kind}): equal trees print differently:\n  first : {}\n  second: {}", clip(&printed, 400), clip(&p, 400)));
            return false;
        }
        Err(p) => {
            out.fail(format!("panic:{}", panic_key(&p)), format!("command #{idx} ({kind}): Display of the re-parsed command panicked: {p}"));
            return false;
        }
    }
    true
}

/// sanitised path: `sanitize_internal_names` must be a bijective renaming, and what it returns must
/// print to text the DEFAULT parser (reserved prefix refused) accepts and parses back to the same tree
fn judge_sanitised(cmds: &[Command], out: &mut Outcome, classes: &mut BTreeSet<String>) -> bool {
    let trees: Vec<N> = cmds.iter().map(|c| c_cmd(c, &mut Stats::default())).collect();
    if !trees.iter().any(|t| any_sym(t, &mut |s| s.contains(RESERVED))) {
        return true;
    }
    let san = match catch(|| sanitize_internal_names(cmds)) {
        Ok(s) => s,
        Err(p) => {
            out.fail(format!("panic:{}", panic_key(&p)), format!("sanitize_internal_names panicked: {p}"));
            return false;
        }
    };
    classes.insert("sanitised".into());
    if san.len() != cmds.len() {
        out.fail("sanitize:command-count", format!("sanitize_internal_names returned {} commands for {}", san.len(), cmds.len()));
        return false;
    }
    let (mut fwd, mut bwd) = (BTreeMap::new(), BTreeMap::new());
    for (i, (t, s)) in trees.iter().zip(san.iter()).enumerate() {
        let kind = kind_of(s);
        let mut sst = Stats::default();
        let ts = c_cmd(s, &mut sst);
        if sst.keyword_ruleset {
            // known finding display:schedule-ruleset-option-like, already reported by judge_command
            continue;
        }
        if any_sym(&ts, &mut |x| x.contains(RESERVED)) {
            // positions the sanitiser does not visit (sort arguments and the container head, proof
            // annotations, user-defined command arguments): the reserved prefix gets there only through
            // the test-only parser switch or a `_` in such a position; counted and reported, not judged
            classes.insert("sanitise-leftover-reserved-symbol".into());
            continue;
        }
        if let Err(why) = alpha(t, &ts, &mut fwd, &mut bwd) {
            if why.contains("are both renamed") {
                // KNOWN FINDING, not repaired: the replacement `_…_` may collide with a user symbol
                out.soft.push(Violation::new(
                    "sanitize:name-collision",
                    format!("command #{i} ({kind}): sanitize_internal_names is not injective: {why}\nsanitised: {}", clip(&s.to_string(), 400)),
                ));
                classes.insert("known:sanitise-collision".into());
                return true;
            }
            out.fail("sanitize:not-a-renaming", format!("command #{i} ({kind}): sanitize_internal_names is not a renaming of symbols: {why}\nsanitised: {}", clip(&s.to_string(), 400)));
            return false;
        }
        let printed = s.to_string();
        let mut p = parser(false);
        match p.get_program_from_string(None, &printed) {
            Err(e) => {
                out.fail(
                    format!("sanitize:unparsable:{kind}"),
                    format!("command #{i} ({kind}): the sanitised command prints to text the default parser rejects: {}\nprinted: {}", last_line(&e.to_string()), clip(&printed, 600)),
                );
                return false;
            }
            Ok(c2) => {
                let same = c2.len() == 1 && c_cmd(&c2[0], &mut Stats::default()) == ts;
                if !same {
                    out.fail(format!("sanitize:mismatch:{kind}"), format!("command #{i} ({kind}): the sanitised command does not survive print → parse\nprinted: {}", clip(&printed, 600)));
                    return false;
                }
            }
        }
    }
    // no symbol without the reserved prefix may be renamed
    for (a, b) in &fwd {
        if !a.contains(RESERVED) && a != b {
            out.fail("sanitize:renames-user-symbol", format!("sanitize_internal_names renamed `{a}` to `{b}`"));
            return false;
        }
    }
    true
}

fn judge_text(case: &TextCase) -> Outcome {
    let mut out = Outcome::new(fnv_str(&case.text) ^ case.reserved_ok as u64);
    if case.excluded > 0 {
        out.count("known_finding_triggers_steered_around", case.excluded as u64);
    }
    let mut p1 = parser(case.reserved_ok);
    let cmds = match catch(|| p1.get_program_from_string(None, &case.text)) {
        Err(p) => {
            out.fail(format!("panic:{}", panic_key(&p)), format!("the parser panicked: {p}"));
            return out;
        }
        Ok(Err(_)) => {
            out.class("parse-reject");
            return out;
        }
        Ok(Ok(c)) => c,
    };
    if cmds.is_empty() {
        out.class("empty-program");
        return out;
    }
    out.class("parsed");
    out.count("commands_judged", cmds.len() as u64);
    let mut classes = BTreeSet::new();
    let mut nontrivial = false;
    let mut ok = true;
    for (i, c) in cmds.iter().enumerate() {
        if !judge_command(i, c, &mut out, &mut nontrivial, &mut classes) {
            ok = false;
            break;
        }
    }
    if ok {
        judge_sanitised(&cmds, &mut out, &mut classes);
    }
    for c in classes {
        out.class(c);
    }
    out.nontrivial = nontrivial;
    out
}

// ===========================================================================
// stage (a): grammar generator (text)
// ===========================================================================

const PLAIN_NAMES: &[&str] = &[
    "x", "y", "z", "a", "b", "f", "g", "h", "Foo", "Bar", "Math", "Num", "Add", "i64", "f64", "String", "bool", "Unit", "Vec", "Set", "Map", "my-rule", "rs1", "$glob", "v0", "old", "new", "+", "-",
    "*", "<", "<=", "!=", "vec-of", "set-of", "min", "max", "to-string",
];
const ODD_NAMES: &[&str] = &[
    "a\"b", "a'b", "a\\b", "λ", "名前", "a.b", "a:b", "|x|", "[1]", "{k}", "#t", "1+", "--1", "1e400", "nan", "+inf", "Inf", "TRUE", "a,b", "a@b", "_x", "__x", "___x", "x_", "...", "&rest", "a/b", "a=b",
    "=>", "?x", "!", "%", "^", "~", "`q", "-NaN", "infinity", "0x10", "1_000", "=", "é́", "\u{1F600}", "a\u{7f}b", "let", "set", "run", "sort", "seq", "panic", "saturate", "repeat", "rule", "check", "fail",
    "default", "csv", "container-rebuild-spec",
];
const RESERVED_NAMES: &[&str] = &["@x", "@_", "@_1", "@@y", "@rewrite_var__", "@v3", "@", "@__x"];
/// not a name the parser can take everywhere, but legal in most atom positions
const KEYWORD_NAMES: &[&str] = &[":x", ":until", ":cost", ":when", ":name"];

const INT_LITS: &[&str] = &[
    "0", "1", "-1", "2", "7", "42", "-17", "1000", "9223372036854775807", "-9223372036854775808", "9223372036854775806", "-9223372036854775807", "+7", "007", "-0", "4294967296", "9007199254740993",
    "-9007199254740993",
];
const FLOAT_LITS: &[&str] = &[
    "1.0", "0.5", "-2.5", "0.0", "3.14159", "0.1", "NaN", "inf", "-inf", "-0.0", "1e308", "-1e308", "1.7976931348623157e308", "5e-324", "-5e-324", "2.2250738585072014e-308", "2.225073858507201e-308",
    "1e-400", "-1e-400", "1e19", "9223372036854775807.0", "-9223372036854775808.0", "9223372036854775808.0", "9007199254740993.0", "1e21", "1e22", "1e23", "123456789012345680000.0", "1.", ".5", "1e5", "1E5",
    "1e+5", "1e-7", "4.9e-324", "1.0000000000000002", "0.30000000000000004", "1e300", "1e-300", "-1e19", "18446744073709551616.0", "2e0", "100000000000000000000.0",
];
/// fragments of string literal SOURCE text (already in lexer syntax)
const STR_FRAGS: &[&str] = &[
    "a", "b", "hello", " ", "\\\"", "\\\\", "\\n", "\\t", "\n", "\t", "\r", "é", "名", "\u{1F600}", "\u{7f}", "\u{0}", ";", "(", ")", "@", "'", "\\\\n", "\\\\\\\"", "out.json", "/tmp/x y", "\u{a0}", "\u{2028}",
    "\u{202e}", "{", "}", "$", "%s", "\u{feff}",
];

struct G<'a, 'b> {
    s: &'a mut Src<'b>,
    reserved: bool,
    excluded: u32,
}

impl<'a, 'b> G<'a, 'b> {
    fn name(&mut self) -> String {
        let n = self.name0();
        // known finding sanitize:name-collision: a user symbol that begins with the sanitiser's
        // replacement (two or more underscores) next to a reserved / wildcard symbol
        if n.starts_with("__") {
            self.excluded += 1;
            return n.trim_start_matches('_').to_string() + "_";
        }
        n
    }
    fn name0(&mut self) -> String {
        match self.s.below(20) {
            0..=12 => self.s.pick(PLAIN_NAMES).to_string(),
            13..=16 => self.s.pick(ODD_NAMES).to_string(),
            17 | 18 => {
                if self.reserved {
                    self.s.pick(RESERVED_NAMES).to_string()
                } else {
                    self.s.pick(ODD_NAMES).to_string()
                }
            }
            _ => self.s.pick(KEYWORD_NAMES).to_string(),
        }
    }
    /// a name that is safe after an option key or where the parser looks for option keys
    fn name_nokey(&mut self) -> String {
        for _ in 0..4 {
            let n = self.name();
            if !n.starts_with(':') {
                return n;
            }
        }
        "x".into()
    }
    fn names(&mut self, lo: usize, hi: usize, nokey: bool) -> Vec<String> {
        let n = self.s.range(lo as i64, hi as i64) as usize;
        (0..n).map(|_| if nokey { self.name_nokey() } else { self.name() }).collect()
    }
    fn uint(&mut self) -> String {
        match self.s.below(8) {
            0..=4 => self.s.range(0, 9).to_string(),
            5 => "4294967295".into(),
            6 => "4294967296".into(),
            _ => "9223372036854775807".into(),
        }
    }
    fn small_uint(&mut self) -> String {
        self.s.range(0, 12).to_string()
    }
    fn string_lit(&mut self) -> String {
        let n = match self.s.below(8) {
            0 => 0,
            1..=4 => 1,
            5 | 6 => 2,
            _ => 4,
        };
        let mut o = String::from("\"");
        for _ in 0..n {
            o.push_str(*self.s.pick(STR_FRAGS));
        }
        o.push('"');
        o
    }
    fn float_lit(&mut self) -> String {
        if self.s.chance(1, 5) {
            let mut v: u64 = 0;
            for _ in 0..8 {
                v = (v << 8) | self.s.byte() as u64;
            }
            let f = f64::from_bits(v);
            if f.is_finite() {
                // Rust's {:?} (shortest round-trip, exponent form for extremes) is valid lexer input
                return format!("{f:?}");
            }
        }
        self.s.pick(FLOAT_LITS).to_string()
    }
    fn lit(&mut self) -> String {
        match self.s.below(12) {
            0..=2 => self.s.pick(INT_LITS).to_string(),
            3 => self.s.small_i64().to_string(),
            4..=6 => self.float_lit(),
            7..=9 => self.string_lit(),
            10 => self.s.pick(&["true", "false"]).to_string(),
            _ => "()".into(),
        }
    }
    fn expr(&mut self, d: usize) -> String {
        let w = if d == 0 { [4, 1, 5, 0] } else { [3, 1, 4, 5] };
        match self.s.pick_weighted(&w) {
            0 => self.name(),
            1 => "_".into(),
            2 => self.lit(),
            _ => {
                let h = self.name();
                let n = self.s.below(4);
                let mut o = format!("({h}");
                for _ in 0..n {
                    o.push(' ');
                    o.push_str(&self.expr(d - 1));
                }
                o.push(')');
                o
            }
        }
    }
    fn call(&mut self, d: usize) -> String {
        let h = self.name();
        let n = self.s.below(4);
        let mut o = format!("({h}");
        for _ in 0..n {
            o.push(' ');
            o.push_str(&self.expr(d));
        }
        o.push(')');
        o
    }
    fn fact(&mut self, d: usize) -> String {
        if self.s.chance(2, 5) { format!("(= {} {})", self.expr(d), self.expr(d)) } else { self.call(d) }
    }
    fn facts(&mut self, lo: usize, hi: usize, d: usize) -> String {
        let n = self.s.range(lo as i64, hi as i64) as usize;
        (0..n).map(|_| self.fact(d)).collect::<Vec<_>>().join(" ")
    }
    fn action(&mut self, d: usize) -> String {
        match self.s.below(8) {
            0 => format!("(let {} {})", self.name(), self.expr(d)),
            1 => format!("(set {} {})", self.call(d), self.expr(d)),
            2 => format!("(delete {})", self.call(d)),
            3 => format!("(subsume {})", self.call(d)),
            4 => format!("(union {} {})", self.expr(d), self.expr(d)),
            5 => format!("(panic {})", self.string_lit()),
            _ => self.call(d),
        }
    }
    fn until(&mut self) -> String {
        if self.s.chance(2, 5) { format!(" :until {}", self.facts(0, 2, 1)) } else { String::new() }
    }
    /// ruleset name inside a schedule: never option-like (known finding display:schedule-ruleset-option-like)
    fn sched_ruleset(&mut self) -> String {
        let n = self.name();
        if n.starts_with(':') {
            self.excluded += 1;
            "rs1".into()
        } else {
            n
        }
    }
    fn sched(&mut self, d: usize) -> String {
        let w = if d == 0 { [3, 4, 0, 0, 0] } else { [2, 3, 3, 3, 3] };
        match self.s.pick_weighted(&w) {
            0 => self.sched_ruleset(),
            1 => {
                let rs = if self.s.bool() { format!(" {}", self.sched_ruleset()) } else { String::new() };
                format!("(run{rs}{})", self.until())
            }
            2 => format!("(saturate{})", self.scheds(d - 1)),
            3 => format!("(seq{})", self.scheds(d - 1)),
            _ => format!("(repeat {}{})", self.small_uint(), self.scheds(d - 1)),
        }
    }
    fn scheds(&mut self, d: usize) -> String {
        let n = self.s.below(4);
        (0..n).map(|_| format!(" {}", self.sched(d))).collect()
    }
    /// options in a random order (the printer has its own fixed order)
    fn shuffled(&mut self, mut opts: Vec<String>) -> String {
        let mut o = String::new();
        while !opts.is_empty() {
            let i = self.s.below(opts.len());
            o.push(' ');
            o.push_str(&opts.remove(i));
        }
        o
    }
    fn variant(&mut self) -> String {
        let tys = self.names(0, 3, true).join(" ");
        let tail = match self.s.below(5) {
            0 | 1 => String::new(),
            2 | 3 => format!(" :cost {}", self.uint()),
            _ => " :unextractable".into(),
        };
        let sep = if tys.is_empty() { "" } else { " " };
        format!("({}{sep}{tys}{tail})", self.name_nokey())
    }
    fn schema(&mut self) -> String {
        format!("({}) {}", self.names(0, 3, false).join(" "), self.name_nokey())
    }
    fn presort(&mut self) -> String {
        let n = self.s.below(3);
        let mut o = format!("({}", self.name());
        for _ in 0..n {
            o.push(' ');
            // sort arguments are expressions: names, literals (UnstableFn takes a list)
            let a = if self.s.chance(1, 4) { self.expr(1) } else { self.name_nokey() };
            o.push_str(&a);
        }
        o.push(')');
        o
    }
    fn file(&mut self) -> String {
        self.string_lit()
    }

    fn command(&mut self, d: usize) -> String {
        const N: usize = 33;
        let k = self.s.below(N);
        match k {
            0 => format!("(sort {})", self.name()),
            1 => {
                // plain sort with internal annotations
                let mut opts = vec![];
                if self.s.bool() {
                    let idx = if self.s.bool() { format!(" {}", self.name_nokey()) } else { String::new() };
                    opts.push(format!(":internal-uf {}{idx}", self.name_nokey()));
                }
                if self.s.bool() {
                    opts.push(format!(":internal-proof-func {}", self.name_nokey()));
                }
                if self.s.bool() {
                    opts.push(format!(":internal-proof-names {} {} {} {}", self.name_nokey(), self.name_nokey(), self.name_nokey(), self.name_nokey()));
                }
                format!("(sort {}{})", self.name_nokey(), self.shuffled(opts))
            }
            2 => {
                let mut opts = vec![];
                if self.s.bool() {
                    opts.push(format!(":internal-proof-func {}", self.name_nokey()));
                }
                if self.s.bool() {
                    let pp = if self.s.bool() { format!(" {}", self.name()) } else { String::new() };
                    opts.push(format!(":internal-container-rebuild (container-rebuild-spec {}{pp})", self.name()));
                }
                format!("(sort {} {}{})", self.name(), self.presort(), self.shuffled(opts))
            }
            3 => {
                let n = self.s.below(4);
                let vs: Vec<String> = (0..n).map(|_| self.variant()).collect();
                format!("(datatype {} {})", self.name(), vs.join(" "))
            }
            4 => {
                let n = self.s.below(4);
                let mut parts = vec![];
                for _ in 0..n {
                    if self.s.chance(1, 3) {
                        parts.push(format!("(sort {} {})", self.name(), self.presort()));
                    } else {
                        let m = self.s.below(3);
                        let vs: Vec<String> = (0..m).map(|_| self.variant()).collect();
                        let nm = self.name_nokey();
                        // a datatype called `sort` would be read as a sort declaration
                        let nm = if nm == "sort" { "Sort".to_string() } else { nm };
                        parts.push(format!("({nm} {})", vs.join(" ")));
                    }
                }
                format!("(datatype* {})", parts.join(" "))
            }
            5 => {
                let mut opts = vec![];
                if self.s.bool() {
                    opts.push(format!(":cost {}", self.uint()));
                }
                if self.s.chance(1, 3) {
                    opts.push(":unextractable".into());
                }
                if self.s.chance(1, 3) {
                    opts.push(":internal-hidden".into());
                }
                if self.s.chance(1, 3) {
                    opts.push(":internal-let".into());
                }
                format!("(constructor {} {}{})", self.name(), self.schema(), self.shuffled(opts))
            }
            6 => format!("(relation {} ({}))", self.name(), self.names(0, 3, false).join(" ")),
            7 => {
                let mut opts = vec![];
                if self.s.chance(2, 5) {
                    opts.push(":no-merge".to_string());
                } else {
                    opts.push(format!(":merge {}", self.expr(2)));
                }
                if self.s.chance(1, 3) {
                    opts.push(":unextractable".into());
                }
                if self.s.chance(1, 3) {
                    opts.push(":internal-hidden".into());
                }
                if self.s.chance(1, 3) {
                    opts.push(":internal-let".into());
                }
                if self.s.chance(1, 3) {
                    opts.push(format!(":internal-term-constructor {}", self.name_nokey()));
                }
                format!("(function {} {}{})", self.name(), self.schema(), self.shuffled(opts))
            }
            8 => format!("(ruleset {})", self.name()),
            9 => format!("(unstable-combined-ruleset {} {})", self.name(), self.names(0, 3, false).join(" ")),
            10 | 11 => {
                let body = self.facts(0, 3, 2);
                let n = self.s.below(4);
                let head: Vec<String> = (0..n).map(|_| self.action(2)).collect();
                let mut opts = vec![];
                if self.s.bool() {
                    opts.push(format!(":ruleset {}", self.name_nokey()));
                }
                if self.s.bool() {
                    opts.push(format!(":name {}", self.string_lit()));
                }
                match self.s.below(4) {
                    0 => opts.push(":naive".into()),
                    1 => opts.push(":unsafe-seminaive".into()),
                    _ => {}
                }
                if self.s.chance(1, 3) {
                    opts.push(":no-decomp".into());
                }
                if self.s.chance(1, 3) {
                    opts.push(":internal-include-subsumed".into());
                }
                format!("(rule ({body}) ({}){})", head.join(" "), self.shuffled(opts))
            }
            12 | 13 => {
                let bi = k == 13;
                let mut opts = vec![];
                if self.s.bool() {
                    opts.push(format!(":ruleset {}", self.name_nokey()));
                }
                if self.s.bool() {
                    opts.push(format!(":when ({})", self.facts(0, 2, 1)));
                }
                if !bi && self.s.chance(1, 3) {
                    opts.push(":subsume".into());
                }
                if self.s.chance(1, 3) {
                    opts.push(format!(":name {}", self.string_lit()));
                }
                format!("({} {} {}{})", if bi { "birewrite" } else { "rewrite" }, self.expr(2), self.expr(2), self.shuffled(opts))
            }
            14 | 15 => self.action(2),
            16 => {
                if self.s.bool() {
                    format!("(extract {})", self.expr(2))
                } else {
                    format!("(extract {} {})", self.expr(2), self.expr(1))
                }
            }
            17 => {
                let rs = if self.s.bool() { format!("{} ", self.name_nokey()) } else { String::new() };
                format!("(run {rs}{}{})", self.small_uint(), self.until())
            }
            18 | 19 => format!("(run-schedule{})", self.scheds(2)),
            20 => {
                if self.s.bool() {
                    "(print-stats)".into()
                } else {
                    format!("(print-stats :file {})", self.file())
                }
            }
            21 => format!("(check {})", self.facts(0, 3, 2)),
            22 => format!("(prove {})", self.facts(0, 2, 2)),
            23 => format!("(prove-exists {})", self.name()),
            24 => {
                let rows = if self.s.bool() { format!(" {}", self.uint()) } else { String::new() };
                let mut opts = vec![];
                if self.s.bool() {
                    opts.push(format!(":file {}", self.file()));
                }
                match self.s.below(3) {
                    0 => opts.push(":mode csv".into()),
                    1 => opts.push(":mode default".into()),
                    _ => {}
                }
                format!("(print-function {}{rows}{})", self.name_nokey(), self.shuffled(opts))
            }
            25 => {
                if self.s.bool() {
                    "(print-size)".into()
                } else {
                    format!("(print-size {})", self.name())
                }
            }
            26 => format!("(input {} {})", self.name(), self.file()),
            27 => {
                let n = self.s.below(3);
                let es: Vec<String> = (0..n).map(|_| self.expr(2)).collect();
                format!("(output {} {})", self.file(), es.join(" "))
            }
            28 => {
                if self.s.bool() {
                    "(push)".into()
                } else {
                    format!("(push {})", self.uint())
                }
            }
            29 => {
                if self.s.bool() {
                    "(pop)".into()
                } else {
                    format!("(pop {})", self.uint())
                }
            }
            30 => format!("(include {})", self.file()),
            31 => {
                let n = self.s.below(3);
                let es: Vec<String> = (0..n).map(|_| self.expr(2)).collect();
                format!("({USER_CMD} {})", es.join(" "))
            }
            _ => {
                if d > 0 {
                    format!("(fail {})", self.command(d - 1))
                } else {
                    "(fail (check))".into()
                }
            }
        }
    }
}

fn gen_text_case(src: &mut Src) -> TextCase {
    let reserved = src.chance(1, 4);
    let mut g = G { s: src, reserved, excluded: 0 };
    let n = 1 + g.s.below(3);
    let mut text = String::new();
    for i in 0..n {
        if i > 0 {
            text.push_str(match g.s.below(4) {
                0 => " ",
                1 => "\n",
                2 => " ; a comment (with \"quotes\"\n",
                _ => "\n\n",
            });
        }
        let c = g.command(2);
        text.push_str(&c);
    }
    let excluded = g.excluded;
    TextCase { text, reserved_ok: reserved, excluded }
}

pub struct CmdRoundtrip;

impl Stage for CmdRoundtrip {
    type Input = TextCase;
    fn name(&self) -> &'static str {
        "command-roundtrip"
    }
    fn decode(&self, src: &mut Src) -> TextCase {
        gen_text_case(src)
    }
    fn check(&self, inp: &TextCase) -> Outcome {
        judge_text(inp)
    }
    fn simplify(&self, inp: &TextCase) -> Vec<TextCase> {
        simplify_text(inp)
    }
}

// --- a tiny s-expression tokenizer of our own (for shrinking and for the byte-level mutator) -----

/// tokens with their text: "(", ")", string literals (with quotes), atoms; comments dropped
fn tokens(text: &str) -> Vec<String> {
    let cs: Vec<char> = text.chars().collect();
    let mut out = vec![];
    let mut i = 0;
    while i < cs.len() {
        let c = cs[i];
        if c.is_whitespace() {
            i += 1;
        } else if c == ';' {
            while i < cs.len() && cs[i] != '\n' {
                i += 1;
            }
        } else if c == '(' || c == ')' {
            out.push(c.to_string());
            i += 1;
        } else if c == '"' {
            let mut j = i + 1;
            let mut esc = false;
            while j < cs.len() {
                if esc {
                    esc = false;
                } else if cs[j] == '\\' {
                    esc = true;
                } else if cs[j] == '"' {
                    break;
                }
                j += 1;
            }
            let end = (j + 1).min(cs.len());
            out.push(cs[i..end].iter().collect());
            i = end;
        } else {
            let mut j = i;
            while j < cs.len() && !cs[j].is_whitespace() && !matches!(cs[j], ';' | '(' | ')') {
                j += 1;
            }
            out.push(cs[i..j].iter().collect());
            i = j;
        }
    }
    out
}

fn untokenize(toks: &[String]) -> String {
    let mut o = String::new();
    for (i, t) in toks.iter().enumerate() {
        if i > 0 && t != ")" && toks[i - 1] != "(" {
            o.push(' ');
        }
        o.push_str(t);
    }
    o
}

/// token index ranges of the top-level forms
fn top_forms(toks: &[String]) -> Vec<(usize, usize)> {
    let mut out = vec![];
    let mut depth = 0i32;
    let mut start = 0;
    for (i, t) in toks.iter().enumerate() {
        if t == "(" {
            if depth == 0 {
                start = i;
            }
            depth += 1;
        } else if t == ")" {
            depth -= 1;
            if depth == 0 {
                out.push((start, i + 1));
            }
            if depth < 0 {
                depth = 0;
            }
        } else if depth == 0 {
            out.push((i, i + 1));
        }
    }
    out
}

/// all balanced sub-forms (start, end) in token indices
fn sub_forms(toks: &[String]) -> Vec<(usize, usize)> {
    let mut out = vec![];
    let mut stack = vec![];
    for (i, t) in toks.iter().enumerate() {
        if t == "(" {
            stack.push(i);
        } else if t == ")" {
            if let Some(s) = stack.pop() {
                out.push((s, i + 1));
            }
        } else {
            out.push((i, i + 1));
        }
    }
    out
}

fn simplify_text(inp: &TextCase) -> Vec<TextCase> {
    let toks = tokens(&inp.text);
    let mut out = vec![];
    let mk = |t: Vec<String>| TextCase { text: untokenize(&t), reserved_ok: inp.reserved_ok, excluded: 0 };
    // keep a single top-level form
    let tops = top_forms(&toks);
    if tops.len() > 1 {
        for (a, b) in &tops {
            out.push(mk(toks[*a..*b].to_vec()));
        }
    }
    // unwrap (fail X)
    if toks.len() > 3 && toks[0] == "(" && toks[1] == "fail" {
        out.push(mk(toks[2..toks.len() - 1].to_vec()));
    }
    // delete one sub-form (largest first), or replace it by a small atom
    let mut subs = sub_forms(&toks);
    subs.sort_by_key(|(a, b)| std::cmp::Reverse(b - a));
    for (a, b) in subs.iter().take(120) {
        if *a == 0 && *b == toks.len() {
            continue;
        }
        let mut t = toks[..*a].to_vec();
        t.extend_from_slice(&toks[*b..]);
        out.push(mk(t));
        if b - a > 1 {
            let mut t = toks[..*a].to_vec();
            t.push("x".into());
            t.extend_from_slice(&toks[*b..]);
            out.push(mk(t));
        }
    }
    // shorten string literals
    for (i, t) in toks.iter().enumerate() {
        if t.starts_with('"') && t.chars().count() > 3 {
            let inner: Vec<char> = t.chars().collect();
            let inner = &inner[1..inner.len() - 1];
            for cut in 0..inner.len().min(12) {
                let mut s: Vec<char> = inner.to_vec();
                s.remove(cut);
                let cand: String = format!("\"{}\"", s.iter().collect::<String>());
                let mut t2 = toks.clone();
                t2[i] = cand;
                out.push(mk(t2));
            }
        }
    }
    if inp.reserved_ok {
        out.push(TextCase { text: inp.text.clone(), reserved_ok: false, excluded: 0 });
    }
    out
}

// --- byte-level variant: mutate / splice corpus texts ---------------------------------------

const DICT: &[&str] = &[
    ":cost", ":unextractable", ":merge", ":no-merge", ":subsume", ":when", ":ruleset", ":name", ":naive", ":unsafe-seminaive", ":no-decomp", ":until", ":file", ":mode", "csv", "default",
    ":internal-hidden", ":internal-let", ":internal-include-subsumed", ":internal-uf", ":internal-proof-func", ":internal-proof-names", ":internal-term-constructor", ":internal-container-rebuild",
    "(container-rebuild-spec p q)", "sort", "datatype", "datatype*", "constructor", "relation", "function", "ruleset", "unstable-combined-ruleset", "rule", "rewrite", "birewrite", "run", "run-schedule",
    "saturate", "seq", "repeat", "extract", "check", "prove", "prove-exists", "push", "pop", "print-stats", "print-function", "print-size", "input", "output", "include", "fail", "let", "set", "delete",
    "subsume", "union", "panic", "=", "_", "()", "(", ")", "NaN", "inf", "-inf", "-0.0", "1e308", "5e-324", "1e19", "9223372036854775807", "-9223372036854775808", "9223372036854775807.0", "\"\"",
    "\"a\\\"b\"", "\"a\\\\b\"", "\"a\\nb\"", "\"a\nb\"", "\"\t\r\"", "\"é名\"", "\"out.json\"", "\"\u{7f}\"", "true", "false", "0", "1", "x", "@x", "a\"b", "λ", "(run)", "(seq)", "(f)", "(= a b)", "1.0", "2",
];

fn corpus() -> &'static Vec<(String, Vec<String>)> {
    static C: OnceLock<Vec<(String, Vec<String>)>> = OnceLock::new();
    C.get_or_init(|| {
        let mut v = vec![];
        if let Ok(rd) = std::fs::read_dir(REPO_TESTS) {
            for e in rd.flatten() {
                let p = e.path();
                if p.extension().and_then(|x| x.to_str()) != Some("egg") {
                    continue;
                }
                let Ok(md) = e.metadata() else { continue };
                if md.len() > 60_000 {
                    continue;
                }
                if let Ok(t) = std::fs::read_to_string(&p) {
                    v.push((p.file_name().unwrap().to_string_lossy().to_string(), tokens(&t)));
                }
            }
        }
        v.sort();
        v
    })
}

fn gen_bytes_case(src: &mut Src) -> TextCase {
    let files = corpus();
    if files.is_empty() {
        return TextCase { text: String::new(), reserved_ok: false, excluded: 0 };
    }
    let pick_form = |src: &mut Src| -> Vec<String> {
        let (_, toks) = &files[src.below(files.len())];
        let tops = top_forms(toks);
        if tops.is_empty() {
            return vec![];
        }
        let (a, b) = tops[src.below(tops.len().min(65536))];
        toks[a..b].to_vec()
    };
    let n = 1 + src.below(2);
    let mut toks: Vec<String> = vec![];
    for _ in 0..n {
        toks.extend(pick_form(src));
    }
    // keep cases small enough to shrink
    if toks.len() > 400 {
        let tops = top_forms(&toks);
        let (a, b) = tops[0];
        toks = toks[a..b.min(a + 400)].to_vec();
    }
    let muts = src.below(4);
    for _ in 0..muts {
        if toks.is_empty() {
            break;
        }
        let subs = sub_forms(&toks);
        if subs.is_empty() {
            break;
        }
        let (a, b) = subs[src.below(subs.len().min(65536))];
        match src.below(7) {
            0 => {
                // replace a sub-form by a dictionary word
                let w = tokens(*src.pick(DICT));
                toks.splice(a..b, w);
            }
            1 => {
                // insert a dictionary word before it
                let w = tokens(*src.pick(DICT));
                toks.splice(a..a, w);
            }
            2 => {
                // insert after it
                let w = tokens(*src.pick(DICT));
                toks.splice(b..b, w);
            }
            3 => {
                // delete it
                toks.drain(a..b);
            }
            4 => {
                // duplicate it
                let c = toks[a..b].to_vec();
                toks.splice(b..b, c);
            }
            5 => {
                // splice a sub-form of another corpus text over it
                let other = pick_form(src);
                let os = sub_forms(&other);
                if !os.is_empty() {
                    let (c, d) = os[src.below(os.len().min(65536))];
                    toks.splice(a..b, other[c..d].to_vec());
                }
            }
            _ => {
                // wrap the whole thing in (fail ..)
                let mut t = vec!["(".to_string(), "fail".to_string()];
                t.extend(toks.drain(..));
                t.push(")".into());
                toks = t;
            }
        }
    }
    let reserved_ok = toks.iter().any(|t| t.starts_with('@'));
    TextCase { text: untokenize(&toks), reserved_ok, excluded: 0 }
}

pub struct BytesRoundtrip;

impl Stage for BytesRoundtrip {
    type Input = TextCase;
    fn name(&self) -> &'static str {
        "command-roundtrip-bytes"
    }
    fn decode(&self, src: &mut Src) -> TextCase {
        gen_bytes_case(src)
    }
    fn check(&self, inp: &TextCase) -> Outcome {
        let mut o = judge_text(inp);
        // corpus commands are mostly option-free: distinctness by the text, non-triviality by the same rule
        o.key = fnv_str(&inp.text);
        o
    }
    fn simplify(&self, inp: &TextCase) -> Vec<TextCase> {
        simplify_text(inp)
    }
}

// ===========================================================================
// stage (b): extraction round trip
// ===========================================================================

fn term_interest(td: &TermDag, t: egglog::TermId, nonplain: &mut usize, containers: &mut usize, lits: &mut BTreeSet<&'static str>) {
    match td.get(t) {
        egglog::Term::Lit(l) => {
            let (cls, np) = lit_class(l);
            lits.insert(cls);
            if np {
                *nonplain += 1;
            }
        }
        egglog::Term::Var(_) => {}
        egglog::Term::App(h, cs) => {
            if h.starts_with("vec-") || h.starts_with("set-") || h.starts_with("map-") || h.starts_with("multiset-") || h == "pair" {
                *containers += 1;
            }
            for c in cs.clone() {
                term_interest(td, c, nonplain, containers, lits);
            }
        }
    }
}

/// values are "the same" in the e-graph `eg`: e-classes by canonical id, everything else by the
/// interned value (base values and containers are hash-consed), containers also by content
fn same_value(eg: &EGraph, sort: &ArcSort, a: Value, b: Value) -> bool {
    if sort.is_eq_sort() {
        eg.value_to_class_id(sort, a) == eg.value_to_class_id(sort, b)
    } else if a == b {
        true
    } else if sort.is_container_sort() {
        fn strip(v: &eng::Val) -> String {
            match v {
                eng::Val::Base(s) => format!("b:{s}"),
                eng::Val::Class(s, _, c) => format!("c:{s}:{c}"),
                eng::Val::Cont(s, k, _, es) => format!("k:{s}:{k}[{}]", es.iter().map(strip).collect::<Vec<_>>().join(",")),
                eng::Val::RelOut => "()".into(),
            }
        }
        strip(&eng::decode_val(eg, sort, a, 0)) == strip(&eng::decode_val(eg, sort, b, 0))
    } else {
        false
    }
}

struct ExtractStats {
    judged: u64,
    evaluated_standalone: u64,
    unextractable: u64,
    nonplain: usize,
    containers: usize,
    lits: BTreeSet<&'static str>,
}

/// One extraction: the printed term must parse back to the same term and evaluate (on `scratch`,
/// a clone of the e-graph) to the value it was extracted from. Returns false on a violation.
fn judge_extraction(what: &str, td: &TermDag, term: egglog::TermId, sort: &ArcSort, value: Value, scratch: &mut EGraph, out: &mut Outcome, xs: &mut ExtractStats) -> bool {
    xs.judged += 1;
    let printed = td.to_string(term);
    term_interest(td, term, &mut xs.nonplain, &mut xs.containers, &mut xs.lits);
    // the two printers of a term agree (TermDag::to_string vs Display of term_to_expr)
    let via_expr = td.term_to_expr(&term, egglog::ast::Span::Panic).to_string();
    if via_expr != printed {
        out.fail("termdag:to_string-differs-from-expr-display", format!("{what}: TermDag::to_string gives `{}` but term_to_expr(..).to_string() gives `{}`", clip(&printed, 300), clip(&via_expr, 300)));
        return false;
    }
    let mut p = parser(true);
    let expr = match p.get_expr_from_string(None, &printed) {
        Ok(e) => e,
        Err(e) => {
            out.fail("extract:printed-term-unparsable", format!("{what}: the printed extraction `{}` does not parse: {}", clip(&printed, 400), last_line(&e.to_string())));
            return false;
        }
    };
    let mut td2 = td.clone();
    let t2 = td2.expr_to_term(&expr);
    if t2 != term {
        out.fail(
            "extract:printed-term-parses-to-different-term",
            format!("{what}: the printed extraction `{}` parses to a different term: `{}`", clip(&printed, 300), clip(&td2.to_string(t2), 300)),
        );
        return false;
    }
    // Evaluate the printed term where its sort is known (an empty container has no sort of its own):
    // store it in a fresh nullary function of that sort on the scratch clone and read the row back.
    let probe = format!("c15-probe-{}", xs.judged);
    match eng::run(scratch, &format!("(function {probe} () {} :no-merge)", sort.name())) {
        CmdRes::Ok(_) => {}
        _ => {
            out.class("probe-function-not-declarable");
            return true;
        }
    }
    match eng::run(scratch, &format!("(set ({probe}) {printed})")) {
        CmdRes::Ok(_) => {}
        CmdRes::Panic(p) => {
            out.fail(format!("panic:{}", panic_key(&p)), format!("{what}: evaluating the printed extraction `{}` panicked: {p}", clip(&printed, 300)));
            return false;
        }
        CmdRes::Err(_, e) => {
            out.fail(
                "extract:printed-term-does-not-evaluate",
                format!("{what}: the printed extraction `{}` is rejected when evaluated as a value of sort {}: {}", clip(&printed, 400), sort.name(), last_line(&e)),
            );
            return false;
        }
    }
    let mut got: Option<Value> = None;
    let _ = scratch.function_entries(&probe, |e| got = Some(e.output));
    let Some(v2) = got else {
        out.fail("extract:printed-term-does-not-evaluate", format!("{what}: (set ({probe}) {}) succeeded but the function has no row", clip(&printed, 300)));
        return false;
    };
    if !same_value(scratch, sort, value, v2) {
        out.fail(
            "extract:printed-term-evaluates-to-other-value",
            format!("{what}: `{}` evaluates to {:?}, it was extracted from {:?}", clip(&printed, 400), eng::decode_val(scratch, sort, v2, 0), eng::decode_val(scratch, sort, value, 0)),
        );
        return false;
    }
    // and without context, through the evaluation API, whenever that can type the term on its own
    if let Ok(Ok((s2, v3))) = catch(|| scratch.eval_expr(&expr)) {
        xs.evaluated_standalone += 1;
        if s2.name() != sort.name() || !same_value(scratch, sort, value, v3) {
            out.fail(
                "extract:printed-term-evaluates-to-other-value",
                format!("{what}: eval_expr(`{}`) gives {} {:?}, it was extracted from {} {:?}", clip(&printed, 400), s2.name(), eng::decode_val(scratch, &s2, v3, 0), sort.name(), eng::decode_val(scratch, sort, value, 0)),
            );
            return false;
        }
    }
    true
}

fn finish_extract_outcome(out: &mut Outcome, xs: &ExtractStats) {
    out.count("extractions_judged", xs.judged);
    out.count("extractions_also_evaluated_without_context", xs.evaluated_standalone);
    out.count("values_without_extraction", xs.unextractable);
    if xs.containers > 0 {
        out.class("extraction-with-container");
    }
    if xs.nonplain > 0 {
        out.class("extraction-with-nonplain-literal");
    }
    for l in &xs.lits {
        out.class(format!("extracted-{l}"));
    }
    out.nontrivial = xs.containers > 0 || xs.nonplain > 0;
}

/// debugging aid (C15_TRACE=<dir>): the case a thread is working on is kept in a file until it completes
struct Trace(Option<std::path::PathBuf>);
impl Trace {
    fn start(text: &str) -> Trace {
        match std::env::var("C15_TRACE") {
            Ok(dir) => {
                let _ = std::fs::create_dir_all(&dir);
                let p = std::path::Path::new(&dir).join(format!("{:?}-{:016x}.egg", std::thread::current().id(), fnv_str(text)).replace(['(', ')'], ""));
                let _ = std::fs::write(&p, text);
                Trace(Some(p))
            }
            Err(_) => Trace(None),
        }
    }
}
impl Drop for Trace {
    fn drop(&mut self) {
        if let Some(p) = &self.0 {
            let _ = std::fs::remove_file(p);
        }
    }
}

/// pgen marks rules closed that are not (a `set` whose key is a primitive result bound in the body; `delete` next to
/// a rule that re-creates the row), so a `saturate` can diverge. Neither stage needs a fixpoint: every saturate
/// becomes (repeat 3 ..) before the program is used, which bounds all work by construction.
fn bounded(mut p: Prog) -> Prog {
    use crate::prog::{Cmd, Sched};
    fn b(s: &Sched) -> Sched {
        match s {
            Sched::Saturate(ss) => Sched::Repeat(3, ss.iter().map(b).collect()),
            Sched::Repeat(n, ss) => Sched::Repeat((*n).min(3), ss.iter().map(b).collect()),
            Sched::Seq(ss) => Sched::Seq(ss.iter().map(b).collect()),
            other => other.clone(),
        }
    }
    for c in p.cmds.iter_mut() {
        if let Cmd::Sched(s) = c {
            *c = Cmd::Sched(b(s));
        }
    }
    p
}

pub struct ExtractPgen {
    pub cfg: GenCfg,
}

impl ExtractPgen {
    fn examine(&self, eg: &EGraph, idx: usize, out: &mut Outcome, xs: &mut ExtractStats) -> bool {
        // every (sort, value) occurring in a column of any table
        let mut seen: BTreeSet<(String, u32)> = BTreeSet::new();
        let mut todo: Vec<(ArcSort, Value)> = vec![];
        let funcs: Vec<(String, egglog::Function)> = eg.functions_iter().map(|(n, f)| (n.clone(), f.clone())).collect();
        for (name, f) in &funcs {
            let ft = f.func_type();
            let mut sorts: Vec<ArcSort> = ft.input.clone();
            sorts.push(ft.output.clone());
            let mut rows: Vec<Vec<Value>> = vec![];
            let is_ctor = ft.subtype == egglog::ast::FunctionSubtype::Constructor;
            let _ = if is_ctor {
                eg.constructor_enodes(name, |e| {
                    let mut v = e.children.to_vec();
                    v.push(e.eclass);
                    rows.push(v);
                })
            } else {
                eg.function_entries(name, |e| {
                    let mut v = e.inputs.to_vec();
                    v.push(e.output);
                    rows.push(v);
                })
            };
            for r in rows {
                for (v, s) in r.iter().zip(sorts.iter()) {
                    if eng::is_relation_sort(s.name()) {
                        continue;
                    }
                    use egglog_numeric_id::NumericId;
                    if seen.insert((s.name().to_string(), v.rep())) {
                        todo.push((s.clone(), *v));
                    }
                }
            }
        }
        let mut scratch = eg.clone();
        for (sort, v) in todo.into_iter().take(48) {
            let what = format!("after command #{idx}: value of sort {}", sort.name());
            match catch(|| eg.extract_value(&sort, v)) {
                Err(p) => {
                    // extraction panics are C07's subject; here only the round trip is judged
                    out.class("extract-panicked");
                    let _ = p;
                    xs.unextractable += 1;
                }
                Ok(Err(_)) => xs.unextractable += 1,
                Ok(Ok((td, term, _cost))) => {
                    if !judge_extraction(&what, &td, term, &sort, v, &mut scratch, out, xs) {
                        return false;
                    }
                }
            }
        }
        true
    }
}

impl Stage for ExtractPgen {
    type Input = Prog;
    fn name(&self) -> &'static str {
        "extract-roundtrip"
    }
    fn decode(&self, src: &mut Src) -> Prog {
        bounded(Gen::new(src, self.cfg.clone()).gen_prog())
    }
    fn render(&self, inp: &Prog) -> serde_json::Value {
        serde_json::json!(inp.text().lines().collect::<Vec<_>>())
    }
    fn simplify(&self, inp: &Prog) -> Vec<Prog> {
        simplify_prog(inp).into_iter().map(bounded).collect()
    }
    fn check(&self, prog: &Prog) -> Outcome {
        let mut out = Outcome::new(fnv_str(&prog.text()));
        let _trace = Trace::start(&prog.text());
        let mut eg = EGraph::default();
        if !super::declare(&mut eg, &prog.sig, &mut out) {
            return out;
        }
        let mut xs = ExtractStats { judged: 0, evaluated_standalone: 0, unextractable: 0, nonplain: 0, containers: 0, lits: BTreeSet::new() };
        let n = prog.cmds.len();
        for (i, c) in prog.cmds.iter().enumerate() {
            let text = prog.sig.cmd(c);
            match eng::run(&mut eg, &text) {
                CmdRes::Panic(_) => {
                    // panics while running are other properties' subject
                    out.class("run-panicked");
                    break;
                }
                CmdRes::Err(eng::ErrKind::Static, _) => {
                    out.class("gen-invalid-cmd");
                    break;
                }
                _ => {}
            }
            if i + 1 == n || i % 6 == 5 {
                if !self.examine(&eg, i, &mut out, &mut xs) {
                    return out;
                }
            }
        }
        finish_extract_outcome(&mut out, &xs);
        out
    }
}

// --- literal-heavy programs ------------------------------------------------------------------

const LIT_PRELUDE: &str = "\
(sort VecI (Vec i64))
(sort VecF (Vec f64))
(sort VecS (Vec String))
(sort VecB (Vec bool))
(sort SetI (Set i64))
(sort SetF (Set f64))
(sort SetS (Set String))
(sort MSetF (MultiSet f64))
(sort MSetS (MultiSet String))
(sort MapSI (Map String i64))
(sort MapFS (Map f64 String))
(sort V)
(constructor MkI (i64) V)
(constructor MkF (f64) V)
(constructor MkS (String) V)
(constructor MkB (bool) V)
(constructor MkVI (VecI) V)
(constructor MkVF (VecF) V)
(constructor MkVS (VecS) V)
(constructor MkVB (VecB) V)
(constructor MkSI (SetI) V)
(constructor MkSF (SetF) V)
(constructor MkSS (SetS) V)
(constructor MkMF (MSetF) V)
(constructor MkMS (MSetS) V)
(constructor MkMapSI (MapSI) V)
(constructor MkMapFS (MapFS) V)
(constructor Two (V V) V)
(constructor Mix (f64 String i64) V :cost 3)
(sort VecV (Vec V))
(sort SetV (Set V))
(constructor MkVV (VecV) V)
(constructor MkSV (SetV) V)
(function fF (f64) f64 :no-merge)
(function fS (String) String :no-merge)
";

const I64_EXPRS: &[&str] = &[
    "0", "1", "-1", "42", "9223372036854775807", "-9223372036854775808", "9223372036854775806", "-9223372036854775807", "9007199254740993", "(- 0 9223372036854775807)", "(* 3037000499 3037000499)",
    "(+ 4611686018427387904 4611686018427387903)", "(to-i64 1e18)", "(to-i64 -0.0)",
];
const F64_EXPRS: &[&str] = &[
    "1.0", "0.5", "-2.5", "0.0", "-0.0", "NaN", "inf", "-inf", "1e308", "-1e308", "1.7976931348623157e308", "5e-324", "-5e-324", "2.2250738585072014e-308", "2.225073858507201e-308", "1e19", "1e21", "1e22",
    "1e23", "9223372036854775807.0", "-9223372036854775808.0", "9007199254740993.0", "0.1", "0.30000000000000004", "1.0000000000000002", "1e-7", "1e300", "1e-300", "(/ 1.0 3.0)", "(sqrt 2.0)", "(* 1e308 10.0)",
    "(- inf inf)", "(neg 0.0)", "(exp 1.0)", "(^ 2.0 0.5)", "(to-f64 9007199254740993)", "(to-f64 9223372036854775807)", "(* 5e-324 0.5)", "(/ 5e-324 2.0)", "(+ 0.1 0.2)", "(neg NaN)", "(* -1.0 0.0)",
    "(/ 1e-300 1e300)", "(^ 10.0 22.0)", "(^ 10.0 23.0)", "(max -0.0 0.0)", "(min -0.0 0.0)", "(abs -0.0)",
];
const STR_EXPRS: &[&str] = &[
    "\"\"", "\"a\"", "\"hello world\"", "\"a\\\"b\"", "\"a\\\\b\"", "\"a\\nb\"", "\"a\nb\"", "\"a\\tb\"", "\"a\tb\"", "\"a\rb\"", "\"é名\u{1F600}\"", "\"\u{7f}\"", "\"\u{0}\"", "\";\"", "\"(\"", "\")\"", "\"\\\\n\"",
    "\"\\\\\\\"\"", "\"\\\"\"", "\"\\\\\"", "(+ \"a\" \"\\\"\")", "(+ \"\\\\\" \"n\")", "(to-string 1.5)", "(to-string 1e308)", "(to-string NaN)", "(to-string -0.0)", "(replace \"a.b\" \".\" \"\\\\\")",
    "(+ \"x\" \"\n\" \"y\")", "\"\u{a0}\u{2028}\"", "\" \"", "\"@x\"",
];
const BOOL_EXPRS: &[&str] = &["true", "false", "(and true false)", "(not false)"];

#[derive(Clone, Debug, Serialize, Deserialize)]
pub struct LitCase {
    /// expressions, each bound to a global `$v<i>` and then extracted
    pub values: Vec<String>,
}

struct LG<'a, 'b> {
    s: &'a mut Src<'b>,
}

impl<'a, 'b> LG<'a, 'b> {
    fn many(&mut self, pool: &[&str], lo: usize, hi: usize) -> String {
        let n = self.s.range(lo as i64, hi as i64) as usize;
        (0..n).map(|_| format!(" {}", self.s.pick(pool))).collect()
    }
    fn v(&mut self, d: usize) -> String {
        let k = self.s.below(if d == 0 { 15 } else { 19 });
        match k {
            0 => format!("(MkI {})", self.s.pick(I64_EXPRS)),
            1 | 2 => format!("(MkF {})", self.s.pick(F64_EXPRS)),
            3 | 4 => format!("(MkS {})", self.s.pick(STR_EXPRS)),
            5 => format!("(MkB {})", self.s.pick(BOOL_EXPRS)),
            6 => format!("(MkVI (vec-of{}))", self.many(I64_EXPRS, 1, 3)),
            7 => format!("(MkVF (vec-of{}))", self.many(F64_EXPRS, 1, 4)),
            8 => format!("(MkVS (vec-of{}))", self.many(STR_EXPRS, 1, 3)),
            9 => format!("(MkSF (set-of{}))", self.many(F64_EXPRS, 1, 4)),
            10 => format!("(MkSS (set-of{}))", self.many(STR_EXPRS, 1, 3)),
            11 => format!("(MkMF (multiset-of{}))", self.many(F64_EXPRS, 1, 4)),
            12 => format!("(MkMS (multiset-of{}))", self.many(STR_EXPRS, 1, 3)),
            13 => {
                let n = self.s.below(3);
                let mut m = String::from("(map-empty)");
                for _ in 0..n {
                    m = format!("(map-insert {m} {} {})", self.s.pick(F64_EXPRS), self.s.pick(STR_EXPRS));
                }
                format!("(MkMapFS {m})")
            }
            14 => format!("(Mix {} {} {})", self.s.pick(F64_EXPRS), self.s.pick(STR_EXPRS), self.s.pick(I64_EXPRS)),
            15 => format!("(Two {} {})", self.v(d - 1), self.v(d - 1)),
            16 => format!("(MkVV (vec-of {} {}))", self.v(d - 1), self.v(d - 1)),
            17 => format!("(MkSV (set-of {} {}))", self.v(d - 1), self.v(d - 1)),
            _ => match self.s.below(4) {
                0 => "(MkVF (vec-empty))".into(),
                1 => "(MkSS (set-empty))".into(),
                2 => format!("(MkVB (vec-of{}))", self.many(BOOL_EXPRS, 0, 3)),
                _ => format!("(MkSI (set-of{}))", self.many(I64_EXPRS, 0, 3)),
            },
        }
    }
    fn value(&mut self) -> String {
        match self.s.below(14) {
            0 => self.s.pick(I64_EXPRS).to_string(),
            1 | 2 => self.s.pick(F64_EXPRS).to_string(),
            3 | 4 => self.s.pick(STR_EXPRS).to_string(),
            5 => format!("(vec-of{})", self.many(F64_EXPRS, 1, 4)),
            6 => format!("(set-of{})", self.many(F64_EXPRS, 1, 4)),
            7 => format!("(vec-of{})", self.many(STR_EXPRS, 1, 3)),
            8 => format!("(multiset-of{})", self.many(STR_EXPRS, 1, 3)),
            9 => format!("(map-insert (map-empty) {} {})", self.s.pick(STR_EXPRS), self.s.pick(I64_EXPRS)),
            10 => format!("(vec-of {} {})", self.v(1), self.v(1)),
            _ => self.v(2),
        }
    }
}

pub struct ExtractLits;

impl Stage for ExtractLits {
    type Input = LitCase;
    fn name(&self) -> &'static str {
        "extract-roundtrip-literals"
    }
    fn decode(&self, src: &mut Src) -> LitCase {
        let n = 1 + src.below(4);
        let mut g = LG { s: src };
        LitCase { values: (0..n).map(|_| g.value()).collect() }
    }
    fn simplify(&self, inp: &LitCase) -> Vec<LitCase> {
        let mut out = vec![];
        if inp.values.len() > 1 {
            for i in 0..inp.values.len() {
                out.push(LitCase { values: vec![inp.values[i].clone()] });
            }
        }
        for (i, v) in inp.values.iter().enumerate() {
            let toks = tokens(v);
            for (a, b) in sub_forms(&toks) {
                if a == 0 && b == toks.len() {
                    continue;
                }
                // hoist a sub-expression / drop an argument
                let mut vs = inp.values.clone();
                vs[i] = untokenize(&toks[a..b]);
                out.push(LitCase { values: vs });
                let mut t = toks[..a].to_vec();
                t.extend_from_slice(&toks[b..]);
                let mut vs = inp.values.clone();
                vs[i] = untokenize(&t);
                out.push(LitCase { values: vs });
            }
        }
        out
    }
    fn check(&self, inp: &LitCase) -> Outcome {
        let mut out = Outcome::new(fnv_str(&inp.values.join("\u{1}")));
        let mut eg = EGraph::default();
        match eng::run(&mut eg, LIT_PRELUDE) {
            CmdRes::Ok(_) => {}
            other => {
                out.class("prelude-rejected");
                out.count("prelude_rejected", 1);
                if std::env::var("VERIF_DEBUG").is_ok() {
                    eprintln!("prelude rejected: {}", other.short());
                }
                return out;
            }
        }
        let mut xs = ExtractStats { judged: 0, evaluated_standalone: 0, unextractable: 0, nonplain: 0, containers: 0, lits: BTreeSet::new() };
        for (i, v) in inp.values.iter().enumerate() {
            let name = format!("$v{i}");
            match eng::run(&mut eg, &format!("(let {name} {v})")) {
                CmdRes::Ok(_) => {}
                CmdRes::Panic(p) => {
                    out.fail(format!("panic:{}", panic_key(&p)), format!("(let {name} {v}) panicked: {p}"));
                    return out;
                }
                other => {
                    out.class("gen-invalid-value");
                    if std::env::var("VERIF_DEBUG").is_ok() {
                        eprintln!("value rejected: {v}: {}", other.short());
                    }
                    continue;
                }
            }
            let what = format!("(extract {name}) with {name} = {}", clip(v, 200));
            let outs = match eng::run_raw(&mut eg, &format!("(extract {name})")) {
                Ok(Ok(o)) => o,
                Ok(Err(e)) => {
                    out.fail("extract:literal-value-not-extractable", format!("{what} failed: {e}"));
                    return out;
                }
                Err(p) => {
                    out.fail(format!("panic:{}", panic_key(&p)), format!("{what} panicked: {p}"));
                    return out;
                }
            };
            let Some(CommandOutput::ExtractBest(td, _cost, term)) = outs.into_iter().find(|o| matches!(o, CommandOutput::ExtractBest(..))) else {
                out.class("no-extract-output");
                continue;
            };
            // value and sort of the global, through the evaluation API
            let mut scratch = eg.clone();
            let var = GenericExpr::Var(egglog::ast::Span::Panic, name.clone());
            let (sort, value) = match catch(|| scratch.eval_expr(&var)) {
                Ok(Ok(x)) => x,
                _ => {
                    out.class("global-not-evaluable");
                    continue;
                }
            };
            if !judge_extraction(&what, &td, term, &sort, value, &mut scratch, &mut out, &mut xs) {
                return out;
            }
            // and through the surface language: (check (= <printed> $v))
            let printed = td.to_string(term);
            let mut c2 = eg.clone();
            match eng::run(&mut c2, &format!("(check (= {printed} {name}))")) {
                CmdRes::Ok(_) => {}
                CmdRes::Panic(p) => {
                    out.fail(format!("panic:{}", panic_key(&p)), format!("{what}: (check (= {} {name})) panicked: {p}", clip(&printed, 300)));
                    return out;
                }
                CmdRes::Err(_, e) => {
                    out.fail("extract:printed-term-not-equal-to-source", format!("{what}: (check (= {} {name})) fails: {}", clip(&printed, 400), last_line(&e)));
                    return out;
                }
            }
        }
        finish_extract_outcome(&mut out, &xs);
        out
    }
}

// ===========================================================================
// stage (c): resolve_program round trip
// ===========================================================================

struct RunLog {
    /// concatenated snapshot_stable_under_proof_encoding renderings of the commands that ran
    stable: String,
    /// "ok" | "err:<ErrKind>" | "panic"
    status: String,
    detail: String,
    executed: usize,
    total: usize,
    dump: Option<eng::CanonDump>,
}

/// parse `text` with the engine's parser and run it command by command (so that the outputs before
/// a failing command are kept); None = the text does not parse
fn run_logged(eg: &mut EGraph, text: &str) -> Result<RunLog, String> {
    let cmds = match catch(|| eg.parse_program(None, text)) {
        Ok(Ok(c)) => c,
        Ok(Err(e)) => return Err(e.to_string()),
        Err(p) => return Err(format!("PANIC {p}")),
    };
    let mut log = RunLog { stable: String::new(), status: "ok".into(), detail: String::new(), executed: 0, total: cmds.len(), dump: None };
    for c in cmds {
        let shown = clip(&format!("{c}"), 200);
        match catch(|| eg.run_program(vec![c])) {
            Ok(Ok(outs)) => {
                log.stable.push_str(&CommandOutput::snapshot_stable_under_proof_encoding(&outs));
                log.executed += 1;
            }
            Ok(Err(e)) => {
                log.status = format!("err:{:?}", eng::err_kind(&e));
                log.detail = format!("`{shown}`: {}", last_line(&e.to_string()));
                return Ok(log);
            }
            Err(p) => {
                log.status = "panic".into();
                log.detail = format!("`{shown}`: {p}");
                return Ok(log);
            }
        }
    }
    log.dump = catch(|| eng::canon_dump(eg)).ok();
    Ok(log)
}

#[derive(Default)]
struct ResolveStats {
    rules: usize,
    runs: usize,
}

/// The judge of stage (c). `src` is the source program.
fn judge_resolve(src: &str, out: &mut Outcome) {
    // 1. the source, directly (recipe of tests/files.rs: `(print-size)` appended)
    let mut direct_eg = EGraph::default();
    let direct = match run_logged(&mut direct_eg, &format!("{src}\n(print-size)")) {
        Ok(l) => l,
        Err(_) => {
            out.class("source-does-not-parse");
            return;
        }
    };
    if direct.status == "panic" {
        // panics of the engine are other properties' subject
        out.class("source-run-panics");
        return;
    }
    // 2. resolve
    let mut res_eg = EGraph::default();
    let resolved = match catch(|| res_eg.resolve_program(None, src)) {
        Err(p) => {
            out.fail(format!("panic:{}", panic_key(&p)), format!("resolve_program panicked: {p}"));
            return;
        }
        Ok(Err(e)) => {
            if direct.status == "ok" {
                out.fail("resolve:rejects-program-that-runs", format!("the program runs without error, but resolve_program rejects it: {}", last_line(&e.to_string())));
            } else {
                out.class("resolve-error-and-source-error");
            }
            return;
        }
        Ok(Ok(r)) => r,
    };
    let mut st = ResolveStats::default();
    for c in &resolved {
        match c {
            GenericCommand::Rule { .. } => st.rules += 1,
            GenericCommand::RunSchedule(..) => st.runs += 1,
            _ => {}
        }
    }
    out.count("resolved_commands", resolved.len() as u64);
    // 3. upstream's recipe: print every resolved command, run on a fresh engine that accepts the reserved prefix
    let printed: Vec<String> = match catch(|| resolved.iter().map(|c| c.to_string()).collect()) {
        Ok(p) => p,
        Err(p) => {
            out.fail(format!("panic:{}", panic_key(&p)), format!("printing a resolved command panicked: {p}"));
            return;
        }
    };
    let text = printed.join("\n");
    let mut fresh = EGraph::default();
    fresh.ensure_no_reserved_symbols(false);
    let again = match run_logged(&mut fresh, &format!("{text}\n(print-size)")) {
        Ok(l) => l,
        Err(e) => {
            // which command?
            let mut culprit = String::new();
            for p in &printed {
                let mut pp = parser(true);
                if pp.get_program_from_string(None, p).is_err() {
                    culprit = p.clone();
                    break;
                }
            }
            out.fail("resolve:printed-program-unparsable", format!("the resolved program does not parse: {}\ncommand: {}", last_line(&e), clip(&culprit, 600)));
            return;
        }
    };
    compare_logs("resolved program (printed, reserved prefix accepted)", &direct, &again, &text, "resolve", true, out);
    if out.fail.is_some() {
        return;
    }
    // 4. the CLI's recipe (--show egglog): sanitize_internal_names, then a DEFAULT engine
    let san = match catch(|| sanitize_internal_names(&resolved)) {
        Ok(s) => s,
        Err(p) => {
            out.fail(format!("panic:{}", panic_key(&p)), format!("sanitize_internal_names panicked on the resolved program: {p}"));
            return;
        }
    };
    let san_text = san.iter().map(|c| c.to_string()).collect::<Vec<_>>().join("\n");
    if san_text != text {
        out.class("sanitiser-renamed-something");
    }
    let mut fresh2 = EGraph::default();
    match run_logged(&mut fresh2, &format!("{san_text}\n(print-size)")) {
        Ok(l) => compare_logs("sanitised resolved program (default parser)", &direct, &l, &san_text, "sanitize", false, out),
        Err(e) => {
            out.fail("sanitize:resolved-program-unparsable", format!("the sanitised resolved program does not parse with the default parser: {}\nprogram:\n{}", last_line(&e), clip(&san_text, 1500)));
        }
    }
    if st.rules > 0 {
        out.class("has-rule");
    }
    if st.runs > 0 {
        out.class("has-run");
    }
    if direct.status != "ok" {
        out.class(format!("source-{}", direct.status));
    }
    out.nontrivial = st.rules > 0 && st.runs > 0;
}

fn compare_logs(what: &str, direct: &RunLog, again: &RunLog, text: &str, sig: &str, names_kept: bool, out: &mut Outcome) {
    if again.status == "panic" {
        out.fail(format!("panic:{}", panic_key(&again.detail)), format!("{what}: panicked: {}", again.detail));
        return;
    }
    if direct.status != again.status {
        out.fail(
            format!("{sig}:status-differs"),
            format!(
                "{what}: the source ends with {} {} after {}/{} commands, the printed program with {} {} after {}/{} commands\nprinted program:\n{}",
                direct.status,
                direct.detail,
                direct.executed,
                direct.total,
                again.status,
                again.detail,
                again.executed,
                again.total,
                clip(text, 2500)
            ),
        );
        return;
    }
    // sanitising renames internal symbols, which may be visible in (print-size): compare without names there
    let (a, b) = if names_kept { (direct.stable.clone(), again.stable.clone()) } else { (strip_internal_rows(&direct.stable), strip_internal_rows(&again.stable)) };
    if a != b {
        out.fail(format!("{sig}:outputs-differ"), format!("{what}: stable outputs differ.\nsource:\n{}\nprinted program:\n{}\nprinted program text:\n{}", clip(&a, 1200), clip(&b, 1200), clip(text, 2500)));
        return;
    }
    // the harness's dump recognises relations by their generated sort name, which sanitising changes
    if !names_kept {
        return;
    }
    if let (Some(d1), Some(d2)) = (&direct.dump, &again.dump) {
        if d1 != d2 {
            out.fail(format!("{sig}:database-differs"), format!("{what}: final user-visible databases differ (left source, right printed program):\n{}\nprinted program text:\n{}", clip(&d1.diff(d2), 1500), clip(text, 2500)));
        }
    }
}

/// drop `(name size)` rows of internal (reserved-prefix or underscore-prefixed after sanitising) tables
fn strip_internal_rows(s: &str) -> String {
    s.lines().filter(|l| !(l.contains("(@") || l.contains("(_"))).collect::<Vec<_>>().join("\n")
}

pub struct ResolvePgen {
    pub cfg: GenCfg,
}

impl Stage for ResolvePgen {
    type Input = Prog;
    fn name(&self) -> &'static str {
        "resolve-roundtrip"
    }
    fn decode(&self, src: &mut Src) -> Prog {
        bounded(Gen::new(src, self.cfg.clone()).gen_prog())
    }
    fn render(&self, inp: &Prog) -> serde_json::Value {
        serde_json::json!(inp.text().lines().collect::<Vec<_>>())
    }
    fn simplify(&self, inp: &Prog) -> Vec<Prog> {
        simplify_prog(inp).into_iter().map(bounded).collect()
    }
    fn check(&self, prog: &Prog) -> Outcome {
        let text = prog.text();
        let mut out = Outcome::new(fnv_str(&text));
        judge_resolve(&text, &mut out);
        out
    }
}

#[derive(Clone, Debug, Serialize, Deserialize)]
pub struct FileCase {
    pub name: String,
    pub text: String,
}

pub struct ResolveCorpus;

/// files that read or write other files (relative paths), or that upstream itself keeps out of fast runs
fn corpus_file_usable(name: &str, text: &str) -> bool {
    let banned_text = ["(input", "(output", "(include", ":file"];
    let banned_names = ["math-microbenchmark", "eggcc", "extract-vec-bench", "python_array_optimize", "stresstest_large_expr", "towers-of-hanoi", "taylor51", "factoring-multisets", "herbie", "luminal", "gemma", "llama", "qwen", "whisper", "rectangle", "cykjson", "lambda", "typeinfer", "fibonacci-demand", "resolution", "matrix", "eqsat-basic-multiset", "repro-unsound"];
    !banned_text.iter().any(|b| text.contains(b)) && !banned_names.iter().any(|b| name.contains(b))
}

impl Stage for ResolveCorpus {
    type Input = FileCase;
    fn name(&self) -> &'static str {
        "resolve-roundtrip-corpus"
    }
    fn decode(&self, src: &mut Src) -> FileCase {
        let files = crate::props::corpus::corpus_files(8_000);
        if files.is_empty() {
            return FileCase { name: String::new(), text: String::new() };
        }
        let name = src.pick(&files).clone();
        let text = std::fs::read_to_string(format!("{REPO_TESTS}/{name}")).unwrap_or_default();
        FileCase { name, text }
    }
    fn render(&self, inp: &FileCase) -> serde_json::Value {
        serde_json::json!({"file": inp.name})
    }
    fn check(&self, inp: &FileCase) -> Outcome {
        let mut out = Outcome::new(fnv_str(&inp.name));
        if !corpus_file_usable(&inp.name, &inp.text) {
            out.class("skipped-file-io-or-slow");
            return out;
        }
        judge_resolve(&inp.text, &mut out);
        out
    }
}

// --- literal-heavy rule programs for stage (c) ---------------------------------------------------

const RL_PRELUDE: &str = "\
(datatype V (MkS String) (MkF f64) (MkI i64) (Pair V V))
(relation RS (String))
(relation RF (f64))
(relation RV (V))
(function cnt (String) i64 :merge (max old new))
(ruleset rs1)
";

#[derive(Clone, Debug, Serialize, Deserialize)]
pub struct LinesCase {
    pub lines: Vec<String>,
}

struct RL<'a, 'b> {
    s: &'a mut Src<'b>,
    globals: usize,
}

impl<'a, 'b> RL<'a, 'b> {
    fn strlit(&mut self) -> String {
        loop {
            let x = *self.s.pick(STR_EXPRS);
            if x.starts_with('"') {
                return x.to_string();
            }
            if self.s.exhausted() {
                return "\"a\"".into();
            }
        }
    }
    fn flit(&mut self) -> String {
        loop {
            let x = *self.s.pick(F64_EXPRS);
            if !x.starts_with('(') {
                return x.to_string();
            }
            if self.s.exhausted() {
                return "1.0".into();
            }
        }
    }
    fn opts(&mut self) -> String {
        let mut o = String::new();
        if self.s.chance(1, 3) {
            o.push_str(" :ruleset rs1");
        }
        if self.s.chance(1, 3) {
            o.push_str(&format!(" :name {}", self.strlit()));
        }
        o
    }
    fn line(&mut self) -> String {
        match self.s.below(20) {
            0 | 1 => format!("(RS {})", self.strlit()),
            2 => format!("(RF {})", self.flit()),
            3 => format!("(RV (MkS {}))", self.strlit()),
            4 => format!("(set (cnt {}) {})", self.strlit(), self.s.pick(INT_LITS)),
            5 => {
                self.globals += 1;
                format!("(let $g{} (Pair (MkS {}) (MkF {})))", self.globals - 1, self.strlit(), self.flit())
            }
            6 | 7 => format!("(rule ((RS s) (= s {})) ((RV (MkS {})) (RV (MkS (+ s {})))){})", self.strlit(), self.strlit(), self.strlit(), self.opts()),
            8 => format!("(rule ((RV (MkS s)) (RF _)) ((RS s) (set (cnt s) 1)){})", self.opts()),
            9 => format!("(rule ((RF x) (> x {})) ((RV (MkF x))){})", self.flit(), self.opts()),
            10 => format!("(rule ((RS {})) ((panic {})){})", "\"never inserted\"", self.strlit(), self.opts()),
            11 => format!("(rewrite (MkS {}) (MkS {}){}{})", self.strlit(), self.strlit(), if self.s.bool() { " :subsume" } else { "" }, self.opts()),
            12 => format!("(birewrite (Pair a b) (Pair b a){})", self.opts()),
            13 => format!("(rewrite (Pair (MkS s) _) (MkS s) :when ((RS s) (= s {})){})", self.strlit(), self.opts()),
            14 => format!("(fail (panic {}))", self.strlit()),
            15 => "(run 2)".into(),
            16 => "(run rs1 1)".into(),
            17 => "(run-schedule (saturate (run)) (repeat 2 (run rs1)))".into(),
            18 => match self.s.below(3) {
                0 => "(print-size RS)".into(),
                1 => "(print-size RV)".into(),
                _ => "(print-size)".into(),
            },
            _ => {
                if self.globals > 0 {
                    format!("(extract $g{})", self.s.below(self.globals))
                } else {
                    format!("(extract (MkS {}))", self.strlit())
                }
            }
        }
    }
}

pub struct ResolveLits;

impl Stage for ResolveLits {
    type Input = LinesCase;
    fn name(&self) -> &'static str {
        "resolve-roundtrip-literals"
    }
    fn decode(&self, src: &mut Src) -> LinesCase {
        let n = 2 + src.below(9);
        let mut g = RL { s: src, globals: 0 };
        LinesCase { lines: (0..n).map(|_| g.line()).collect() }
    }
    fn simplify(&self, inp: &LinesCase) -> Vec<LinesCase> {
        (0..inp.lines.len())
            .map(|i| {
                let mut l = inp.lines.clone();
                l.remove(i);
                LinesCase { lines: l }
            })
            .collect()
    }
    fn check(&self, inp: &LinesCase) -> Outcome {
        let text = format!("{RL_PRELUDE}{}", inp.lines.join("\n"));
        let mut out = Outcome::new(fnv_str(&text));
        judge_resolve(&text, &mut out);
        if inp.lines.iter().any(|l| l.contains("\\")) {
            out.class("source-with-escape-in-string");
        }
        out
    }
}

// ===========================================================================
// run / replay
// ===========================================================================

pub fn cfg_extract() -> GenCfg {
    GenCfg { containers: true, costs: true, subsume: true, delete: true, extract_cmds: true, max_cmds: 14, min_cmds: 4, ..GenCfg::default() }
}
pub fn cfg_resolve() -> GenCfg {
    GenCfg { containers: true, costs: true, subsume: true, delete: true, push_pop: true, extract_cmds: true, max_cmds: 14, min_cmds: 4, ..GenCfg::default() }
}

pub fn replay(rep: &Report, stage: &str, j: &serde_json::Value) -> i32 {
    match stage {
        "command-roundtrip" => crate::registry::replay_stage(rep, &CmdRoundtrip, j),
        "command-roundtrip-bytes" => crate::registry::replay_stage(rep, &BytesRoundtrip, j),
        "extract-roundtrip" => crate::registry::replay_stage(rep, &ExtractPgen { cfg: cfg_extract() }, j),
        "extract-roundtrip-literals" => crate::registry::replay_stage(rep, &ExtractLits, j),
        "resolve-roundtrip" => crate::registry::replay_stage(rep, &ResolvePgen { cfg: cfg_resolve() }, j),
        "resolve-roundtrip-corpus" => crate::registry::replay_stage(rep, &ResolveCorpus, j),
        "resolve-roundtrip-literals" => crate::registry::replay_stage(rep, &ResolveLits, j),
        _ => {
            eprintln!("C15: unknown stage {stage}");
            2
        }
    }
}

pub fn run(rep: &Report) {
    rep.set_rule(
        "(a) command-roundtrip: 1-3 commands of TEXT from a grammar over every command kind of parse.rs and every option \
         (:cost :unextractable :merge :no-merge :subsume :when :ruleset :name :naive :unsafe-seminaive :no-decomp :until, print-function rows/:file/:mode, print-stats :file, push/pop n, \
         internal annotations :internal-hidden :internal-let :internal-include-subsumed :internal-uf :internal-proof-func :internal-proof-names :internal-term-constructor :internal-container-rebuild), \
         schedules, facts, actions, expressions, literals (i64 extremes, NaN, +-inf, -0.0, subnormals, 1e308, integral floats beyond i64, strings with quote / backslash / newline / tab / CR / unicode / empty, unit, bools), \
         `_` wildcards, odd-but-lexable symbols, reserved-prefix symbols (parser told to accept them); command-roundtrip-bytes: 1-2 top-level forms of /repo/tests/*.egg with 0-3 token-level mutations \
         (dictionary word replace/insert, delete, duplicate, splice from another file, wrap in fail). Only text the parser accepts is judged: print every command, parse, compare span-free canonical trees \
         (modulo flatten_sequences), print again; sanitize_internal_names must be a bijective renaming whose output the default parser reads back. \
         non-trivial = a judged command uses >=1 option or >=1 non-plain literal; distinct by text. \
         (b) extract-roundtrip: every distinct (sort,value) in any table column of a pgen program (containers, costs, subsume, delete), extract-roundtrip-literals: globals over i64/f64/String/bool/containers/constructors \
         holding the unusual literals and computed values; printed extraction must parse to the same term and evaluate on a clone to the value it came from (+ (check (= printed $v))). \
         non-trivial = an extraction containing a non-plain literal or a container. \
         (c) resolve-roundtrip: pgen programs, resolve-roundtrip-literals: rule/rewrite/panic/global programs over the unusual string and float literals (default rule names are derived from the rule text), and small /repo/tests/*.egg files; resolve_program -> print -> fresh engine (tests/files.rs _desugar recipe) and sanitize -> default engine (CLI recipe); \
         equal status, stable outputs incl. appended (print-size), final canonical database. non-trivial = resolved program with >=1 rule and >=1 run.",
    );
    rep.assume("schedules are compared modulo the code base's own flatten_sequences; f64 values are compared with the f64 sort's own equality (all NaNs equal, -0.0 = 0.0)");
    rep.note(
        "observation (counted as class sanitise-leftover-reserved-symbol, not judged): sanitize_internal_names does not visit container-sort heads/arguments, datatype* sort arguments, \
         :internal-container-rebuild / :internal-proof-names names and user-defined-command arguments; a reserved-prefix symbol there (e.g. the `@_` of a `_` written in such a position) survives sanitising \
         and the default parser then rejects the printed command",
    );
    rep.assume("symbols with the reserved prefix are judged under Parser::ensure_no_reserved_symbols=false (the setting tests/files.rs uses for printed programs)");

    // VERIF_STAGE=<substring> restricts the run to matching stages (debugging / mutant runs only)
    let only = std::env::var("VERIF_STAGE").ok();
    let want = |name: &str| only.as_ref().map(|o| name.contains(o.as_str())).unwrap_or(true);
    let a = CmdRoundtrip;
    if want(a.name()) {
        rep.run_regressions(&a);
        rep.explore(&a, rep.tier.pick(60_000, 800_000), 400);
    }
    let have_corpus = !corpus().is_empty();
    if !have_corpus {
        rep.note(format!("{REPO_TESTS} has no .egg files: byte-level and corpus stages skipped"));
    }
    let ab = BytesRoundtrip;
    if want(ab.name()) && have_corpus {
        rep.run_regressions(&ab);
        rep.explore(&ab, rep.tier.pick(25_000, 300_000), 200);
    }
    let b = ExtractPgen { cfg: cfg_extract() };
    if want(b.name()) {
        rep.run_regressions(&b);
        rep.explore(&b, rep.tier.pick(1500, 30_000), 600);
    }
    let bl = ExtractLits;
    if want(bl.name()) {
        rep.run_regressions(&bl);
        rep.explore(&bl, rep.tier.pick(2500, 60_000), 200);
    }
    let c = ResolvePgen { cfg: cfg_resolve() };
    if want(c.name()) {
        rep.run_regressions(&c);
        rep.explore(&c, rep.tier.pick(1500, 30_000), 600);
    }
    let cl = ResolveLits;
    if want(cl.name()) {
        rep.run_regressions(&cl);
        rep.explore(&cl, rep.tier.pick(2000, 40_000), 300);
    }
    let cc = ResolveCorpus;
    if want(cc.name()) && have_corpus && !rep.stopped() {
        rep.run_regressions(&cc);
        // every usable small corpus file once (fixed work), in parallel
        let files = crate::props::corpus::corpus_files(rep.tier.pick(8_000, 40_000));
        let next = std::sync::atomic::AtomicUsize::new(0);
        std::thread::scope(|sc| {
            for _ in 0..rep.threads.max(1) {
                sc.spawn(|| loop {
                    let i = next.fetch_add(1, std::sync::atomic::Ordering::Relaxed);
                    if i >= files.len() || rep.stopped() {
                        break;
                    }
                    let text = std::fs::read_to_string(format!("{REPO_TESTS}/{}", files[i])).unwrap_or_default();
                    rep.run_one(&cc, &FileCase { name: files[i].clone(), text });
                });
            }
        });
    }
}
