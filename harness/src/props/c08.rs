//! C08 — push/pop and clone give perfect snapshot isolation.
//!
//! Metamorphic, two stages.
//!
//! * `push-pop`: triples (P, Q, R). Engine A runs `P; (push); Q; (pop); R`, an independent fresh
//!   engine B runs `P; R`, command by command. Right after the `(pop)` and after every command of R
//!   both must agree on: the result kind (Ok / error kind / panic), the error text (modulo
//!   fresh-symbol numbering), the rendered outputs, the canonical (id-free) dump, a structural
//!   summary (function signatures, which pool names are sorts / functions / registered tables /
//!   user commands, extension state) and — right after the pop and at the end — the effect of one
//!   iteration of every ruleset (on throw-away clones), which exposes rules that leaked.
//!   Q contains declarations (functions with merges, relations, constructors, sorts, datatypes,
//!   container sorts, rulesets, combined rulesets, globals, user-defined commands, rules also in
//!   rulesets of P), writes (text and `EGraph::update`), runs, failing commands (static errors,
//!   :no-merge conflicts, failing primitives, failed lookups, panicking rules, pop underflow) and
//!   nested push/pop. R re-declares Q's names (same text or different kind/signature), uses Q's
//!   names without declaring them, runs rulesets Q added rules to, reads tables Q wrote and uses the
//!   name-indexed Rust API.
//! * `clone`: after P, `b = a.clone()`; Q is applied to `a` and R to `b` in a generated
//!   interleaving. `a` must stay equal to an independent fresh engine that runs `P;Q`, `b` to one
//!   that runs `P;R`, after EVERY step of either side (results, outputs, dumps, summary).
//!
//! Deviations from the design note, forced by the code under test / the shared generator:
//! * Q and R are stored as command TEXT (+ Rust-API operations), rendered from pgen's typed commands at
//!   generation time, because their signatures differ (Q's declarations do not exist for R).
//! * keyed API calls (`lookup`, `set`, `add`, ..) are only made with i64 keys on tables whose key columns are
//!   i64: the API documents that it does not check column sorts.
//! * every `saturate` is bounded (`repeat 3`): pgen's closedness bookkeeping misses arithmetic in rule bodies.
//! * the row ORDER printed by `print-function` is compared as a multiset: a clone / restored snapshot rebuilds
//!   by full scan, the original incrementally, so equal tables list their rows in a different order.
//! * combined rulesets only get the name `q3` and plain members, so that no sequence of (replayed) declarations can
//!   build a cyclic combined ruleset (the engine accepts those and overflows the stack when they are run).
//! * when both engines panic identically, or both become unreadable (rows corrupted by a half-rejected
//!   re-declaration: the C09 defect), the case stops there (classes `*-panic-both`, `observation-panicked-both`).
//!
//! Two genuine defects were found with this check and repaired in the tree (regression inputs under
//! regressions/C08): `SIG_REGISTRY` (clone + same name declared on both sides: name-indexed API says "missing")
//! and `SIG_STALE_PANIC` (a panic raised during `EGraph::update` was reported by a later run, also across
//! `(pop)` and on clones).
//!
//! Excluded from the comparison because `pop` documents that it keeps them: the overall run report
//! (`print-stats` is never generated) and fresh-symbol numbering (identifiers carrying the reserved
//! prefix `@` are compared modulo their digits; the dump never shows them).

use super::*;
use crate::choice::{fnv_str, Src};
use crate::eng::{canon_dump, CanonDump, Val};
use crate::fw::{catch, panic_key, Outcome, Report, Stage, Tier};
use crate::pgen::{Gen, GenCfg};
use egglog::ast::FunctionSubtype;
use egglog::{CommandOutput, EGraph, RawValues, Read, UserDefinedCommand, Write};
use serde::{Deserialize, Serialize};
use std::collections::BTreeSet;
use std::sync::Arc;

/// signature of the (repaired) shared-registry defect
pub const SIG_REGISTRY: &str = "shared-action-registry:name-indexed-read-fails-after-clone-redeclare";

/// signature of the (repaired) stale-panic defect: a panic raised during `EGraph::update` stayed in the bridge's
/// panic side channel (shared by clones and push snapshots) and was reported by a later run, even after `(pop)`
pub const SIG_STALE_PANIC: &str = "shared-panic-channel:stale-panic-of-update-reported-by-later-run";

const NAMES: [&str; 4] = ["q0", "q1", "q2", "q3"];
const GLOBALS: [&str; 2] = ["$g0", "$g1"];
const UCMDS: [&str; 2] = ["ucmd0", "ucmd1"];

// ---------------------------------------------------------------------------
// operations
// ---------------------------------------------------------------------------

#[derive(Clone, Debug, Serialize, Deserialize, PartialEq)]
pub enum Api {
    /// function_entries / constructor_enodes (whichever the subtype asks for; both when the name is unknown)
    Entries(String),
    Lookup(String, Vec<i64>),
    Contains(String, Vec<i64>),
    EclassOf(String, Vec<i64>),
    TableSize(String),
    Tables,
    GetSize(String),
    Subtype(String),
    Set(String, Vec<i64>, i64),
    Add(String, Vec<i64>),
    Remove(String, Vec<i64>),
    Clear(String),
    /// EGraph::query: (var, sort) list and the body
    Query(Vec<(String, String)>, String),
    ExtSet(i64),
    ExtGet,
    AddCommand(String),
    HasCommand(String),
}

impl Api {
    fn kind(&self) -> &'static str {
        match self {
            Api::Entries(_) => "entries",
            Api::Lookup(..) => "lookup",
            Api::Contains(..) => "contains",
            Api::EclassOf(..) => "eclass_of",
            Api::TableSize(_) => "table_size",
            Api::Tables => "tables",
            Api::GetSize(_) => "get_size",
            Api::Subtype(_) => "table_subtype",
            Api::Set(..) => "set",
            Api::Add(..) => "add",
            Api::Remove(..) => "remove",
            Api::Clear(_) => "clear_function",
            Api::Query(..) => "query",
            Api::ExtSet(_) => "ext_set",
            Api::ExtGet => "ext_get",
            Api::AddCommand(_) => "add_command",
            Api::HasCommand(_) => "has_command",
        }
    }
    fn is_write(&self) -> bool {
        matches!(self, Api::Set(..) | Api::Add(..) | Api::Remove(..) | Api::Clear(_) | Api::ExtSet(_) | Api::AddCommand(_))
    }
    fn text(&self) -> String {
        match self {
            Api::Entries(n) => format!("api function_entries|constructor_enodes({n})"),
            Api::Lookup(n, k) => format!("api update(|fs| fs.lookup({n}, {k:?}))"),
            Api::Contains(n, k) => format!("api update(|fs| fs.contains({n}, {k:?}))"),
            Api::EclassOf(n, k) => format!("api update(|fs| fs.eclass_of({n}, {k:?}))"),
            Api::TableSize(n) => format!("api read(|rs| rs.table_size({n}))"),
            Api::Tables => "api read(|rs| rs.table_sizes())".into(),
            Api::GetSize(n) => format!("api get_size({n})"),
            Api::Subtype(n) => format!("api read(|rs| rs.table_subtype({n}))"),
            Api::Set(n, k, v) => format!("api update(|fs| fs.set({n}, {k:?}, {v}))"),
            Api::Add(n, k) => format!("api update(|fs| fs.add({n}, {k:?}))"),
            Api::Remove(n, k) => format!("api update(|fs| fs.remove({n}, {k:?}))"),
            Api::Clear(n) => format!("api clear_function({n})"),
            Api::Query(v, f) => format!("api query({v:?}, {f})"),
            Api::ExtSet(v) => format!("api extension_state_or_default::<Ext>() = {v}"),
            Api::ExtGet => "api extension_state::<Ext>()".into(),
            Api::AddCommand(n) => format!("api add_command({n})"),
            Api::HasCommand(n) => format!("api has_command({n})"),
        }
    }
}

#[derive(Clone, Debug, Serialize, Deserialize, PartialEq)]
pub enum Op {
    /// one egglog command; `tag` = generator's intent ("decl:function:q0", "write", "run", "fail:no-merge", ...)
    Cmd { text: String, tag: String },
    Api(Api),
}

impl Op {
    fn cmd(text: impl Into<String>, tag: impl Into<String>) -> Op {
        Op::Cmd { text: text.into(), tag: tag.into() }
    }
    fn text(&self) -> String {
        match self {
            Op::Cmd { text, .. } => text.clone(),
            Op::Api(a) => a.text(),
        }
    }
    fn tag(&self) -> String {
        match self {
            Op::Cmd { tag, .. } => tag.clone(),
            Op::Api(a) => format!("api:{}", a.kind()),
        }
    }
    /// first two components of the tag
    fn tag2(&self) -> String {
        let t = self.tag();
        let mut it = t.split(':');
        match (it.next(), it.next()) {
            (Some(a), Some(b)) => format!("{a}:{b}"),
            (Some(a), None) => a.to_string(),
            _ => t.clone(),
        }
    }
    fn idents(&self) -> BTreeSet<String> {
        let t = self.text();
        t.split(|c: char| !(c.is_alphanumeric() || c == '_' || c == '$' || c == '@')).filter(|s| !s.is_empty()).map(|s| s.to_string()).collect()
    }
}

/// extension state used by ExtSet / ExtGet
#[derive(Clone, Default)]
struct Ext(i64);

struct NopCmd;
impl UserDefinedCommand for NopCmd {
    fn update(&self, _egraph: &mut EGraph, _args: &[egglog::ast::Expr]) -> Result<Vec<CommandOutput>, egglog::Error> {
        Ok(vec![])
    }
}

/// Fresh-symbol numbering survives `pop` by design: identifiers carrying the reserved prefix `@` are
/// compared modulo their digits.
fn norm(s: &str) -> String {
    fn flush(tok: &mut String, out: &mut String) {
        if tok.contains('@') {
            out.extend(tok.chars().filter(|c| !c.is_ascii_digit()));
            out.push('#');
        } else {
            out.push_str(tok);
        }
        tok.clear();
    }
    let mut out = String::new();
    let mut tok = String::new();
    for ch in s.chars() {
        if ch.is_alphanumeric() || "@_-$.!?<>=+*/".contains(ch) {
            tok.push(ch);
        } else {
            flush(&mut tok, &mut out);
            out.push(ch);
        }
    }
    flush(&mut tok, &mut out);
    out
}

#[derive(Clone, Debug, PartialEq, Eq)]
struct Res {
    /// "ok" | "err:<Kind>" | "panic"
    kind: String,
    out: Vec<String>,
    msg: String,
}

impl Res {
    fn is_ok(&self) -> bool {
        self.kind == "ok"
    }
    fn short(&self) -> String {
        if self.is_ok() { format!("ok{:?}", self.out) } else { format!("{}({})", self.kind, self.msg.lines().last().unwrap_or("")) }
    }
}

fn key_vals(eg: &EGraph, ks: &[i64]) -> RawValues {
    RawValues(ks.iter().map(|k| eg.base_to_value::<i64>(*k)).collect())
}

/// The API does not check per-column sorts (documented): only call keyed methods with i64 keys on
/// tables whose key columns are i64. A table unknown to the type level is passed through (must be "missing").
fn key_guard(eg: &EGraph, name: &str, need_out_i64: bool) -> Option<String> {
    let f = eg.get_function(name)?;
    let ft = f.func_type();
    if ft.input.iter().any(|s| s.name() != "i64") {
        return Some("skipped:key-sorts-not-i64".into());
    }
    if need_out_i64 && ft.output.name() != "i64" {
        return Some("skipped:output-not-i64".into());
    }
    None
}

fn api_result<T>(r: Result<Result<T, egglog::Error>, String>, show: impl FnOnce(T) -> String) -> Res {
    match r {
        Ok(Ok(v)) => Res { kind: "ok".into(), out: vec![show(v)], msg: String::new() },
        Ok(Err(e)) => Res { kind: "err:Api".into(), out: vec![], msg: norm(&e.to_string()) },
        Err(p) => Res { kind: "panic".into(), out: vec![], msg: panic_key(&p) },
    }
}

fn exec_api(eg: &mut EGraph, a: &Api) -> Res {
    let okv = |s: String| Res { kind: "ok".into(), out: vec![s], msg: String::new() };
    match a {
        Api::Entries(n) => {
            let is_ctor = eg.get_function(n).map(|f| f.func_type().subtype == FunctionSubtype::Constructor);
            let mut outs = vec![];
            if is_ctor != Some(true) {
                let mut cnt = 0usize;
                let r = catch(|| eg.function_entries(n, |_| cnt += 1));
                outs.push(match r {
                    Ok(Ok(())) => format!("function_entries ok rows={cnt}"),
                    Ok(Err(e)) => format!("function_entries err {}", norm(&e.to_string())),
                    Err(p) => format!("function_entries PANIC {}", panic_key(&p)),
                });
            }
            if is_ctor != Some(false) {
                let mut cnt = 0usize;
                let r = catch(|| eg.constructor_enodes(n, |_| cnt += 1));
                outs.push(match r {
                    Ok(Ok(())) => format!("constructor_enodes ok rows={cnt}"),
                    Ok(Err(e)) => format!("constructor_enodes err {}", norm(&e.to_string())),
                    Err(p) => format!("constructor_enodes PANIC {}", panic_key(&p)),
                });
            }
            Res { kind: "ok".into(), out: outs, msg: String::new() }
        }
        Api::Lookup(n, k) => {
            if let Some(s) = key_guard(eg, n, false) {
                return okv(s);
            }
            let out_i64 = eg.get_function(n).map(|f| f.func_type().output.name() == "i64").unwrap_or(false);
            let keys = key_vals(eg, k);
            let r = catch(|| eg.update(|fs| fs.lookup(n, keys)));
            let r = r.map(|x| x.map(|v| v.map(|v| if out_i64 { eg.value_to_base::<i64>(v).to_string() } else { "some".into() })));
            api_result(r, |v| format!("{v:?}"))
        }
        Api::Contains(n, k) => {
            if let Some(s) = key_guard(eg, n, false) {
                return okv(s);
            }
            let keys = key_vals(eg, k);
            api_result(catch(|| eg.update(|fs| fs.contains(n, keys))), |v| format!("{v}"))
        }
        Api::EclassOf(n, k) => {
            if let Some(s) = key_guard(eg, n, false) {
                return okv(s);
            }
            let keys = key_vals(eg, k);
            api_result(catch(|| eg.update(|fs| fs.eclass_of(n, keys))), |v| format!("{}", v.is_some()))
        }
        Api::TableSize(n) => match catch(|| eg.read(|rs| rs.table_size(n))) {
            Ok(v) => okv(format!("{v:?}")),
            Err(p) => Res { kind: "panic".into(), out: vec![], msg: panic_key(&p) },
        },
        Api::Tables => match catch(|| eg.read(|rs| rs.table_sizes().into_iter().map(|(n, s)| (n.to_string(), s)).collect::<Vec<_>>())) {
            Ok(mut v) => {
                v.retain(|(n, _)| !n.contains('@'));
                v.sort();
                okv(format!("{v:?}"))
            }
            Err(p) => Res { kind: "panic".into(), out: vec![], msg: panic_key(&p) },
        },
        Api::GetSize(n) => match catch(|| eg.get_size(n)) {
            Ok(v) => okv(format!("{v}")),
            // documented: "panics if the function does not exist" — an expected outcome, not an engine failure
            Err(_) => Res { kind: "err:Api".into(), out: vec![], msg: "get_size panicked (documented for unknown functions)".into() },
        },
        Api::Subtype(n) => match catch(|| eg.read(|rs| rs.table_subtype(n).map(|s| s.label()))) {
            Ok(v) => okv(format!("{v:?}")),
            Err(p) => Res { kind: "panic".into(), out: vec![], msg: panic_key(&p) },
        },
        Api::Set(n, k, v) => {
            if let Some(s) = key_guard(eg, n, true) {
                return okv(s);
            }
            let keys = key_vals(eg, k);
            let v = *v;
            api_result(catch(|| eg.update(|mut fs| fs.set(n, keys, v))), |_| "set".into())
        }
        Api::Add(n, k) => {
            if let Some(s) = key_guard(eg, n, false) {
                return okv(s);
            }
            let keys = key_vals(eg, k);
            api_result(catch(|| eg.update(|mut fs| fs.add(n, keys).map(|_| ()))), |_| "added".into())
        }
        Api::Remove(n, k) => {
            if let Some(s) = key_guard(eg, n, false) {
                return okv(s);
            }
            let keys = key_vals(eg, k);
            api_result(catch(|| eg.update(|mut fs| fs.remove(n, keys))), |_| "removed".into())
        }
        Api::Clear(n) => api_result(catch(|| eg.clear_function(n)), |_| "cleared".into()),
        Api::Query(vars, facts) => match eng::query(eg, vars, facts) {
            Ok(rows) => {
                let mut r: Vec<String> = rows
                    .iter()
                    .map(|row| {
                        row.iter()
                            .map(|v| match v {
                                Val::Base(s) => s.clone(),
                                Val::Class(s, _, _) => format!("<{s}>"),
                                Val::Cont(s, _, _, es) => format!("<{s} len={}>", es.len()),
                                Val::RelOut => "()".into(),
                            })
                            .collect::<Vec<_>>()
                            .join(",")
                    })
                    .collect();
                r.sort();
                okv(format!("{} matches {:?}", r.len(), r))
            }
            Err(e) => match e.strip_prefix("PANIC ") {
                Some(p) => Res { kind: "panic".into(), out: vec![], msg: panic_key(p) },
                None => Res { kind: "err:Api".into(), out: vec![], msg: norm(&e) },
            },
        },
        Api::ExtSet(v) => {
            eg.extension_state_or_default::<Ext>().0 = *v;
            okv("set".into())
        }
        Api::ExtGet => okv(format!("{:?}", eg.extension_state::<Ext>().map(|e| e.0))),
        Api::AddCommand(n) => api_result(catch(|| eg.add_command(n.clone(), Arc::new(NopCmd))), |_| "added".into()),
        Api::HasCommand(n) => okv(format!("{}", eg.has_command(n))),
    }
}

fn exec(eg: &mut EGraph, op: &Op) -> Res {
    match op {
        Op::Cmd { text, .. } => match eng::run(eg, text) {
            CmdRes::Ok(o) => {
                let mut out: Vec<String> = o.iter().map(|s| norm(s)).collect();
                if text.starts_with("(print-function") {
                    // the ORDER of the rows of a table is not part of its meaning and is not preserved by clone
                    // (a clone rebuilds by full scan, the original incrementally): compare the rows as a multiset
                    for s in out.iter_mut() {
                        let mut lines: Vec<&str> = s.lines().collect();
                        lines.sort();
                        *s = lines.join("\n");
                    }
                }
                Res { kind: "ok".into(), out, msg: String::new() }
            }
            CmdRes::Err(k, m) => Res { kind: format!("err:{k:?}"), out: vec![], msg: norm(&m) },
            CmdRes::Panic(p) => {
                if std::env::var("VERIF_C08_DEBUG").is_ok() {
                    eprintln!("PANIC in `{text}`: {p}");
                }
                Res { kind: "panic".into(), out: vec![], msg: panic_key(&p) }
            }
        },
        Op::Api(a) => {
            let r = exec_api(eg, a);
            if r.kind == "panic" && std::env::var("VERIF_C08_DEBUG").is_ok() {
                eprintln!("PANIC in `{}`: {}", a.text(), r.msg);
            }
            r
        }
    }
}

// ---------------------------------------------------------------------------
// observations
// ---------------------------------------------------------------------------

#[derive(Clone, PartialEq, Eq)]
struct Obs {
    dump: CanonDump,
    summary: Vec<String>,
}

/// Structural summary through the name-indexed and type-level read API.
fn summary(eg: &EGraph) -> Vec<String> {
    let mut v = vec![];
    let mut funcs: Vec<(String, String)> = eg
        .functions_iter()
        .filter(|(n, f)| !f.is_hidden() && !n.contains('@'))
        .map(|(n, f)| {
            let ft = f.func_type();
            let ins: Vec<String> = ft.input.iter().map(|s| norm(s.name())).collect();
            (n.clone(), format!("{} ({}) -> {}", ft.subtype.label(), ins.join(" "), norm(ft.output.name())))
        })
        .collect();
    funcs.sort();
    for (n, s) in funcs {
        let ts = catch(|| eg.read(|rs| rs.table_size(&n))).map_err(|p| panic_key(&p));
        let gs = catch(|| eg.get_size(&n)).map_err(|_| "panic");
        v.push(format!("fn {n}: {s} table_size={ts:?} get_size={gs:?}"));
    }
    for n in NAMES.iter().chain(GLOBALS.iter()) {
        let ts = catch(|| eg.read(|rs| rs.table_size(n))).map_err(|p| panic_key(&p));
        v.push(format!("name {n}: sort={} function={} registered={ts:?}", eg.get_sort_by_name(n).is_some(), eg.get_function(n).is_some()));
    }
    for u in UCMDS {
        v.push(format!("command {u}: {}", eg.has_command(u)));
    }
    v.push(format!("ext: {:?}", eg.extension_state::<Ext>().map(|e| e.0)));
    v
}

/// canonical dump; a panic while reading becomes a marker table
fn safe_dump(eg: &EGraph) -> CanonDump {
    match catch(|| canon_dump(eg)) {
        Ok(d) => d,
        Err(p) => {
            let mut d = CanonDump::default();
            d.tables.insert("<<dump panicked>>".into(), vec![panic_key(&p)]);
            d
        }
    }
}

/// A panic while reading (e.g. a row corrupted by an earlier half-rejected declaration) is an observation too.
fn observe(eg: &EGraph) -> Obs {
    match catch(|| Obs { dump: canon_dump(eg), summary: summary(eg) }) {
        Ok(o) => o,
        Err(p) => Obs { dump: CanonDump::default(), summary: vec![format!("<<observation panicked: {}>>", panic_key(&p))] },
    }
}

fn obs_panicked(o: &Obs) -> bool {
    o.summary.len() == 1 && o.summary[0].starts_with("<<observation panicked")
}

fn obs_diff(l: &Obs, r: &Obs) -> String {
    let mut s = l.dump.diff(&r.dump);
    let ls: BTreeSet<&String> = l.summary.iter().collect();
    let rs: BTreeSet<&String> = r.summary.iter().collect();
    for x in ls.difference(&rs) {
        s.push_str(&format!("  summary only left : {x}\n"));
    }
    for x in rs.difference(&ls) {
        s.push_str(&format!("  summary only right: {x}\n"));
    }
    s
}

/// A declared function that the name-indexed API reports as missing (the observation of the
/// shared-registry defect; `raw_dump` records it as `read_error`).
fn registry_symptom(eg: &EGraph) -> Option<String> {
    let names: Vec<String> = eg.functions_iter().map(|(n, _)| n.clone()).collect();
    for n in names {
        match catch(|| eg.read(|rs| rs.table_size(&n))) {
            Ok(None) => return Some(format!("function `{n}` is declared (get_function is Some, (check ..) can use it) but read(|rs| rs.table_size(\"{n}\")) is None / function_entries says it is missing")),
            _ => {}
        }
    }
    None
}

/// One iteration of every ruleset on a throw-away clone: result + dump hash (exposes leaked rules).
fn rule_probe(eg: &EGraph, rulesets: &[String]) -> Vec<String> {
    let mut out = vec![];
    let mut names: Vec<String> = vec![String::new()];
    names.extend(rulesets.iter().cloned());
    names.extend(NAMES.iter().map(|s| s.to_string()));
    for rs in names {
        let mut c = eg.clone();
        let text = if rs.is_empty() { "(run 1)".to_string() } else { format!("(run {rs} 1)") };
        let r = exec(&mut c, &Op::cmd(text, "probe"));
        let h = if r.is_ok() || r.kind == "err:Runtime" { format!("{:016x}", safe_dump(&c).hash()) } else { String::new() };
        out.push(format!("(run {rs} 1) -> {} {}", r.short(), h));
    }
    out
}

// ---------------------------------------------------------------------------
// generator of Q / R on top of pgen's Gen
// ---------------------------------------------------------------------------

#[derive(Clone, Debug)]
struct Decl {
    kind: &'static str,
    name: String,
    /// the op that declares it (None: through the Rust API)
    op: Op,
    /// for tables: subtype + arg type names + output type name + all-i64 keys
    args: Vec<String>,
    fkind: Option<FKind>,
    out: String,
}

#[derive(Clone)]
struct Scope {
    sig: Sig,
    pool: Vec<(Ty, Term)>,
    closed: Vec<bool>,
    has_rules: Vec<bool>,
    globals: Vec<(String, Ty)>,
    ucmds: Vec<String>,
    used: BTreeSet<String>,
}

#[derive(Default, Clone)]
struct Ghost {
    decls: Vec<Decl>,
    /// rulesets ("" = default) the other sequence added rules to
    rule_rs: Vec<String>,
    /// tables of P the other sequence wrote
    written: Vec<String>,
    ops: Vec<Op>,
}

#[derive(Clone, Copy, PartialEq)]
enum Role {
    /// body between push and pop
    Q,
    /// continuation / the other side of a clone
    R,
}

struct B<'a, 'b> {
    g: Gen<'a, 'b>,
    globals: Vec<(String, Ty)>,
    ucmds: Vec<String>,
    used: BTreeSet<String>,
    decls: Vec<Decl>,
    rule_rs: BTreeSet<String>,
    /// open pushes of P still on the stack
    p_depth: usize,
    p_scope: Option<Scope>,
    nest: usize,
    named_rules: usize,
}

/// pgen's "closed ruleset" bookkeeping does not see arithmetic in rule bodies (`(= z (+ x 4))` feeding a head), so a
/// generated `saturate` may not terminate. Snapshot isolation does not depend on saturation: bound every saturate.
fn desaturate(c: &Cmd) -> Cmd {
    fn go(s: &Sched) -> Sched {
        match s {
            Sched::Saturate(ss) => Sched::Repeat(3, ss.iter().map(go).collect()),
            Sched::Repeat(n, ss) => Sched::Repeat(*n, ss.iter().map(go).collect()),
            Sched::Seq(ss) => Sched::Seq(ss.iter().map(go).collect()),
            other => other.clone(),
        }
    }
    match c {
        Cmd::Sched(s) => Cmd::Sched(go(s)),
        other => other.clone(),
    }
}

fn ty_by_name(sig: &Sig, n: &str) -> Option<Ty> {
    match n {
        "i64" => Some(Ty::I64),
        "bool" => Some(Ty::Bool),
        _ => sig.sorts.iter().position(|s| s == n).map(Ty::Eq).or_else(|| sig.conts.iter().position(|c| c.name == n).map(Ty::Cont)),
    }
}

impl<'a, 'b> B<'a, 'b> {
    fn save(&self) -> Scope {
        Scope {
            sig: self.g.sig.clone(),
            pool: self.g.pool.clone(),
            closed: self.g.closed.clone(),
            has_rules: self.g.has_rules.clone(),
            globals: self.globals.clone(),
            ucmds: self.ucmds.clone(),
            used: self.used.clone(),
        }
    }
    fn restore(&mut self, s: Scope) {
        self.g.sig = s.sig;
        self.g.pool = s.pool;
        self.g.closed = s.closed;
        self.g.has_rules = s.has_rules;
        self.globals = s.globals;
        self.ucmds = s.ucmds;
        self.used = s.used;
    }
    fn below(&mut self, n: usize) -> usize {
        self.g.src.below(n)
    }
    fn chance(&mut self, a: usize, b: usize) -> bool {
        self.g.src.chance(a, b)
    }
    fn any_func_name(&mut self) -> String {
        let i = self.below(self.g.sig.funcs.len());
        self.g.sig.funcs[i].name.clone()
    }

    fn pick_name(&mut self, pool: &[&str], force: Option<&str>) -> String {
        if let Some(n) = force {
            return n.to_string();
        }
        let unused: Vec<&str> = pool.iter().copied().filter(|n| !self.used.contains(*n)).collect();
        if !unused.is_empty() && !self.chance(1, 8) {
            unused[self.below(unused.len())].to_string()
        } else {
            pool[self.below(pool.len())].to_string()
        }
    }

    fn arg_ty(&mut self) -> Ty {
        match self.below(10) {
            0..=5 => Ty::I64,
            6 if !self.g.sig.conts.is_empty() => Ty::Cont(self.below(self.g.sig.conts.len())),
            _ => Ty::Eq(self.below(self.g.sig.sorts.len())),
        }
    }

    fn add_func(&mut self, d: FuncDecl, kind: &'static str) -> Op {
        let text = self.g.sig.func_decl_text(&d);
        let op = Op::cmd(text, format!("decl:{kind}:{}", d.name));
        self.decls.push(Decl {
            kind,
            name: d.name.clone(),
            op: op.clone(),
            args: d.args.iter().map(|t| self.g.sig.ty_name(t)).collect(),
            fkind: Some(d.kind.clone()),
            out: self.g.sig.ty_name(&d.out),
        });
        if self.used.insert(d.name.clone()) {
            let idx = self.g.sig.funcs.len();
            if d.is_ctor() && d.args.is_empty() {
                self.g.pool.push((d.out.clone(), Term::App(idx, vec![])));
            }
            self.g.sig.funcs.push(d);
        }
        op
    }

    fn note_decl(&mut self, kind: &'static str, name: &str, op: &Op) {
        self.decls.push(Decl { kind, name: name.to_string(), op: op.clone(), args: vec![], fkind: None, out: String::new() });
    }

    /// kind: None = any
    fn gen_decl(&mut self, force_name: Option<&str>, force_kind: Option<usize>) -> Vec<Op> {
        let kind = match force_kind {
            Some(k) => k,
            None => {
                let w = if force_name.is_some() { [5, 4, 4, 3, 1, 1, 3, 1, 0, 0] } else { [5, 4, 4, 3, 1, 1, 3, 1, 3, 1] };
                self.g.src.pick_weighted(&w)
            }
        };
        match kind {
            0 => {
                let name = self.pick_name(&NAMES, force_name);
                let n = 1 + self.below(2);
                let args: Vec<Ty> = (0..n).map(|_| self.arg_ty()).collect();
                let (out, merge) = match self.below(6) {
                    0 => (Ty::I64, Merge::Min),
                    1 => (Ty::I64, Merge::Max),
                    2 => (Ty::Bool, Merge::Or),
                    _ => (Ty::I64, Merge::NoMerge),
                };
                vec![self.add_func(FuncDecl { name, kind: FKind::Func { merge }, args, out }, "function")]
            }
            1 => {
                let name = self.pick_name(&NAMES, force_name);
                let n = 1 + self.below(2);
                let args: Vec<Ty> = (0..n).map(|_| self.arg_ty()).collect();
                vec![self.add_func(FuncDecl { name, kind: FKind::Rel, args, out: Ty::I64 }, "relation")]
            }
            2 => {
                let name = self.pick_name(&NAMES, force_name);
                let n = self.below(3);
                let args: Vec<Ty> = (0..n).map(|_| self.arg_ty()).collect();
                let out = Ty::Eq(self.below(self.g.sig.sorts.len()));
                vec![self.add_func(FuncDecl { name, kind: FKind::Ctor { cost: None, unextractable: false }, args, out }, "constructor")]
            }
            3 => {
                let name = self.pick_name(&NAMES, force_name);
                let op = Op::cmd(format!("(sort {name})"), format!("decl:sort:{name}"));
                self.note_decl("sort", &name, &op);
                let mut ops = vec![op];
                if self.used.insert(name.clone()) {
                    // pgen assumes every eq-sort has a leaf: the sort enters the typed scope only together with one
                    let unused: Vec<&str> = NAMES.iter().copied().filter(|n| !self.used.contains(*n)).collect();
                    if !unused.is_empty() && self.chance(7, 8) {
                        let leaf = unused[self.below(unused.len())].to_string();
                        self.g.sig.sorts.push(name.clone());
                        let si = self.g.sig.sorts.len() - 1;
                        ops.push(self.add_func(FuncDecl { name: leaf, kind: FKind::Ctor { cost: None, unextractable: false }, args: vec![], out: Ty::Eq(si) }, "constructor"));
                    }
                }
                ops
            }
            4 => {
                let name = self.pick_name(&NAMES, force_name);
                let (a, b, c) = (format!("{name}a"), format!("{name}b"), format!("{name}c"));
                let op = Op::cmd(format!("(datatype {name} ({a}) ({b} i64) ({c} {name} {name}))"), format!("decl:datatype:{name}"));
                self.note_decl("datatype", &name, &op);
                if !self.used.contains(&name) && !self.used.contains(&a) {
                    for n in [&name, &a, &b, &c] {
                        self.used.insert(n.clone());
                    }
                    self.g.sig.sorts.push(name.clone());
                    let si = self.g.sig.sorts.len() - 1;
                    let idx = self.g.sig.funcs.len();
                    let ck = FKind::Ctor { cost: None, unextractable: false };
                    self.g.sig.funcs.push(FuncDecl { name: a, kind: ck.clone(), args: vec![], out: Ty::Eq(si) });
                    self.g.sig.funcs.push(FuncDecl { name: b, kind: ck.clone(), args: vec![Ty::I64], out: Ty::Eq(si) });
                    self.g.sig.funcs.push(FuncDecl { name: c, kind: ck, args: vec![Ty::Eq(si), Ty::Eq(si)], out: Ty::Eq(si) });
                    self.g.pool.push((Ty::Eq(si), Term::App(idx, vec![])));
                }
                vec![op]
            }
            5 => {
                let name = self.pick_name(&NAMES, force_name);
                let ck = *self.g.src.pick(&[ContKind::Vec, ContKind::Set, ContKind::MultiSet]);
                let elem = if self.chance(1, 2) { Ty::I64 } else { Ty::Eq(self.below(self.g.sig.sorts.len())) };
                let k = match ck {
                    ContKind::Vec => "Vec",
                    ContKind::Set => "Set",
                    ContKind::MultiSet => "MultiSet",
                };
                let op = Op::cmd(format!("(sort {name} ({k} {}))", self.g.sig.ty_name(&elem)), format!("decl:container-sort:{name}"));
                self.note_decl("container-sort", &name, &op);
                if self.used.insert(name.clone()) {
                    self.g.sig.conts.push(ContDecl { name, kind: ck, elem });
                }
                vec![op]
            }
            6 => {
                // `q3` is reserved for combined rulesets and never a plain one, members are always plain: the engine
                // does not validate members (unknown ones are accepted, `(unstable-combined-ruleset x x)` overflows
                // the stack when run — not this property's business), so cycles must be impossible by construction,
                // also when R replays Q's declarations in a scope where the names are free.
                let mut name = self.pick_name(&NAMES, force_name);
                if name == "q3" {
                    if force_name.is_some() {
                        return self.gen_decl(force_name, Some(0));
                    }
                    name = NAMES[self.below(3)].to_string();
                }
                let op = Op::cmd(format!("(ruleset {name})"), format!("decl:ruleset:{name}"));
                self.note_decl("ruleset", &name, &op);
                if self.used.insert(name.clone()) {
                    // NB: pgen indexes combined rulesets after the plain ones; commands are rendered to text
                    // immediately, so appending a plain ruleset is safe.
                    self.g.sig.rulesets.push(name);
                    self.g.closed.push(true);
                    self.g.has_rules.push(false);
                }
                vec![op]
            }
            7 if self.g.sig.rulesets.is_empty() || force_name.map(|f| f != "q3").unwrap_or(false) => self.gen_decl(force_name, Some(6)),
            7 => {
                let name = "q3".to_string();
                let n = self.g.sig.rulesets.len();
                let members: Vec<usize> = if n == 0 { vec![] } else { (0..1 + self.below(2)).map(|_| self.below(n)).collect() };
                let ms: Vec<String> = if members.is_empty() { vec!["nosuchrs".into()] } else { members.iter().map(|m| self.g.sig.rulesets[*m].clone()).collect() };
                let op = Op::cmd(format!("(unstable-combined-ruleset {name} {})", ms.join(" ")), format!("decl:combined-ruleset:{name}"));
                self.note_decl("combined-ruleset", &name, &op);
                if !members.is_empty() && self.used.insert(name.clone()) {
                    self.g.sig.combined.push((name, members));
                }
                vec![op]
            }
            8 => {
                let name = self.pick_name(&GLOBALS, force_name);
                let (ty, val) = if self.chance(1, 3) {
                    (Ty::I64, self.g.src.range(0, 9).to_string())
                } else {
                    let ty = Ty::Eq(self.below(self.g.sig.sorts.len()));
                    let t = self.g.ground(&ty);
                    (ty, self.g.sig.term(&t))
                };
                let op = Op::cmd(format!("(let {name} {val})"), format!("decl:global:{name}"));
                self.note_decl("global", &name, &op);
                if self.used.insert(name.clone()) {
                    self.globals.push((name, ty));
                }
                vec![op]
            }
            _ => {
                let name = self.pick_name(&UCMDS, force_name);
                let op = Op::Api(Api::AddCommand(name.clone()));
                self.note_decl("user-command", &name, &op);
                if self.used.insert(name.clone()) {
                    self.ucmds.push(name);
                }
                vec![op]
            }
        }
    }

    fn cmd_op(&mut self, c: &Cmd) -> Op {
        let c = &desaturate(c);
        let tag = match c {
            Cmd::Act(_) => "write",
            Cmd::Rule { opts, .. } => {
                self.rule_rs.insert(opts.ruleset.map(|r| self.g.sig.rs_name(r)).unwrap_or_default());
                "rule"
            }
            Cmd::Rewrite { ruleset, .. } => {
                self.rule_rs.insert(ruleset.map(|r| self.g.sig.rs_name(r)).unwrap_or_default());
                "rule"
            }
            Cmd::RunN { .. } | Cmd::Sched(_) => "run",
            Cmd::Check(_) => "check",
            _ => "read",
        };
        Op::cmd(self.g.sig.cmd(c), tag)
    }

    fn i64_tables(&self, pred: impl Fn(&FuncDecl) -> bool) -> Vec<usize> {
        self.g.sig.funcs.iter().enumerate().filter(|(_, f)| f.args.iter().all(|a| *a == Ty::I64) && pred(f)).map(|(i, _)| i).collect()
    }

    fn keys(&mut self, n: usize) -> Vec<i64> {
        (0..n).map(|_| self.g.src.range(0, 3)).collect()
    }

    fn gen_fault(&mut self) -> Vec<Op> {
        match self.below(6) {
            0 => {
                let cands = [
                    "(check (= 1 true))".to_string(),
                    "(nosuchfn 1)".to_string(),
                    "(union 1 2)".to_string(),
                    format!("({} 1 2 3 4)", self.any_func_name()),
                    "(run nosuchruleset 1)".to_string(),
                    "(function q0 (NoSuchSort) i64 :no-merge)".to_string(),
                    "(extract (nosuch))".to_string(),
                ];
                vec![Op::cmd(cands[self.below(cands.len())].clone(), "fail:static")]
            }
            1 | 2 => {
                // :no-merge conflict (declare the function first if there is none)
                let mut ops = vec![];
                let mut nm = self.i64_tables(|f| matches!(f.kind, FKind::Func { merge: Merge::NoMerge }) && f.out == Ty::I64);
                if nm.is_empty() {
                    let name = self.pick_name(&NAMES, None);
                    if !self.used.contains(&name) {
                        ops.push(self.add_func(FuncDecl { name, kind: FKind::Func { merge: Merge::NoMerge }, args: vec![Ty::I64], out: Ty::I64 }, "function"));
                        nm = vec![self.g.sig.funcs.len() - 1];
                    }
                }
                if let Some(&fi) = nm.first() {
                    let f = self.g.sig.funcs[fi].clone();
                    let k = self.keys(f.args.len());
                    let ks: Vec<String> = k.iter().map(|x| x.to_string()).collect();
                    ops.push(Op::cmd(format!("(set ({} {}) 1)", f.name, ks.join(" ")), "write"));
                    ops.push(Op::cmd(format!("(set ({} {}) 2)", f.name, ks.join(" ")), "fail:no-merge"));
                }
                ops
            }
            3 => {
                let fs = self.i64_tables(|f| f.is_func() && f.out == Ty::I64);
                if let Some(&fi) = fs.first() {
                    let f = self.g.sig.funcs[fi].clone();
                    let ks: Vec<String> = self.keys(f.args.len()).iter().map(|x| x.to_string()).collect();
                    let bad = if self.chance(1, 2) { "(/ 1 0)".to_string() } else { format!("({} 77{})", f.name, " 77".repeat(f.args.len() - 1)) };
                    vec![Op::cmd(format!("(set ({} {}) {bad})", f.name, ks.join(" ")), "fail:primitive-or-lookup")]
                } else {
                    vec![Op::cmd("(extract (/ 1 0))", "fail:primitive-or-lookup")]
                }
            }
            _ => {
                // pgen's fault: a rule that panics / fails at run time, then a run of its ruleset
                let c = self.g.gen_fault();
                let mut ops = vec![];
                let rs = match &c {
                    Cmd::Rule { opts, .. } => Some(opts.ruleset),
                    _ => None,
                };
                let mut op = self.cmd_op(&c);
                if let (Op::Cmd { tag, .. }, Some(_)) = (&mut op, &rs) {
                    *tag = "rule-faulty".into();
                }
                ops.push(op);
                if let Some(rs) = rs {
                    let name = rs.map(|r| self.g.sig.rs_name(r)).unwrap_or_default();
                    ops.push(Op::cmd(format!("(run {name} 1)").replace("  ", " "), "fail:rule-fault"));
                }
                ops
            }
        }
    }

    fn api_read(&mut self, ghost: &Ghost) -> Op {
        let name = match self.below(4) {
            0 | 1 => NAMES[self.below(NAMES.len())].to_string(),
            2 if !ghost.decls.is_empty() => ghost.decls[self.below(ghost.decls.len())].name.clone(),
            _ => self.any_func_name(),
        };
        let arity = self.g.sig.funcs.iter().find(|f| f.name == name).map(|f| f.args.len()).unwrap_or(1 + self.below(2));
        match self.below(11) {
            0 | 1 => Op::Api(Api::Entries(name)),
            2 => Op::Api(Api::TableSize(name)),
            3 => Op::Api(Api::GetSize(name)),
            4 => Op::Api(Api::Subtype(name)),
            5 | 6 => {
                let k = self.keys(arity);
                Op::Api(Api::Lookup(name, k))
            }
            7 => {
                let k = self.keys(arity);
                Op::Api(Api::Contains(name, k))
            }
            8 => {
                let k = self.keys(arity);
                Op::Api(Api::EclassOf(name, k))
            }
            9 => Op::Api(Api::Tables),
            _ => {
                let fi = self.g.sig.funcs.iter().position(|f| f.name == name).unwrap_or_else(|| self.below(self.g.sig.funcs.len()));
                let f = self.g.sig.funcs[fi].clone();
                let mut vars: Vec<(String, String)> = f.args.iter().enumerate().map(|(i, t)| (format!("v{i}"), self.g.sig.ty_name(t))).collect();
                let app = if vars.is_empty() { format!("({})", f.name) } else { format!("({} {})", f.name, vars.iter().map(|v| v.0.clone()).collect::<Vec<_>>().join(" ")) };
                let facts = if f.is_rel() {
                    app
                } else {
                    vars.push(("vr".into(), self.g.sig.ty_name(&f.out)));
                    format!("(= vr {app})")
                };
                Op::Api(Api::Query(vars, facts))
            }
        }
    }

    fn api_write(&mut self) -> Op {
        let ts = self.i64_tables(|_| true);
        if ts.is_empty() || self.chance(1, 6) {
            return match self.below(3) {
                0 => Op::Api(Api::ExtSet(self.g.src.range(1, 9))),
                _ => Op::Api(Api::Clear(self.any_func_name())),
            };
        }
        let ti = self.below(ts.len());
        let f = self.g.sig.funcs[ts[ti]].clone();
        let k = self.keys(f.args.len());
        if self.chance(1, 5) {
            return Op::Api(Api::Remove(f.name, k));
        }
        if f.is_func() {
            if f.out == Ty::I64 { Op::Api(Api::Set(f.name, k, self.g.src.range(0, 9))) } else { Op::Api(Api::Contains(f.name, k)) }
        } else {
            Op::Api(Api::Add(f.name, k))
        }
    }

    fn global_use(&mut self, name: &str, ty: Option<&Ty>) -> Op {
        let t = match (ty, self.below(3)) {
            (Some(ty @ Ty::Eq(_)), 0) => {
                let g = self.g.ground(ty);
                format!("(union {name} {})", self.g.sig.term(&g))
            }
            (_, 1) => format!("(extract {name})"),
            _ => format!("(check (= {name} {name}))"),
        };
        Op::cmd(t, "global-use")
    }

    /// use of something the OTHER sequence declared, without declaring it here
    fn ghost_use(&mut self, d: &Decl) -> Op {
        let n = &d.name;
        let all_i64 = d.args.iter().all(|a| a == "i64");
        let ks = self.keys(d.args.len());
        let kt: Vec<String> = ks.iter().map(|k| k.to_string()).collect();
        let app = if kt.is_empty() { format!("({n})") } else { format!("({n} {})", kt.join(" ")) };
        match d.kind {
            "function" | "relation" | "constructor" => {
                let is_func = matches!(d.fkind, Some(FKind::Func { .. }));
                match self.below(if all_i64 { 10 } else { 4 }) {
                    0 => Op::Api(Api::Entries(n.clone())),
                    1 => Op::Api(Api::TableSize(n.clone())),
                    2 => Op::cmd(format!("(print-size {n})"), "ghost-use"),
                    3 => Op::cmd(format!("(print-function {n} 10)"), "ghost-use"),
                    4 => Op::Api(Api::Lookup(n.clone(), ks)),
                    5 => Op::Api(Api::Contains(n.clone(), ks)),
                    6 => {
                        if is_func { Op::Api(Api::Set(n.clone(), ks, 5)) } else { Op::Api(Api::Add(n.clone(), ks)) }
                    }
                    7 => {
                        if is_func && d.out == "i64" { Op::cmd(format!("(set {app} 3)"), "ghost-use") } else { Op::cmd(app, "ghost-use") }
                    }
                    8 => Op::Api(Api::Remove(n.clone(), ks)),
                    _ => {
                        if is_func { Op::cmd(format!("(check (= {app} 1))"), "ghost-use") } else { Op::cmd(format!("(check {app})"), "ghost-use") }
                    }
                }
            }
            "sort" | "datatype" | "container-sort" => {
                let fresh = self.pick_name(&NAMES, None);
                match self.below(3) {
                    0 => Op::cmd(format!("(constructor {fresh} () {n})"), "ghost-use"),
                    1 => Op::cmd(format!("(relation {fresh} ({n}))"), "ghost-use"),
                    _ => Op::cmd(format!("(sort {fresh} (Vec {n}))"), "ghost-use"),
                }
            }
            "ruleset" | "combined-ruleset" => match self.below(3) {
                0 => Op::cmd(format!("(run {n} 1)"), "ghost-use"),
                1 => Op::cmd(format!("(run-schedule (repeat 2 (run {n})))"), "ghost-use"),
                _ => {
                    let leaf = self.g.sig.term(&self.g.pool[0].1.clone());
                    Op::cmd(format!("(rule ({leaf}) ({leaf}) :ruleset {n})"), "ghost-use")
                }
            },
            "global" => self.global_use(&d.name.clone(), None),
            _ => {
                if self.chance(1, 2) { Op::cmd(format!("({n})"), "ghost-use") } else { Op::Api(Api::HasCommand(n.clone())) }
            }
        }
    }

    /// register in this scope a declaration copied verbatim from the other sequence
    fn adopt(&mut self, d: &Decl) {
        if self.used.contains(&d.name) {
            return;
        }
        match d.kind {
            "function" | "relation" | "constructor" => {
                let args: Option<Vec<Ty>> = d.args.iter().map(|a| ty_by_name(&self.g.sig, a)).collect();
                let out = ty_by_name(&self.g.sig, &d.out);
                if let (Some(args), Some(out), Some(k)) = (args, out, d.fkind.clone()) {
                    self.used.insert(d.name.clone());
                    let fd = FuncDecl { name: d.name.clone(), kind: k, args, out };
                    let idx = self.g.sig.funcs.len();
                    if fd.is_ctor() && fd.args.is_empty() {
                        self.g.pool.push((fd.out.clone(), Term::App(idx, vec![])));
                    }
                    self.g.sig.funcs.push(fd);
                }
            }
            // a sort enters the typed scope only with a leaf (pgen's assumption); here it is just marked as taken
            "sort" => {
                self.used.insert(d.name.clone());
            }
            "ruleset" => {
                self.used.insert(d.name.clone());
                self.g.sig.rulesets.push(d.name.clone());
                self.g.closed.push(true);
                self.g.has_rules.push(false);
            }
            "global" => {
                self.used.insert(d.name.clone());
            }
            "user-command" => {
                self.used.insert(d.name.clone());
                self.ucmds.push(d.name.clone());
            }
            // datatype / container / combined: the scope model does not follow (uses then fail equally on both sides)
            _ => {
                self.used.insert(d.name.clone());
            }
        }
    }

    fn named_rule(&mut self) -> Op {
        let mut c = self.g.gen_rule();
        if let Cmd::Rule { opts, .. } = &mut c {
            opts.name = Some(format!("qrule{}", self.named_rules % 2));
        }
        self.named_rules += 1;
        self.cmd_op(&c)
    }

    fn gen_seq(&mut self, n: usize, role: Role, ghost: &Ghost, pushpop_stage: bool) -> Vec<Op> {
        let mut ops: Vec<Op> = vec![];
        let mut budget = n;
        while budget > 0 {
            budget -= 1;
            let has_ghost = !ghost.decls.is_empty();
            let w: [usize; 14] = match role {
                Role::Q => [
                    6,                                                                      // 0 declaration
                    10,                                                                     // 1 pgen command
                    3,                                                                      // 2 fault
                    2,                                                                      // 3 api write
                    2,                                                                      // 4 api read
                    if self.nest < 2 { 2 } else { 0 },                                      // 5 nested push .. pop
                    if self.globals.is_empty() { 0 } else { 2 },                            // 6 global use
                    if pushpop_stage && self.p_depth == 0 && self.nest == 0 { 1 } else { 0 }, // 7 pop underflow pattern
                    1,                                                                      // 8 named rule
                    0,
                    0,
                    0,
                    0,
                    if !pushpop_stage && self.nest == 0 { 1 } else { 0 },                   // 13 bare pop (clone stage)
                ],
                Role::R => [
                    2,
                    8,
                    1,
                    1,
                    3,
                    if self.nest < 1 { 1 } else { 0 },
                    if self.globals.is_empty() { 0 } else { 1 },
                    0,
                    1,
                    if has_ghost { 4 } else { 0 },                                          // 9 re-declare verbatim
                    if has_ghost { 3 } else { 0 },                                          // 10 re-declare the name differently
                    if has_ghost { 5 } else { 0 },                                          // 11 use without declaring
                    if ghost.rule_rs.is_empty() && ghost.written.is_empty() && ghost.ops.is_empty() { 0 } else { 5 }, // 12 targeted run / read / replay
                    if self.nest == 0 { 1 } else { 0 },                                     // 13 bare pop
                ],
            };
            match self.g.src.pick_weighted(&w) {
                0 => ops.extend(self.gen_decl(None, None)),
                1 => {
                    let c = self.g.gen_cmd();
                    let op = self.cmd_op(&c);
                    ops.push(op);
                }
                2 => ops.extend(self.gen_fault()),
                3 => ops.push(self.api_write()),
                4 => ops.push(self.api_read(ghost)),
                5 => {
                    let saved = self.save();
                    self.nest += 1;
                    ops.push(Op::cmd("(push)", format!("nested-push:{}", self.nest)));
                    let k = 1 + self.below(3);
                    let inner = self.gen_seq(k, Role::Q, ghost, pushpop_stage);
                    ops.extend(inner);
                    ops.push(Op::cmd("(pop)", "nested-pop"));
                    self.nest -= 1;
                    self.restore(saved);
                }
                6 => {
                    let gi = self.below(self.globals.len());
                    let (n, t) = self.globals[gi].clone();
                    ops.push(self.global_use(&n, Some(&t)));
                }
                7 => {
                    // (pop) undoes OUR push, the second (pop) fails (nothing to pop), (push) re-opens the bracket
                    ops.push(Op::cmd("(pop)", "underflow-pop"));
                    ops.push(Op::cmd("(pop)", "fail:pop-underflow"));
                    ops.push(Op::cmd("(push)", "underflow-repush"));
                    let s = self.p_scope.clone().expect("p scope");
                    self.restore(s);
                }
                8 => ops.push(self.named_rule()),
                9 => {
                    let d = ghost.decls[self.below(ghost.decls.len())].clone();
                    let mut op = d.op.clone();
                    if let Op::Cmd { tag, .. } = &mut op {
                        *tag = format!("redecl-same:{}:{}", d.kind, d.name);
                    }
                    self.adopt(&d);
                    self.decls.push(d);
                    ops.push(op);
                }
                10 => {
                    let d = ghost.decls[self.below(ghost.decls.len())].clone();
                    let pool_kind = NAMES.contains(&d.name.as_str());
                    let mut new = if pool_kind { self.gen_decl(Some(&d.name), None) } else if d.kind == "global" { self.gen_decl(Some(&d.name), Some(8)) } else { self.gen_decl(Some(&d.name), Some(9)) };
                    if let Some(Op::Cmd { tag, .. }) = new.first_mut() {
                        *tag = tag.replacen("decl:", "redecl-diff:", 1);
                    }
                    ops.extend(new);
                }
                11 => {
                    let d = ghost.decls[self.below(ghost.decls.len())].clone();
                    ops.push(self.ghost_use(&d));
                }
                12 => {
                    let k = self.below(3);
                    if k == 0 && !ghost.rule_rs.is_empty() {
                        let rs = ghost.rule_rs[self.below(ghost.rule_rs.len())].clone();
                        let n = 1 + self.below(2);
                        ops.push(Op::cmd(if rs.is_empty() { format!("(run {n})") } else { format!("(run {rs} {n})") }, "run-ghost-ruleset"));
                    } else if k == 1 && !ghost.written.is_empty() {
                        let t = ghost.written[self.below(ghost.written.len())].clone();
                        ops.push(match self.below(3) {
                            0 => Op::cmd(format!("(print-size {t})"), "read-ghost-table"),
                            1 => Op::cmd(format!("(print-function {t} 20)"), "read-ghost-table"),
                            _ => Op::Api(Api::Entries(t)),
                        });
                    } else if !ghost.ops.is_empty() {
                        // replay one of the other sequence's operations verbatim (duplicate rules, same writes, ..)
                        let mut op = ghost.ops[self.below(ghost.ops.len())].clone();
                        if let Op::Cmd { text, tag } = &mut op {
                            if text == "(push)" || text == "(pop)" {
                                continue;
                            }
                            if tag.starts_with("rule") {
                                // the replayed rule may be generative: nothing is known to be closed any more
                                self.g.closed.iter_mut().for_each(|c| *c = false);
                            }
                            *tag = format!("replay:{}", tag.split(':').next().unwrap_or(""));
                        }
                        ops.push(op);
                    }
                }
                _ => {
                    ops.push(Op::cmd("(pop)", if self.p_depth > 0 { "bare-pop" } else { "fail:pop-underflow" }));
                    if self.p_depth > 0 {
                        self.p_depth -= 1;
                        let s = self.p_scope.clone().expect("p scope");
                        self.restore(s);
                    }
                }
            }
        }
        ops
    }
}

// ---------------------------------------------------------------------------
// cases
// ---------------------------------------------------------------------------

#[derive(Clone, Debug, Serialize, Deserialize)]
pub struct Case {
    pub p: Vec<Op>,
    pub q: Vec<Op>,
    pub r: Vec<Op>,
    /// clone stage: true = next step on the original, false = on the clone
    #[serde(default)]
    pub order: Vec<bool>,
    /// rulesets of P (for the leaked-rule probes)
    #[serde(default)]
    pub p_rulesets: Vec<String>,
}

fn p_cfg() -> GenCfg {
    GenCfg { max_cmds: 10, min_cmds: 3, containers: true, subsume: true, delete: true, extract_cmds: true, max_run: 3, ..GenCfg::default() }
}

fn gen_case(src: &mut Src, pushpop_stage: bool) -> Case {
    let mut g = Gen::new(src, p_cfg());
    let prog = g.gen_prog();
    let mut p: Vec<Op> = prog.sig.prelude().into_iter().map(|t| Op::cmd(t, "p:decl")).collect();
    p.extend(prog.cmds.iter().map(|c| Op::cmd(prog.sig.cmd(&desaturate(c)), "p")));
    let mut p_rulesets: Vec<String> = prog.sig.rulesets.clone();
    p_rulesets.extend(prog.sig.combined.iter().map(|c| c.0.clone()));
    let mut b = B { g, globals: vec![], ucmds: vec![], used: BTreeSet::new(), decls: vec![], rule_rs: BTreeSet::new(), p_depth: 0, p_scope: None, nest: 0, named_rules: 0 };
    if b.chance(1, 5) {
        p.push(Op::Api(Api::ExtSet(1)));
    }
    // optionally P ends inside an open (push)
    if b.chance(1, 5) {
        p.push(Op::cmd("(push)", "p:open-push"));
        b.p_depth = 1;
        for _ in 0..b.below(3) {
            let c = b.g.gen_cmd();
            let op = b.cmd_op(&c);
            p.push(op);
        }
    }
    b.rule_rs.clear();
    let p_scope = b.save();
    b.p_scope = Some(p_scope.clone());
    let p_depth = b.p_depth;
    let p_funcs: BTreeSet<String> = p_scope.sig.funcs.iter().map(|f| f.name.clone()).collect();

    let nq = 1 + b.below(8);
    let q = b.gen_seq(nq, Role::Q, &Ghost::default(), pushpop_stage);
    let mut written: BTreeSet<String> = BTreeSet::new();
    for op in &q {
        if matches!(op, Op::Cmd { tag, .. } if tag == "write" || tag.starts_with("fail")) || matches!(op, Op::Api(a) if a.is_write()) {
            written.extend(op.idents().into_iter().filter(|i| p_funcs.contains(i)));
        }
    }
    let ghost = Ghost { decls: b.decls.clone(), rule_rs: b.rule_rs.iter().filter(|r| r.is_empty() || p_scope.sig.rulesets.contains(r) || p_scope.sig.combined.iter().any(|c| &c.0 == *r)).cloned().collect(), written: written.into_iter().collect(), ops: q.clone() };
    b.restore(p_scope);
    b.decls.clear();
    b.rule_rs.clear();
    b.p_depth = p_depth;
    b.nest = 0;
    let nr = 1 + b.below(8);
    let r = b.gen_seq(nr, Role::R, &ghost, pushpop_stage);
    let mut order = vec![];
    if !pushpop_stage {
        for _ in 0..(q.len() + r.len()) {
            order.push(b.g.src.bool());
        }
    }
    Case { p, q, r, order, p_rulesets }
}

/// `VERIF_C08_TRACE=1`: print every case when its check starts and when it ends (to find a hanging case)
struct Trace(Option<u64>);
impl Trace {
    fn start(c: &Case) -> Trace {
        if std::env::var("VERIF_C08_TRACE").is_err() {
            return Trace(None);
        }
        let k = case_key(c);
        eprintln!("START {k:016x} {}", render_case(c));
        Trace(Some(k))
    }
}
impl Drop for Trace {
    fn drop(&mut self) {
        if let Some(k) = self.0 {
            eprintln!("END {k:016x}");
        }
    }
}

fn render_case(c: &Case) -> serde_json::Value {
    let t = |v: &Vec<Op>| v.iter().map(|o| o.text()).collect::<Vec<_>>();
    let mut j = serde_json::json!({"P": t(&c.p), "Q": t(&c.q), "R": t(&c.r)});
    if !c.order.is_empty() {
        j["order(true=original)"] = serde_json::json!(c.order);
    }
    j
}

fn simplify_case(c: &Case) -> Vec<Case> {
    let mut out = vec![];
    let mut push = |f: &dyn Fn(&mut Case)| {
        let mut x = c.clone();
        f(&mut x);
        out.push(x);
    };
    if c.q.len() > 1 {
        push(&|x| x.q.truncate(x.q.len() / 2));
    }
    if c.r.len() > 1 {
        push(&|x| x.r.truncate(x.r.len() / 2));
    }
    for i in (0..c.r.len()).rev() {
        push(&|x| {
            x.r.remove(i);
        });
    }
    for i in (0..c.q.len()).rev() {
        push(&|x| {
            x.q.remove(i);
        });
    }
    for i in (0..c.p.len()).rev() {
        // keep declarations of P (dropping one usually only turns everything into static errors)
        if matches!(&c.p[i], Op::Cmd { tag, .. } if tag == "p:decl" || tag == "p:open-push") {
            continue;
        }
        push(&|x| {
            x.p.remove(i);
        });
    }
    if c.order.iter().any(|b| !*b) {
        push(&|x| x.order.iter_mut().for_each(|b| *b = true));
    }
    out
}

fn case_key(c: &Case) -> u64 {
    fnv_str(&serde_json::to_string(&render_case(c)).unwrap_or_default())
}

/// Run P on several fresh engines; false if something prevents the comparison (counted, not a violation).
fn run_prefix(engs: &mut [&mut EGraph], p: &[Op], out: &mut Outcome) -> bool {
    for op in p {
        let mut first: Option<Res> = None;
        for e in engs.iter_mut() {
            let r = exec(e, op);
            if r.kind == "panic" {
                out.class("prefix-panicked");
                return false;
            }
            match &first {
                None => first = Some(r),
                Some(f) => {
                    if *f != r {
                        // two fresh engines disagree on the same prefix: nondeterminism, nothing to compare against
                        out.class("prefix-diverged");
                        out.count("prefix_diverged", 1);
                        return false;
                    }
                }
            }
        }
    }
    true
}

/// Record a difference. In the clone stage (`clone_stage`) a declared function that the name-indexed API calls
/// missing identifies the shared-registry defect (one root cause = one signature).
fn fail_diff(out: &mut Outcome, engines: &[&EGraph], clone_stage: bool, sig: &str, detail: String) {
    if clone_stage {
        for e in engines {
            if let Some(s) = registry_symptom(e) {
                out.fail(SIG_REGISTRY, format!("{s}\n{detail}"));
                return;
            }
        }
    }
    out.fail(sig, detail);
}

/// one side reports an engine-level "Panic: .." that the other does not: the stale-panic defect
fn one_sided_panic(l: &str, r: &str) -> bool {
    l.contains("Panic: ") != r.contains("Panic: ")
}

// ---------------------------------------------------------------------------
// stage push-pop
// ---------------------------------------------------------------------------

pub struct PushPop;

impl Stage for PushPop {
    type Input = Case;
    fn name(&self) -> &'static str {
        "push-pop"
    }
    fn decode(&self, src: &mut Src) -> Case {
        gen_case(src, true)
    }
    fn render(&self, c: &Case) -> serde_json::Value {
        render_case(c)
    }
    fn simplify(&self, c: &Case) -> Vec<Case> {
        simplify_case(c)
    }
    fn check(&self, c: &Case) -> Outcome {
        let mut out = Outcome::new(case_key(c));
        let _trace = Trace::start(c);
        let mut a = EGraph::default();
        let mut b = EGraph::default();
        if !run_prefix(&mut [&mut a, &mut b], &c.p, &mut out) {
            return out;
        }
        let after_p = observe(&a);
        {
            let ob = observe(&b);
            if after_p != ob {
                out.class("prefix-diverged");
                out.count("prefix_diverged", 1);
                return out;
            }
        }
        // ---- the bracket
        let r = exec(&mut a, &Op::cmd("(push)", "push"));
        if !r.is_ok() {
            out.fail("pushpop:push-failed", format!("(push) after P gave {}", r.short()));
            return out;
        }
        let mut q_names: BTreeSet<String> = BTreeSet::new();
        let mut q_decl_ok = 0usize;
        let mut max_nest = 0usize;
        for op in &c.q {
            let r = exec(&mut a, op);
            let tag = op.tag();
            if r.kind == "panic" {
                out.class("q-panic");
            }
            if tag.starts_with("decl:") {
                if r.is_ok() {
                    q_decl_ok += 1;
                    out.class(format!("q-{}", op.tag2()));
                    if let Some(n) = tag.split(':').nth(2) {
                        q_names.insert(n.to_string());
                    }
                } else {
                    out.class("q-decl-rejected");
                }
            } else if tag.starts_with("api:") {
                if matches!(op, Op::Api(Api::AddCommand(_))) && r.is_ok() {
                    q_decl_ok += 1;
                    out.class("q-decl:user-command");
                    if let Op::Api(Api::AddCommand(n)) = op {
                        q_names.insert(n.clone());
                    }
                }
                out.class(format!("q-{tag}"));
            } else if tag.starts_with("fail:") {
                out.class(format!("q-{tag}:{}", if r.is_ok() { "but-ok" } else { r.kind.as_str() }));
            } else if let Some(d) = tag.strip_prefix("nested-push:") {
                max_nest = max_nest.max(d.parse().unwrap_or(1));
            } else if tag == "rule" && r.is_ok() {
                out.class("q-rule-added");
                if let Some(i) = op.text().find(":ruleset ") {
                    let rest = &op.text()[i + 9..];
                    q_names.insert(rest.split(|ch: char| ch == ' ' || ch == ')').next().unwrap_or("").to_string());
                }
            } else if !r.is_ok() && !r.kind.starts_with("err:Check") {
                out.class(format!("q-other-{}", r.kind));
            }
        }
        out.class(format!("q-nested-depth:{max_nest}"));
        let after_q = safe_dump(&a);
        let q_changed_db = after_q != after_p.dump;
        if q_changed_db {
            out.class("q-changed-db");
            for (n, rows) in &after_q.tables {
                if after_p.dump.tables.get(n) != Some(rows) {
                    q_names.insert(n.clone());
                }
            }
            for n in after_p.dump.tables.keys() {
                if !after_q.tables.contains_key(n) {
                    q_names.insert(n.clone());
                }
            }
        }
        let r = exec(&mut a, &Op::cmd("(pop)", "pop"));
        if !r.is_ok() {
            out.fail("pushpop:pop-failed", format!("the (pop) matching our (push) gave {}", r.short()));
            return out;
        }
        // ---- right after the pop: as if Q had never been issued
        let oa = observe(&a);
        if oa != after_p {
            fail_diff(&mut out, &[&a], false, "pushpop:state-after-pop-differs", format!("right after (pop): engine with push;Q;pop (left) differs from the state after P (right):\n{}", obs_diff(&oa, &after_p)));
            return out;
        }
        let (pa, pb) = (rule_probe(&a, &c.p_rulesets), rule_probe(&b, &c.p_rulesets));
        if pa != pb {
            let sig = if one_sided_panic(&pa.join("\n"), &pb.join("\n")) { SIG_STALE_PANIC } else { "pushpop:rules-differ-after-pop" };
            out.fail(sig, format!("right after (pop): one iteration of each ruleset on a clone behaves differently.\nwith push;Q;pop: {pa:#?}\nplain P: {pb:#?}"));
            return out;
        }
        // ---- the continuation
        let mut r_touches = false;
        for (i, op) in c.r.iter().enumerate() {
            let ra = exec(&mut a, op);
            let rb = exec(&mut b, op);
            let tag = op.tag();
            if !op.idents().is_disjoint(&q_names) {
                r_touches = true;
            }
            if tag.starts_with("redecl") || tag.starts_with("ghost") || tag.starts_with("replay") || tag.starts_with("run-ghost") || tag.starts_with("read-ghost") {
                out.class(format!("r-{}:{}", op.tag2(), if rb.is_ok() { "ok" } else { "err" }));
            } else if tag.starts_with("api:") {
                out.class(format!("r-{tag}"));
            }
            if ra != rb {
                fail_diff(&mut out, &[&a, &b], false,
                    if one_sided_panic(&ra.msg, &rb.msg) { SIG_STALE_PANIC } else { "pushpop:continuation-result-differs" },
                    format!("R command #{i} `{}`:\n  after P;push;Q;pop: {} {:?} {}\n  after P           : {} {:?} {}", op.text(), ra.kind, ra.out, ra.msg, rb.kind, rb.out, rb.msg),
                );
                return out;
            }
            if ra.kind == "panic" {
                out.class("r-panic-both");
                if std::env::var("VERIF_C08_DEBUG").is_ok() {
                    eprintln!("CASE with panic on both sides: {}", render_case(c));
                }
                break;
            }
            let (oa, ob) = (observe(&a), observe(&b));
            if oa != ob {
                fail_diff(&mut out, &[&a, &b], false, "pushpop:continuation-state-differs", format!("after R command #{i} `{}` ({}): P;push;Q;pop;R (left) differs from P;R (right):\n{}", op.text(), ra.short(), obs_diff(&oa, &ob)));
                return out;
            }
            if obs_panicked(&oa) {
                // both engines equally unreadable (an earlier half-rejected declaration corrupted a row): nothing more to compare
                out.class("observation-panicked-both");
                break;
            }
        }
        let (pa, pb) = (rule_probe(&a, &c.p_rulesets), rule_probe(&b, &c.p_rulesets));
        if pa != pb {
            let sig = if one_sided_panic(&pa.join("\n"), &pb.join("\n")) { SIG_STALE_PANIC } else { "pushpop:rules-differ-after-continuation" };
            out.fail(sig, format!("after R: one iteration of each ruleset on a clone behaves differently.\nwith push;Q;pop: {pa:#?}\nplain: {pb:#?}"));
            return out;
        }
        if r_touches {
            out.class("r-touches-q-names");
        }
        out.nontrivial = (q_changed_db || q_decl_ok > 0) && r_touches;
        out
    }
}

// ---------------------------------------------------------------------------
// stage clone
// ---------------------------------------------------------------------------

pub struct CloneStage;

struct SideStats {
    wrote: bool,
    decl_ok: BTreeSet<String>,
    decl_text: Vec<(String, String)>,
}

impl Stage for CloneStage {
    type Input = Case;
    fn name(&self) -> &'static str {
        "clone"
    }
    fn decode(&self, src: &mut Src) -> Case {
        gen_case(src, false)
    }
    fn render(&self, c: &Case) -> serde_json::Value {
        render_case(c)
    }
    fn simplify(&self, c: &Case) -> Vec<Case> {
        simplify_case(c)
    }
    fn check(&self, c: &Case) -> Outcome {
        let mut out = Outcome::new(case_key(c));
        let _trace = Trace::start(c);
        let mut a = EGraph::default();
        let mut ia = EGraph::default();
        let mut ib = EGraph::default();
        if !run_prefix(&mut [&mut a, &mut ia, &mut ib], &c.p, &mut out) {
            return out;
        }
        let after_p = observe(&a);
        if after_p != observe(&ia) || after_p != observe(&ib) {
            out.class("prefix-diverged");
            out.count("prefix_diverged", 1);
            return out;
        }
        let mut b = a.clone();
        {
            let ob = observe(&b);
            if ob != after_p {
                fail_diff(&mut out, &[&a, &b], true, "clone:fresh-clone-differs", format!("a fresh clone (left) differs from its original (right):\n{}", obs_diff(&ob, &after_p)));
                return out;
            }
        }
        let mut obs_ia = after_p.clone();
        let mut obs_ib = after_p.clone();
        let (mut qi, mut ri, mut oi) = (0usize, 0usize, 0usize);
        let mut st = [SideStats { wrote: false, decl_ok: BTreeSet::new(), decl_text: vec![] }, SideStats { wrote: false, decl_ok: BTreeSet::new(), decl_text: vec![] }];
        let mut step = 0usize;
        while qi < c.q.len() || ri < c.r.len() {
            let want_a = c.order.get(oi).copied().unwrap_or(true);
            oi += 1;
            let on_a = if qi >= c.q.len() { false } else if ri >= c.r.len() { true } else { want_a };
            let (op, who) = if on_a {
                qi += 1;
                (&c.q[qi - 1], "original")
            } else {
                ri += 1;
                (&c.r[ri - 1], "clone")
            };
            step += 1;
            let (res, iref) = if on_a { (exec(&mut a, op), exec(&mut ia, op)) } else { (exec(&mut b, op), exec(&mut ib, op)) };
            let tag = op.tag();
            let side = if on_a { 0 } else { 1 };
            let declares = tag.starts_with("decl:") || tag.starts_with("redecl") || matches!(op, Op::Api(Api::AddCommand(_)));
            if declares && iref.is_ok() {
                let name = match op {
                    Op::Api(Api::AddCommand(n)) => n.clone(),
                    _ => tag.split(':').nth(2).unwrap_or("").to_string(),
                };
                out.class(format!("{who}-{}", op.tag2()));
                st[side].decl_ok.insert(name.clone());
                st[side].decl_text.push((name, op.text()));
            } else if tag.starts_with("api:") {
                out.class(format!("{who}-{tag}"));
            } else if tag.starts_with("fail:") && !iref.is_ok() {
                out.class(format!("{who}-{tag}"));
            }
            if res != iref {
                fail_diff(&mut out, &[&a, &b], true,
                    if one_sided_panic(&res.msg, &iref.msg) { SIG_STALE_PANIC } else { "clone:result-differs-from-independent-run" },
                    format!("step {step}, {who} command `{}`:\n  on the {who} (original and clone interleaved): {} {:?} {}\n  on an independent engine running only this side: {} {:?} {}", op.text(), res.kind, res.out, res.msg, iref.kind, iref.out, iref.msg),
                );
                return out;
            }
            if res.kind == "panic" {
                out.class("panic-both");
                break;
            }
            if on_a {
                obs_ia = observe(&ia);
                if obs_ia != after_p {
                    st[0].wrote = true;
                }
            } else {
                obs_ib = observe(&ib);
                if obs_ib != after_p {
                    st[1].wrote = true;
                }
            }
            let (oa, ob) = (observe(&a), observe(&b));
            if oa != obs_ia {
                let what = if on_a { "clone:original-differs-from-independent-run" } else { "clone:original-changed-by-command-on-clone" };
                fail_diff(&mut out, &[&a, &b], true, what, format!("after step {step} ({who} ran `{}`): the original (left) differs from an independent engine that ran P;Q-so-far (right):\n{}", op.text(), obs_diff(&oa, &obs_ia)));
                return out;
            }
            if ob != obs_ib {
                let what = if on_a { "clone:clone-changed-by-command-on-original" } else { "clone:clone-differs-from-independent-run" };
                fail_diff(&mut out, &[&a, &b], true, what, format!("after step {step} ({who} ran `{}`): the clone (left) differs from an independent engine that ran P;R-so-far (right):\n{}", op.text(), obs_diff(&ob, &obs_ib)));
                return out;
            }
            if obs_panicked(&oa) || obs_panicked(&ob) {
                out.class("observation-panicked-both");
                break;
            }
        }
        let both: Vec<&String> = st[0].decl_ok.intersection(&st[1].decl_ok).collect();
        for n in &both {
            let ta = st[0].decl_text.iter().find(|(x, _)| x == *n).map(|x| &x.1);
            let tb = st[1].decl_text.iter().find(|(x, _)| x == *n).map(|x| &x.1);
            out.class(if ta == tb { "both-declared:same-signature" } else { "both-declared:different-signature" });
        }
        if st[0].wrote && st[1].wrote {
            out.class("both-wrote-after-clone");
        }
        out.nontrivial = st[0].wrote && st[1].wrote && !both.is_empty();
        out
    }
}

// ---------------------------------------------------------------------------
// entry points
// ---------------------------------------------------------------------------

pub fn replay(rep: &Report, stage: &str, j: &serde_json::Value) -> i32 {
    match stage {
        "push-pop" => crate::registry::replay_stage(rep, &PushPop, j),
        "clone" => crate::registry::replay_stage(rep, &CloneStage, j),
        _ => 2,
    }
}

pub fn child(_kind: &str, _payload: &serde_json::Value) -> Option<serde_json::Value> {
    None
}

/// golden cases: the hand-found trigger of the shared-registry defect and small leak probes
fn golden(rep: &Report) {
    let c = |t: &str| Op::cmd(t, if t.starts_with("(function") { "decl:function:h" } else { "write" });
    // b = a.clone(); a declares h/1, b declares h/2; name-indexed reads of h on a must keep working
    let reg = Case {
        p: vec![Op::cmd("(relation R (i64))", "p:decl"), Op::cmd("(R 1)", "p")],
        q: vec![c("(function h (i64) i64 :no-merge)"), c("(set (h 1) 10)"), Op::Api(Api::Lookup("h".into(), vec![1])), Op::Api(Api::Entries("h".into()))],
        r: vec![c("(function h (i64 i64) i64 :no-merge)"), c("(set (h 1 2) 20)"), Op::Api(Api::Entries("h".into()))],
        order: vec![true, false, true, false, true, true, false],
        p_rulesets: vec![],
    };
    rep.run_one(&CloneStage, &reg);
    let pp = Case {
        p: vec![Op::cmd("(sort S)", "p:decl"), Op::cmd("(constructor a () S)", "p:decl"), Op::cmd("(ruleset rs0)", "p:decl"), Op::cmd("(relation R (S))", "p:decl"), Op::cmd("(a)", "p")],
        q: vec![
            Op::cmd("(function q0 (i64) i64 :no-merge)", "decl:function:q0"),
            Op::cmd("(set (q0 1) 10)", "write"),
            Op::cmd("(rule ((= x (a))) ((R x)) :ruleset rs0)", "rule"),
            Op::cmd("(ruleset q1)", "decl:ruleset:q1"),
            Op::cmd("(let $g0 (a))", "decl:global:$g0"),
            Op::cmd("(run rs0 1)", "run"),
        ],
        r: vec![
            Op::Api(Api::Lookup("q0".into(), vec![1])),
            Op::cmd("(relation q0 (i64 i64))", "redecl-diff:relation:q0"),
            Op::cmd("(q0 1 2)", "write"),
            Op::Api(Api::Entries("q0".into())),
            Op::cmd("(sort q1)", "redecl-diff:sort:q1"),
            Op::cmd("(let $g0 (a))", "redecl-same:global:$g0"),
            Op::cmd("(run rs0 1)", "run-ghost-ruleset"),
            Op::cmd("(check (R (a)))", "check"),
        ],
        order: vec![],
        p_rulesets: vec!["rs0".into()],
    };
    rep.run_one(&PushPop, &pp);
    // a :no-merge conflict raised through EGraph::update inside the bracket must not fail a run after the pop
    let decl = |t: &str| Op::cmd(t, "p:decl");
    let stale = Case {
        p: vec![decl("(function f (i64) i64 :no-merge)"), decl("(relation R (i64))"), Op::cmd("(rule ((R x)) ((R (+ x 1))))", "p"), Op::cmd("(R 1)", "p")],
        q: vec![Op::cmd("(set (f 1) 1)", "write"), Op::Api(Api::Set("f".into(), vec![1], 2))],
        r: vec![Op::cmd("(run 1)", "run"), Op::Api(Api::Lookup("f".into(), vec![1]))],
        order: vec![true, true, false, false],
        p_rulesets: vec![],
    };
    rep.run_one(&PushPop, &stale);
    // .. nor a run on a clone / on the original
    rep.run_one(&CloneStage, &stale);
}

pub fn run(rep: &Report) {
    rep.set_rule(
        "cases = (P, Q, R): P a typed pgen program (containers, subsume, delete, functions, rulesets, schedules; 1/5 end inside an open push), Q and R sequences of 1..8(+) operations from a declaration-aware generator over a tiny name pool (q0..q3, $g0/$g1, ucmd0/1): declarations of every kind, pgen commands over the extended signature (writes, rules also in P's rulesets, runs, schedules, checks, extracts), failing commands (static, :no-merge, primitive/lookup, faulty rules + run, pop underflow), nested push/pop, Rust-API reads/writes (update: lookup/contains/eclass_of/set/add/remove, read: table_size/table_sizes/table_subtype, function_entries/constructor_enodes, get_size, clear_function, query, extension state, add_command); R additionally re-declares Q's names verbatim or with another kind/signature, uses them undeclared, runs rulesets Q added rules to, reads tables Q wrote, replays Q's operations. \
         stage push-pop: P;push;Q;pop;R vs P;R on independent engines — result kind, normalised error text, outputs, canonical dump and API summary right after the pop and after every R command, plus one iteration of every ruleset on clones after the pop and at the end; non-trivial = Q changed the database or declared something AND some R operation mentions a name Q declared / a table Q changed / a ruleset Q added a rule to. \
         stage clone: b=a.clone() after P, Q on a and R on b interleaved; after every step a vs an independent engine with P;Q-so-far and b vs one with P;R-so-far; non-trivial = both sides changed their state after the clone and at least one name was successfully declared on both. distinct = by rendered case",
    );
    rep.assume("two fresh engines fed the same commands behave identically (single-threaded evaluation is deterministic); cases where P itself diverges are counted (prefix_diverged) and skipped");
    rep.assume("pop keeps the overall run report and the fresh-symbol counter by documentation: print-stats is not generated and identifiers with the reserved '@' prefix are compared modulo digits");
    if std::env::var("VERIF_C08_SKIP_GOLDEN").is_err() {
        golden(rep);
    }
    rep.run_regressions(&PushPop);
    rep.run_regressions(&CloneStage);
    rep.explore(&PushPop, rep.tier.pick(10_000, 60_000), 900);
    rep.explore(&CloneStage, rep.tier.pick(8000, 40_000), 900);
    if rep.tier == Tier::Thorough {
        rep.note("thorough: same generators, larger case counts");
    }
}
