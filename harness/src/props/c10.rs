//! C10 — schedules mean what they say.
//!
//! At every schedule command of a generated program the harness (a) interprets
//! the schedule itself on a clone using only the single-iteration primitive
//! `EGraph::step_rules` and `(check ..)` for `:until`, deciding "changed" by
//! comparing canonical dumps (textbook definitions of run/repeat/saturate/seq),
//! (b) runs the schedule natively on another clone, (c) runs law-equivalent
//! variants natively on further clones (seq flattening / re-association,
//! (repeat 1 s), (seq s), run n = n x run 1), (d) re-runs a saturated schedule
//! once more and requires updated=false and an unchanged dump. All final dumps
//! must be equal; `report.updated` must be true whenever the dump changed.
//! The whole program additionally runs in lockstep with the reference model
//! (which defines combined rulesets as the union of the current member rules).

use super::*;
use crate::choice::{fnv_str, Src};
use crate::eng::canon_dump;
use crate::fw::{catch, Outcome, Report, Stage};
use crate::pgen::{simplify_prog, Gen, GenCfg};
use egglog::EGraph;

pub struct C10 {
    pub cfg: GenCfg,
}

#[derive(Default)]
struct IStats {
    iterations: usize,
    iterations_changed: usize,
    early_stops: usize,
    until_stops: usize,
    saturate_loops: usize,
    updated_false_but_changed: Option<String>,
    step_error: Option<String>,
    too_long: bool,
}

fn check_holds(eg: &mut EGraph, sig: &Sig, facts: &[Fact]) -> bool {
    matches!(eng::run(eg, &format!("(check {})", sig.facts(facts))), CmdRes::Ok(_))
}

fn interp(eg: &mut EGraph, sig: &Sig, s: &Sched, st: &mut IStats) -> bool {
    if st.step_error.is_some() || st.too_long {
        return false;
    }
    match s {
        Sched::Run { rs, until } => {
            if !until.is_empty() && check_holds(eg, sig, until) {
                st.until_stops += 1;
                return false;
            }
            let name = rs.map(|r| sig.rs_name(r)).unwrap_or_default();
            let before = canon_dump(eg);
            let rep = match catch(|| eg.step_rules(&name)) {
                Ok(Ok(r)) => r,
                Ok(Err(e)) => {
                    st.step_error = Some(e.to_string());
                    return false;
                }
                Err(p) => {
                    st.step_error = Some(format!("PANIC {p}"));
                    return false;
                }
            };
            let after = canon_dump(eg);
            st.iterations += 1;
            if st.iterations > 400 {
                st.too_long = true;
            }
            let changed = before != after;
            if changed {
                st.iterations_changed += 1;
                if !rep.updated && st.updated_false_but_changed.is_none() {
                    st.updated_false_but_changed = Some(format!("one iteration of ruleset `{name}` changed the database but its report says updated=false:\n{}", before.diff(&after)));
                }
            }
            changed
        }
        Sched::Repeat(n, ss) => {
            let mut any = false;
            for i in 0..*n {
                let mut c = false;
                for x in ss {
                    c |= interp(eg, sig, x, st);
                }
                any |= c;
                if !c {
                    if i + 1 < *n {
                        st.early_stops += 1;
                    }
                    break;
                }
            }
            any
        }
        Sched::Saturate(ss) => {
            let mut any = false;
            loop {
                st.saturate_loops += 1;
                let mut c = false;
                for x in ss {
                    c |= interp(eg, sig, x, st);
                }
                any |= c;
                if !c || st.too_long || st.step_error.is_some() {
                    break;
                }
            }
            any
        }
        Sched::Seq(ss) => {
            let mut any = false;
            for x in ss {
                any |= interp(eg, sig, x, st);
            }
            any
        }
    }
}

fn flatten(s: &Sched) -> Vec<Sched> {
    match s {
        Sched::Seq(ss) => ss.iter().flat_map(flatten).collect(),
        Sched::Repeat(n, ss) => vec![Sched::Repeat(*n, ss.iter().flat_map(flatten).collect())],
        Sched::Saturate(ss) => vec![Sched::Saturate(ss.iter().flat_map(flatten).collect())],
        other => vec![other.clone()],
    }
}

fn right_assoc(ss: &[Sched]) -> Sched {
    match ss {
        [] => Sched::Seq(vec![]),
        [x] => x.clone(),
        [x, rest @ ..] => Sched::Seq(vec![x.clone(), right_assoc(rest)]),
    }
}

/// law-equivalent variants of a schedule (all must produce the same database)
fn variants(s: &Sched) -> Vec<(&'static str, Sched)> {
    let flat = flatten(s);
    vec![
        ("seq-flattened", Sched::Seq(flat.clone())),
        ("seq-right-associated", right_assoc(&flat)),
        ("wrapped-in-seq", Sched::Seq(vec![s.clone()])),
        ("repeat-1", Sched::Repeat(1, vec![s.clone()])),
    ]
}

fn contains_saturate(s: &Sched) -> bool {
    match s {
        Sched::Saturate(_) => true,
        Sched::Repeat(_, ss) | Sched::Seq(ss) => ss.iter().any(contains_saturate),
        _ => false,
    }
}

impl C10 {
    fn experiment(&self, eg: &EGraph, sig: &Sig, idx: usize, sched: &Sched, native_text: &str, out: &mut Outcome) -> IStats {
        let mut st = IStats::default();
        // (a) reference execution
        let mut a = eg.clone();
        interp(&mut a, sig, sched, &mut st);
        if st.too_long {
            out.class("reference-too-long");
            return st;
        }
        if let Some(e) = &st.step_error {
            out.class("step-error");
            let _ = e;
            return st;
        }
        if let Some(d) = &st.updated_false_but_changed {
            out.fail("updated-false-but-database-changed", format!("command #{idx} `{native_text}`: {d}"));
            return st;
        }
        let da = canon_dump(&a);
        // (b) native
        let mut b = eg.clone();
        match eng::run(&mut b, native_text) {
            CmdRes::Ok(_) => {}
            other => {
                out.fail("native-schedule-error", format!("command #{idx} `{native_text}`: stepping it by hand works but the native run gave {}", other.short()));
                return st;
            }
        }
        let db = canon_dump(&b);
        if da != db {
            out.fail(
                "schedule-differs-from-definition",
                format!(
                    "command #{idx} `{native_text}`: database after the native run (right) differs from executing the schedule by its definition with step_rules (left):\n{}",
                    da.diff(&db)
                ),
            );
            return st;
        }
        // (c) law-equivalent variants, natively
        for (law, v) in variants(sched) {
            let text = format!("(run-schedule {})", sig.sched(&v));
            let mut c = eg.clone();
            match eng::run(&mut c, &text) {
                CmdRes::Ok(_) => {}
                other => {
                    out.fail(format!("law-variant-error:{law}"), format!("command #{idx}: variant `{text}` of `{native_text}` gave {}", other.short()));
                    return st;
                }
            }
            out.count("law_variants_run", 1);
            let dc = canon_dump(&c);
            if dc != db {
                out.fail(format!("law-violated:{law}"), format!("command #{idx}: `{native_text}` and its law-equivalent `{text}` give different databases:\n{}", db.diff(&dc)));
                return st;
            }
        }
        // (d) saturate idempotence on the native result
        if let Sched::Saturate(ss) = sched {
            let body = Sched::Seq(ss.clone());
            let text = format!("(run-schedule {})", sig.sched(&body));
            match crate::eng::run_raw(&mut b, &text) {
                Ok(Ok(outs)) => {
                    out.count("saturate_idempotence_checks", 1);
                    let upd = outs.iter().any(|o| matches!(o, egglog::CommandOutput::RunSchedule(r) if r.updated));
                    let d2 = canon_dump(&b);
                    if d2 != db {
                        out.fail("saturate-not-a-fixpoint", format!("command #{idx}: after `{native_text}`, running the body once more changes the database:\n{}", db.diff(&d2)));
                        return st;
                    }
                    if upd {
                        out.fail("saturate-rerun-reports-updated", format!("command #{idx}: after `{native_text}`, running the body once more reports updated=true although nothing changed"));
                        return st;
                    }
                }
                Ok(Err(e)) => {
                    out.fail("saturate-rerun-error", format!("command #{idx}: re-running the saturated body failed: {e}"));
                    return st;
                }
                Err(p) => {
                    out.fail(format!("panic:{}", crate::fw::panic_key(&p)), format!("command #{idx}: re-running the saturated body panicked: {p}"));
                    return st;
                }
            }
        }
        st
    }
}

impl Stage for C10 {
    type Input = Prog;
    fn name(&self) -> &'static str {
        "schedules"
    }
    fn decode(&self, src: &mut Src) -> Prog {
        Gen::new(src, self.cfg.clone()).gen_prog()
    }
    fn render(&self, inp: &Prog) -> serde_json::Value {
        serde_json::json!(inp.text().lines().collect::<Vec<_>>())
    }
    fn simplify(&self, inp: &Prog) -> Vec<Prog> {
        simplify_prog(inp)
    }
    fn check(&self, prog: &Prog) -> Outcome {
        let mut out = Outcome::new(fnv_str(&prog.text()));
        let mut eg = EGraph::default();
        if !declare(&mut eg, &prog.sig, &mut out) {
            return out;
        }
        let mut model = Model::new(&prog.sig);
        let mut model_alive = true;
        let mut total = IStats::default();
        let mut experiments = 0;
        for (i, c) in prog.cmds.iter().enumerate() {
            let text = prog.sig.cmd(c);
            let sched: Option<Sched> = match c {
                Cmd::Sched(s) => Some(s.clone()),
                Cmd::RunN { rs, n, until } => Some(Sched::Repeat(*n, vec![Sched::Run { rs: *rs, until: until.clone() }])),
                _ => None,
            };
            if let Some(s) = &sched {
                experiments += 1;
                let st = self.experiment(&eg, &prog.sig, i, s, &text, &mut out);
                if out.fail.is_some() {
                    break;
                }
                if st.too_long || st.step_error.is_some() {
                    break;
                }
                total.iterations += st.iterations;
                total.iterations_changed += st.iterations_changed;
                total.early_stops += st.early_stops;
                total.until_stops += st.until_stops;
                if contains_saturate(s) {
                    out.class("has-saturate");
                }
            }
            if model_alive {
                match step_both(&mut eg, &mut model, &prog.sig, i, c, &mut out) {
                    Step::Stop => {
                        if out.fail.is_some() {
                            break;
                        }
                        // model discarded: continue engine-only if the engine accepted the command
                        model_alive = false;
                        if !out.classes.last().map(|c| c.starts_with("model-discard")).unwrap_or(false) {
                            break;
                        }
                        // the command was not yet run on the engine when the model discarded
                        if !matches!(eng::run(&mut eg, &text), CmdRes::Ok(_) | CmdRes::Err(ErrKind::Check, _)) {
                            break;
                        }
                    }
                    Step::Both => {
                        if !compare_dumps(&eg, &model, &format!("after command #{i} `{text}`"), &mut out) {
                            break;
                        }
                    }
                }
            } else {
                match eng::run(&mut eg, &text) {
                    CmdRes::Ok(_) | CmdRes::Err(ErrKind::Check, _) => {}
                    CmdRes::Panic(p) => {
                        out.fail(format!("panic:{}", crate::fw::panic_key(&p)), format!("command #{i} `{text}` panicked: {p}"));
                        break;
                    }
                    _ => break,
                }
            }
        }
        out.count("schedule_experiments", experiments);
        out.count("iterations_stepped", total.iterations as u64);
        if total.early_stops > 0 {
            out.class("early-stop-observed");
        }
        if total.until_stops > 0 {
            out.class("until-stop-observed");
        }
        if total.iterations_changed >= 2 {
            out.class("iterations-changed>=2");
        }
        if !prog.sig.combined.is_empty() && prog.text().contains("(run comb") {
            out.class("combined-ruleset-run");
        }
        out.nontrivial = total.iterations_changed >= 2 || total.early_stops > 0 || total.until_stops > 0;
        out
    }
}

pub fn cfg() -> GenCfg {
    GenCfg { max_cmds: 16, min_cmds: 6, subsume: true, max_run: 4, ..GenCfg::default() }
}

pub fn replay(rep: &Report, _stage: &str, j: &serde_json::Value) -> i32 {
    crate::registry::replay_stage(rep, &C10 { cfg: cfg() }, j)
}

pub fn run(rep: &Report) {
    rep.set_rule(
        "cases = typed monotone(+subsume) egglog programs with several rulesets, combined rulesets (rules also added to a member after the combination), :until facts and schedule expressions up to depth 3 (saturate only over closed rules), from proptest bytes; \
         at every (run ..)/(run-schedule ..) command: reference execution by step_rules + check with dump-decided change vs native run vs law-equivalent variants, saturate idempotence, updated-flag consistency; whole program in lockstep with the reference model. \
         non-trivial = distinct program in which >=2 stepped iterations changed the database or an early stop / :until stop was observed",
    );
    rep.assume("programs with `delete` are outside this check (a delete-only iteration reports updated=false by design: removals do not count)");
    let st = C10 { cfg: cfg() };
    rep.run_regressions(&st);
    rep.explore(&st, rep.tier.pick(20_000, 60_000), 600);
}
