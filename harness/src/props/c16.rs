//! C16 — the table store behaves like a keyed map with timestamp-ordered scans.
//!
//! Generated operation sequences (stage insert / stage remove through mutation
//! buffers, `merge_all`, `clear_table`, database clones, value-level rebuilds
//! against the union-find table, row refreshes, delete-heavy phases that cross the
//! compaction threshold) run in lockstep on a real `egglog_core_relations::Database`
//! and on a plain `BTreeMap<key, row>` model per table. After EVERY operation every
//! table of the active database is read back through `len`, `all()`+`scan`,
//! `get_row`, `get_row_column`, `updates_since`, and — where the generator asks
//! for it — `refine`/`refine_ref`/`refine_live`, `fast_subset`, `split_fast_slow`,
//! `scan_project` pagination, `estimate_size`, and one-/two-atom rule-set queries
//! (fresh and through cached plans) whose matches are collected by an external
//! function. Every read must equal the model's answer.
//!
//! Semantics the model encodes (all read off the documentation / the real caller
//! egglog-bridge, see the final report of the builder):
//!  * `Table::merge` applies ALL staged removals first, then the staged inserts in
//!    staging order (buffer drop order, then row order inside a buffer); on a key
//!    collision the table calls the merge function `(current row, incoming row)`
//!    and keeps its output if it returns true, the current row otherwise.
//!  * all rows staged between two merges carry the same sort-column value
//!    (timestamp) and timestamps never decrease (what egglog-bridge does; the
//!    table asserts it). The merge function writes the incoming timestamp into
//!    the merged row (as egglog-bridge's does).
//!  * `run_rule_set`, `apply_rebuild` and `refresh_rows_for_values` end with a
//!    `merge_all`.
//!  * databases are cloned only when nothing is staged (documented on
//!    `PendingState::deep_copy`).
//!
//! Deviations from the design brief forced by the API are marked `DEVIATION`.

use super::Probe;
use crate::choice::{fnv_str, Src};
use crate::fw::{self, Outcome, Report, Stage, Tier};
use egglog_core_relations as cr;
use cr::{
    AtomId, CachedPlan, ColumnId, Constraint, Database, DisplacedTable, ExternalFunctionId, Offset, PlanStrategy, QueryEntry,
    RuleSetBuilder, SortedWritesTable, Subset, TableId, TaggedRowBuffer, Value, Variable, WrappedTable,
};
use egglog_numeric_id::NumericId;
use egglog_reports::ReportLevel;
use serde::{Deserialize, Serialize};
use serde_json::Value as J;
use std::collections::{BTreeMap, BTreeSet};
use std::sync::{Arc, Mutex};

/// `DisplacedTable::clear` does not clear `lookup_table` (known finding
/// `displaced-clear-stale-lookup`). While this is `true` the random stages never
/// clear the union-find table (steered-away cases are counted as
/// `excluded_known_displaced_clear`); the dedicated golden case re-demonstrates the
/// defect on every run. Set to `false` once the defect is repaired.
const EXCLUDE_DISPLACED_CLEAR: bool = false;

/// `Database::clone` shares the `NotificationList` (an `Arc`) between the original and the clone:
/// a `merge_all` on one of them swallows the "table is dirty" notifications of the other, whose
/// staged rows are then not merged by its own `merge_all` (finding `clone-shares-notification-list`,
/// found by this check). While this is `true` the random stages settle (merge) the active
/// database before switching to another clone, so no database ever has staged data while a
/// sibling merges (counted as `excluded_known_clone_shared_notifications`); one golden case
/// re-demonstrates the defect. Set to `false` once the defect is repaired.
const EXCLUDE_CLONE_SHARED_NOTIFY: bool = false;

const KNOWN_SIG: &str = "displaced-clear-stale-lookup";
const CLONE_SIG: &str = "clone-shares-notification-list";
/// union-find ids live in 0..UF_IDS (the union-find allocates O(max id))
const UF_IDS: usize = 16;
const MAX_WORLDS: usize = 3;
const PLAN_SLOTS: usize = 3;

// ---------------------------------------------------------------------------
// case description (serialisable)
// ---------------------------------------------------------------------------

#[derive(Clone, Copy, Debug, PartialEq, Eq, Serialize, Deserialize)]
pub enum MergeKind {
    KeepOld,
    TakeNew,
    Max,
    Min,
}

#[derive(Clone, Debug, Serialize, Deserialize)]
pub struct TSpec {
    pub n_keys: usize,
    pub n_cols: usize,
    /// absolute index of the sort (timestamp) column, never a key column
    pub sort: Option<usize>,
    pub merge: MergeKind,
    /// columns canonicalised by `apply_rebuild` (never the sort column)
    pub rebuild: Vec<usize>,
}

/// A constraint (column indices are absolute).
#[derive(Clone, Debug, PartialEq, Eq, Serialize, Deserialize)]
pub enum C {
    Eq(usize, usize),
    EqC(usize, u32),
    Lt(usize, u32),
    Gt(usize, u32),
    Le(usize, u32),
    Ge(usize, u32),
}

#[derive(Clone, Debug, Serialize, Deserialize)]
pub enum Item {
    /// full-arity row; the value at the sort column is replaced by the current timestamp
    Ins(Vec<u32>),
    Rem(Vec<u32>),
}

#[derive(Clone, Debug, Serialize, Deserialize)]
pub struct QAtom {
    pub t: usize,
    pub cs: Vec<C>,
    /// per column: Some(v) = constant instead of a variable
    pub consts: Vec<Option<u32>>,
}

#[derive(Clone, Debug, Serialize, Deserialize)]
pub struct QRule {
    pub atoms: Vec<QAtom>,
    /// (column of atom 0, column of atom 1) sharing one variable
    pub join: Option<(usize, usize)>,
    /// a second shared variable (multi-column join => tuple index)
    #[serde(default)]
    pub join2: Option<(usize, usize)>,
    /// two columns of atom 0 sharing one variable
    pub dup: Option<(usize, usize)>,
    pub strat: u8,
    pub no_decomp: bool,
}

#[derive(Clone, Debug, Serialize, Deserialize)]
pub enum Op {
    /// stage through one or two mutation buffers of table `t`; effects land in buffer-drop order
    Stage { t: usize, items: Vec<Item>, second: Vec<Item>, second_first: bool, fresh_handle: bool },
    /// stage unions into the union-find table
    Union { pairs: Vec<(u32, u32)> },
    Merge,
    /// advance the timestamp (merges first if anything is staged)
    Tick { by: u32 },
    Clear { t: usize },
    CloneDb,
    Switch { w: usize },
    Rebuild { tables: Vec<usize> },
    Refresh { tables: Vec<usize>, ids: Vec<u32> },
    Get { t: usize, key: Vec<u32> },
    Refine { t: usize, cs: Vec<C>, base: Option<C>, via_ref: bool },
    Fast { t: usize, c: C },
    Split { t: usize, cs: Vec<C> },
    Estimate { t: usize, c: Option<C> },
    Page { t: usize, cs: Vec<C>, base: Option<C>, n: usize, cols: Vec<usize> },
    Query { rules: Vec<QRule> },
    CachePlan { slot: usize, rule: QRule },
    RunCached { slot: usize, extra: Vec<(usize, C)> },
}

#[derive(Clone, Debug, Serialize, Deserialize)]
pub struct Case {
    pub tables: Vec<TSpec>,
    pub uf: bool,
    /// run with an installed 2-thread egglog pool (=> 4 hash shards per table; all algorithms stay serial)
    pub pool: bool,
    pub ops: Vec<Op>,
    /// operations the generator steered away from because of the known finding
    pub steered: u32,
    /// false: `Switch` merges the active database first when it has staged data (steers away from
    /// the clone-shares-notification-list finding); true: switch as is
    #[serde(default)]
    pub raw_switch: bool,
}

/// The merge function installed in every generated table, also used by the model
/// (the table's job is to call it on the right rows in the right order).
fn merge_rows(spec: &TSpec, cur: &[u32], new: &[u32]) -> Option<Vec<u32>> {
    let mut out = new.to_vec();
    let mut changed = false;
    for c in spec.n_keys..spec.n_cols {
        if Some(c) == spec.sort {
            continue;
        }
        let m = match spec.merge {
            MergeKind::KeepOld => cur[c],
            MergeKind::TakeNew => new[c],
            MergeKind::Max => cur[c].max(new[c]),
            MergeKind::Min => cur[c].min(new[c]),
        };
        if m != cur[c] {
            changed = true;
        }
        out[c] = m;
    }
    changed.then_some(out)
}

fn eval_c(c: &C, row: &[u32]) -> bool {
    match c {
        C::Eq(l, r) => row[*l] == row[*r],
        C::EqC(c, v) => row[*c] == *v,
        C::Lt(c, v) => row[*c] < *v,
        C::Gt(c, v) => row[*c] > *v,
        C::Le(c, v) => row[*c] <= *v,
        C::Ge(c, v) => row[*c] >= *v,
    }
}

fn c_cols(c: &C) -> (usize, usize) {
    match c {
        C::Eq(l, r) => (*l, *r),
        C::EqC(c, _) | C::Lt(c, _) | C::Gt(c, _) | C::Le(c, _) | C::Ge(c, _) => (*c, *c),
    }
}

fn col(c: usize) -> ColumnId {
    ColumnId::from_usize(c)
}

fn to_constraint(c: &C) -> Constraint {
    match c {
        C::Eq(l, r) => Constraint::Eq { l_col: col(*l), r_col: col(*r) },
        C::EqC(c, v) => Constraint::EqConst { col: col(*c), val: Value::new(*v) },
        C::Lt(c, v) => Constraint::LtConst { col: col(*c), val: Value::new(*v) },
        C::Gt(c, v) => Constraint::GtConst { col: col(*c), val: Value::new(*v) },
        C::Le(c, v) => Constraint::LeConst { col: col(*c), val: Value::new(*v) },
        C::Ge(c, v) => Constraint::GeConst { col: col(*c), val: Value::new(*v) },
    }
}

fn vals(row: &[u32]) -> Vec<Value> {
    row.iter().map(|v| Value::new(*v)).collect()
}

fn reps(row: &[Value]) -> Vec<u32> {
    row.iter().map(|v| v.rep()).collect()
}

// ---------------------------------------------------------------------------
// the model
// ---------------------------------------------------------------------------

#[derive(Clone)]
struct MRow {
    vals: Vec<u32>,
    /// physical-write stamp (for `updates_since`)
    w: u64,
}

#[derive(Clone, Default)]
struct MTable {
    rows: BTreeMap<Vec<u32>, MRow>,
    pend_rem: Vec<Vec<u32>>,
    pend_ins: Vec<Vec<u32>>,
    wseq: u64,
}

impl MTable {
    /// removals first, then inserts in staging order. Returns the number of merge-function calls.
    fn merge(&mut self, spec: &TSpec) -> u64 {
        let mut collisions = 0;
        for k in std::mem::take(&mut self.pend_rem) {
            self.rows.remove(&k);
        }
        for row in std::mem::take(&mut self.pend_ins) {
            let key = row[..spec.n_keys].to_vec();
            match self.rows.get_mut(&key) {
                None => {
                    self.wseq += 1;
                    self.rows.insert(key, MRow { vals: row, w: self.wseq });
                }
                Some(cur) => {
                    collisions += 1;
                    if let Some(out) = merge_rows(spec, &cur.vals, &row) {
                        self.wseq += 1;
                        *cur = MRow { vals: out, w: self.wseq };
                    }
                }
            }
        }
        collisions
    }
    fn all_rows(&self) -> Vec<Vec<u32>> {
        self.rows.values().map(|r| r.vals.clone()).collect()
    }
}

#[derive(Clone, Default)]
struct MUf {
    /// (displaced child, timestamp) in displacement order
    rows: Vec<(u32, u32)>,
    parent: BTreeMap<u32, u32>,
    pending: Vec<(u32, u32, u32)>,
    /// keys that had a row before the table was cleared (triggers of the known finding)
    ghosts: BTreeSet<u32>,
}

impl MUf {
    fn find(&self, mut v: u32) -> u32 {
        while let Some(p) = self.parent.get(&v) {
            v = *p;
        }
        v
    }
    fn all_rows(&self) -> Vec<Vec<u32>> {
        self.rows.iter().map(|(c, ts)| vec![*c, self.find(*c), *ts]).collect()
    }
}

#[derive(Clone)]
struct Snap {
    major: u64,
    minor: usize,
    w: u64,
}

// ---------------------------------------------------------------------------
// lockstep executor
// ---------------------------------------------------------------------------

type Res = Result<(), ()>;

struct World {
    db: Database,
    tabs: Vec<MTable>,
    muf: MUf,
    ts: u32,
    pending: bool,
    dirty: BTreeSet<usize>,
    uf_cleared: bool,
    /// left with staged data while a sibling clone was active (trigger of CLONE_SIG)
    orphaned: bool,
    snaps: Vec<Option<Snap>>,
    majors: Vec<u64>,
    /// table mutated (by a merge/clear) since creation
    mutated: Vec<bool>,
}

impl World {
    fn fork(&self) -> World {
        World {
            db: self.db.clone(),
            tabs: self.tabs.clone(),
            muf: self.muf.clone(),
            ts: self.ts,
            pending: self.pending,
            dirty: self.dirty.clone(),
            uf_cleared: self.uf_cleared,
            orphaned: false,
            snaps: self.snaps.clone(),
            majors: self.majors.clone(),
            mutated: self.mutated.clone(),
        }
    }
}

struct Cached {
    plan: CachedPlan,
    rule: QRule,
    atoms: Vec<AtomId>,
    tag: u32,
}

#[derive(Default)]
struct Stats {
    compactions: u64,
    collisions: u64,
    idx_reads_after_mut: u64,
    clears: u64,
    clones: u64,
    merges: u64,
    merges_ge4: u64,
    rebuilds: u64,
    rebuild_rows: u64,
    refresh_rows: u64,
    queries: u64,
    query_matches: u64,
    cached_runs: u64,
    cached_empty: u64,
    fast_some: u64,
    fast_none: u64,
    max_rows: u64,
}

struct Exec<'c> {
    case: &'c Case,
    ids: Vec<TableId>,
    uf_id: Option<TableId>,
    collect: ExternalFunctionId,
    log: Arc<Mutex<Vec<Vec<u32>>>>,
    worlds: Vec<World>,
    cur: usize,
    plans: Vec<Option<Cached>>,
    out: Outcome,
    probe: Probe,
    st: Stats,
    /// set while a point lookup on a cleared union-find table is in flight
    cleared_uf_read: bool,
    opi: usize,
    opdesc: String,
}

fn make_table(spec: &TSpec) -> SortedWritesTable {
    let sp = spec.clone();
    SortedWritesTable::new(
        spec.n_keys,
        spec.n_cols,
        spec.sort.map(col),
        spec.rebuild.iter().map(|c| col(*c)).collect(),
        Box::new(move |_st, cur, new, out| {
            let c = reps(cur);
            let n = reps(new);
            match merge_rows(&sp, &c, &n) {
                Some(row) => {
                    out.extend(row.iter().map(|v| Value::new(*v)));
                    true
                }
                None => false,
            }
        }),
    )
}

fn scan_rows(tbl: &WrappedTable, sub: &Subset) -> Vec<(usize, Vec<u32>)> {
    let buf = tbl.scan(sub.as_ref());
    buf.iter().map(|(id, row)| (id.index(), reps(row))).collect()
}

fn diff_rows(mut got: Vec<Vec<u32>>, mut want: Vec<Vec<u32>>) -> Option<String> {
    got.sort();
    want.sort();
    if got == want {
        return None;
    }
    let mut missing = vec![];
    let mut extra = vec![];
    let (mut i, mut j) = (0, 0);
    while i < got.len() || j < want.len() {
        if j >= want.len() || (i < got.len() && got[i] < want[j]) {
            extra.push(got[i].clone());
            i += 1;
        } else if i >= got.len() || want[j] < got[i] {
            missing.push(want[j].clone());
            j += 1;
        } else {
            i += 1;
            j += 1;
        }
    }
    missing.truncate(6);
    extra.truncate(6);
    Some(format!("got {} rows, model has {}; rows missing from the table's answer: {:?}; rows the model does not have (stale/superseded/duplicated): {:?}", got.len(), want.len(), missing, extra))
}

impl<'c> Exec<'c> {
    fn new(case: &'c Case, key: u64) -> Exec<'c> {
        let mut db = Database::default();
        let uf_id = if case.uf { Some(db.add_table(DisplacedTable::default(), [], [])) } else { None };
        let ids: Vec<TableId> = case.tables.iter().map(|s| db.add_table(make_table(s), [], [])).collect();
        let log: Arc<Mutex<Vec<Vec<u32>>>> = Arc::new(Mutex::new(vec![]));
        let l2 = log.clone();
        let collect = db.add_external_function(Box::new(cr::make_external_func(move |_st, args| {
            l2.lock().unwrap().push(reps(args));
            Some(Value::new(0))
        })));
        let n = case.tables.len() + 1;
        let w = World {
            db,
            tabs: vec![MTable::default(); case.tables.len()],
            muf: MUf::default(),
            ts: 0,
            pending: false,
            dirty: BTreeSet::new(),
            uf_cleared: false,
            orphaned: false,
            snaps: vec![None; n],
            majors: vec![0; n],
            mutated: vec![false; n],
        };
        Exec {
            case,
            ids,
            uf_id,
            collect,
            log,
            worlds: vec![w],
            cur: 0,
            plans: (0..PLAN_SLOTS).map(|_| None).collect(),
            out: Outcome::new(key),
            probe: Probe(key ^ 0x9e3779b97f4a7c15),
            st: Stats::default(),
            cleared_uf_read: false,
            opi: 0,
            opdesc: String::new(),
        }
    }

    fn nt(&self) -> usize {
        self.case.tables.len()
    }
    /// Some(true) = union-find table, Some(false) = sorted table, None = invalid reference
    fn kind(&self, t: usize) -> Option<bool> {
        if t < self.nt() {
            Some(false)
        } else if t == self.nt() && self.case.uf {
            Some(true)
        } else {
            None
        }
    }
    fn tid(&self, t: usize) -> TableId {
        if t < self.nt() { self.ids[t] } else { self.uf_id.unwrap() }
    }
    fn arity(&self, t: usize) -> usize {
        if t < self.nt() { self.case.tables[t].n_cols } else { 3 }
    }
    fn n_keys(&self, t: usize) -> usize {
        if t < self.nt() { self.case.tables[t].n_keys } else { 1 }
    }
    fn model_rows(&self, w: usize, t: usize) -> Vec<Vec<u32>> {
        if t < self.nt() { self.worlds[w].tabs[t].all_rows() } else { self.worlds[w].muf.all_rows() }
    }
    fn cs_ok(&self, t: usize, cs: &[C]) -> bool {
        cs.iter().all(|c| {
            let (a, b) = c_cols(c);
            a < self.arity(t) && b < self.arity(t)
        })
    }

    fn fail(&mut self, sig: &str, detail: String) -> Res {
        let sig = if self.cleared_uf_read {
            KNOWN_SIG
        } else if self.worlds.iter().any(|w| w.orphaned) {
            CLONE_SIG
        } else {
            sig
        };
        self.out.fail(sig, format!("op #{} {}: {}", self.opi, self.opdesc, detail));
        Err(())
    }

    // ----- mutation helpers -------------------------------------------------

    /// model side of a `merge_all` that already happened on the real database of world `w`
    fn model_merge(&mut self, w: usize) -> Res {
        let nt = self.nt();
        let dirty: Vec<usize> = std::mem::take(&mut self.worlds[w].dirty).into_iter().collect();
        self.st.merges += 1;
        if dirty.len() >= 4 {
            self.st.merges_ge4 += 1;
        }
        for t in 0..nt {
            let had = !self.worlds[w].tabs[t].pend_ins.is_empty() || !self.worlds[w].tabs[t].pend_rem.is_empty();
            let c = self.worlds[w].tabs[t].merge(&self.case.tables[t]);
            self.st.collisions += c;
            if had {
                self.worlds[w].mutated[t] = true;
            }
        }
        if self.case.uf && !self.worlds[w].muf.pending.is_empty() {
            // The union-find table decides internally which of the two leaders is displaced
            // (documented on DisplacedTable); the model learns the choice from the new row and
            // checks that it is one of the two legal ones.
            let real: Vec<Vec<u32>> = {
                let tbl = self.worlds[w].db.get_table(self.uf_id.unwrap());
                let mut r = scan_rows(tbl, &tbl.all());
                r.sort();
                r.into_iter().map(|(_, row)| row).collect()
            };
            let pend = std::mem::take(&mut self.worlds[w].muf.pending);
            for (l, r, ts) in pend {
                let (a, b) = (self.worlds[w].muf.find(l), self.worlds[w].muf.find(r));
                if a == b {
                    continue;
                }
                let next = self.worlds[w].muf.rows.len();
                let Some(row) = real.get(next) else {
                    return self.fail("uf-union-row-missing", format!("union({l},{r}) at ts {ts} merges two classes (leaders {a},{b}) but the union-find table has no row #{next}; rows: {real:?}"));
                };
                let child = row[0];
                if child != a && child != b {
                    return self.fail("uf-displaced-not-a-leader", format!("union({l},{r}) must displace one of the leaders {a},{b}; row #{next} is {row:?}"));
                }
                let parent = if child == a { b } else { a };
                self.worlds[w].muf.parent.insert(child, parent);
                self.worlds[w].muf.rows.push((child, ts));
                self.worlds[w].mutated[nt] = true;
            }
        }
        self.worlds[w].pending = false;
        Ok(())
    }

    fn merge_all(&mut self) -> Res {
        let w = self.cur;
        self.worlds[w].db.merge_all();
        self.model_merge(w)
    }

    fn settle(&mut self) -> Res {
        if self.worlds[self.cur].pending { self.merge_all() } else { Ok(()) }
    }

    fn stage(&mut self, t: usize, items: &[Item], second: &[Item], second_first: bool, fresh_handle: bool) -> Res {
        let w = self.cur;
        let spec = &self.case.tables[t];
        let ts = self.worlds[w].ts;
        let fix = |it: &Item| -> Option<Item> {
            match it {
                Item::Ins(r) if r.len() == spec.n_cols => {
                    let mut r = r.clone();
                    if let Some(s) = spec.sort {
                        r[s] = ts;
                    }
                    Some(Item::Ins(r))
                }
                Item::Rem(k) if k.len() == spec.n_keys => Some(Item::Rem(k.clone())),
                _ => None,
            }
        };
        let a: Vec<Item> = items.iter().filter_map(fix).collect();
        let b: Vec<Item> = second.iter().filter_map(fix).collect();
        let id = self.ids[t];
        {
            let db = &self.worlds[w].db;
            let mut b1 = db.new_buffer(id);
            let apply = |buf: &mut Box<dyn cr::MutationBuffer>, its: &[Item]| {
                for it in its {
                    match it {
                        Item::Ins(r) => buf.stage_insert(&vals(r)),
                        Item::Rem(k) => buf.stage_remove(&vals(k)),
                    }
                }
            };
            apply(&mut b1, &a);
            if !b.is_empty() {
                let mut b2 = if fresh_handle { b1.fresh_handle() } else { db.new_buffer(id) };
                apply(&mut b2, &b);
                if second_first {
                    drop(b2);
                    drop(b1);
                } else {
                    drop(b1);
                    drop(b2);
                }
            }
        }
        let (first, then) = if second_first && !b.is_empty() { (&b, &a) } else { (&a, &b) };
        let m = &mut self.worlds[w].tabs[t];
        for it in first.iter().chain(then.iter()) {
            match it {
                Item::Ins(r) => m.pend_ins.push(r.clone()),
                Item::Rem(k) => m.pend_rem.push(k.clone()),
            }
        }
        self.worlds[w].pending = true;
        self.worlds[w].dirty.insert(t);
        Ok(())
    }

    fn union(&mut self, pairs: &[(u32, u32)]) -> Res {
        let w = self.cur;
        let ts = self.worlds[w].ts;
        {
            let mut buf = self.worlds[w].db.new_buffer(self.uf_id.unwrap());
            for (l, r) in pairs {
                buf.stage_insert(&[Value::new(*l), Value::new(*r), Value::new(ts)]);
            }
        }
        for (l, r) in pairs {
            self.worlds[w].muf.pending.push((*l, *r, ts));
        }
        self.worlds[w].pending = true;
        let nt = self.nt();
        self.worlds[w].dirty.insert(nt);
        Ok(())
    }

    fn clear(&mut self, t: usize) -> Res {
        let w = self.cur;
        let nt = self.nt();
        if t == nt {
            // Table::clear is documented to drop pending data; the unrepaired DisplacedTable::clear does
            // not (same incomplete function as the known finding), so while that finding is excluded the
            // staged unions are merged first. Otherwise the model drops them, as documented.
            if EXCLUDE_DISPLACED_CLEAR && !self.worlds[w].muf.pending.is_empty() {
                self.merge_all()?;
            }
            let was_nonempty = !self.worlds[w].muf.rows.is_empty();
            self.worlds[w].db.clear_table(self.uf_id.unwrap());
            let m = &mut self.worlds[w].muf;
            let ghosts: Vec<u32> = m.rows.iter().map(|(c, _)| *c).collect();
            m.ghosts.extend(ghosts);
            m.rows.clear();
            m.parent.clear();
            m.pending.clear();
            if was_nonempty {
                self.worlds[w].uf_cleared = true;
            }
            self.worlds[w].snaps[t] = None;
        } else {
            self.worlds[w].db.clear_table(self.ids[t]);
            let m = &mut self.worlds[w].tabs[t];
            m.rows.clear();
            m.pend_ins.clear();
            m.pend_rem.clear();
        }
        self.worlds[w].mutated[t] = true;
        self.st.clears += 1;
        Ok(())
    }

    fn rebuild(&mut self, tables: &[usize]) -> Res {
        if !self.case.uf {
            return Ok(());
        }
        self.settle()?;
        let w = self.cur;
        self.worlds[w].ts += 1;
        let ts = self.worlds[w].ts;
        let ts_list: Vec<usize> = tables.iter().copied().filter(|t| *t < self.nt()).collect::<BTreeSet<_>>().into_iter().collect();
        for &t in &ts_list {
            let spec = &self.case.tables[t];
            if spec.rebuild.is_empty() {
                continue;
            }
            let world = &mut self.worlds[w];
            let mut rem = vec![];
            let mut ins = vec![];
            for (k, r) in world.tabs[t].rows.iter() {
                let mut n = r.vals.clone();
                for &c in &spec.rebuild {
                    n[c] = world.muf.find(n[c]);
                }
                if n != r.vals {
                    if let Some(s) = spec.sort {
                        n[s] = ts;
                    }
                    rem.push(k.clone());
                    ins.push(n);
                }
            }
            self.st.rebuild_rows += ins.len() as u64;
            if !ins.is_empty() {
                world.dirty.insert(t);
            }
            world.tabs[t].pend_rem.extend(rem);
            world.tabs[t].pend_ins.extend(ins);
        }
        let tids: Vec<TableId> = ts_list.iter().map(|t| self.ids[*t]).collect();
        self.worlds[w].db.apply_rebuild(self.uf_id.unwrap(), &tids, Value::new(ts));
        self.st.rebuilds += 1;
        self.model_merge(w)
    }

    fn refresh(&mut self, tables: &[usize], ids: &[u32]) -> Res {
        self.settle()?;
        let w = self.cur;
        self.worlds[w].ts += 1;
        let ts = self.worlds[w].ts;
        let ts_list: Vec<usize> = tables.iter().copied().filter(|t| *t < self.nt()).collect::<BTreeSet<_>>().into_iter().collect();
        if !ids.is_empty() {
            for &t in &ts_list {
                let spec = &self.case.tables[t];
                if spec.rebuild.is_empty() {
                    continue;
                }
                let world = &mut self.worlds[w];
                let mut rem = vec![];
                let mut ins = vec![];
                for (k, r) in world.tabs[t].rows.iter() {
                    if spec.rebuild.iter().any(|c| ids.contains(&r.vals[*c])) {
                        let mut n = r.vals.clone();
                        if let Some(s) = spec.sort {
                            n[s] = ts;
                        }
                        rem.push(k.clone());
                        ins.push(n);
                    }
                }
                self.st.refresh_rows += ins.len() as u64;
                if !ins.is_empty() {
                    world.dirty.insert(t);
                }
                world.tabs[t].pend_rem.extend(rem);
                world.tabs[t].pend_ins.extend(ins);
            }
        }
        let tids: Vec<TableId> = ts_list.iter().map(|t| self.ids[*t]).collect();
        self.worlds[w].db.refresh_rows_for_values(&tids, &vals(ids), Value::new(ts));
        if ids.is_empty() {
            return Ok(());
        }
        self.model_merge(w)
    }
}

// ----- reads -----------------------------------------------------------------

impl<'c> Exec<'c> {
    /// Everything that is compared after every operation: len, full scan (set + timestamp order),
    /// version monotonicity, updates_since, and (when `probes`) point lookups.
    fn verify_table(&mut self, w: usize, t: usize, probes: bool) -> Res {
        let is_uf = t == self.nt();
        let id = self.tid(t);
        let want = self.model_rows(w, t);
        self.st.max_rows = self.st.max_rows.max(want.len() as u64);
        let (len, rows, major, minor) = {
            let tbl = self.worlds[w].db.get_table(id);
            let v = tbl.version();
            (tbl.len(), scan_rows(tbl, &tbl.all()), v.major.rep(), v.minor.index())
        };
        if len != want.len() {
            return self.fail("len-mismatch", format!("table {t} (world {w}): len() = {len}, model has {} live rows", want.len()));
        }
        if let Some(d) = diff_rows(rows.iter().map(|(_, r)| r.clone()).collect(), want.clone()) {
            return self.fail("scan-mismatch", format!("table {t} (world {w}): scan(all()) differs from the model: {d}"));
        }
        // scans are in row order; the sort column must be non-decreasing along it
        let sort = if is_uf { Some(2) } else { self.case.tables[t].sort };
        if let Some(s) = sort {
            let mut sorted = rows.clone();
            sorted.sort_by_key(|(id, _)| *id);
            if sorted.windows(2).any(|p| p[0].1[s] > p[1].1[s]) {
                return self.fail("scan-not-in-timestamp-order", format!("table {t} (world {w}): rows in row-id order are not sorted by the sort column {s}: {:?}", sorted.iter().map(|(_, r)| r[s]).collect::<Vec<_>>()));
            }
            if is_uf && sorted.iter().map(|(_, r)| r.clone()).collect::<Vec<_>>() != want {
                return self.fail("uf-row-order", format!("union-find rows out of displacement order: {sorted:?} vs {want:?}"));
            }
        }
        // version
        let prev = self.worlds[w].majors[t];
        if major < prev {
            return self.fail("major-generation-decreased", format!("table {t}: major generation went from {prev} to {major}"));
        }
        self.worlds[w].majors[t] = major;
        // updates_since against a long-lived snapshot
        if let Some(snap) = self.worlds[w].snaps[t].clone() {
            if snap.major == major {
                let got: Vec<Vec<u32>> = {
                    let tbl = self.worlds[w].db.get_table(id);
                    let sub = tbl.updates_since(Offset::from_usize(snap.minor));
                    scan_rows(tbl, &sub).into_iter().map(|(_, r)| r).collect()
                };
                let exp: Vec<Vec<u32>> = if is_uf {
                    want[snap.minor.min(want.len())..].to_vec()
                } else {
                    self.worlds[w].tabs[t].rows.values().filter(|r| r.w > snap.w).map(|r| r.vals.clone()).collect()
                };
                if let Some(d) = diff_rows(got, exp) {
                    return self.fail("updates-since-mismatch", format!("table {t} (world {w}): updates_since(minor {}) within major {major}: {d}", snap.minor));
                }
            }
        }
        let take = self.worlds[w].snaps[t].as_ref().map(|s| s.major != major).unwrap_or(true) || self.probe.below(5) == 0;
        if take {
            let wseq = if is_uf { 0 } else { self.worlds[w].tabs[t].wseq };
            self.worlds[w].snaps[t] = Some(Snap { major, minor, w: wseq });
        }
        if probes {
            let nk = self.n_keys(t);
            let mut keys: Vec<Vec<u32>> = vec![];
            for _ in 0..2 {
                if !want.is_empty() {
                    keys.push(want[self.probe.below(want.len())][..nk].to_vec());
                }
            }
            let dom = if is_uf { UF_IDS } else { key_dom(nk) };
            keys.push((0..nk).map(|_| self.probe.below(dom) as u32).collect());
            if is_uf {
                let ghosts: Vec<u32> = self.worlds[w].muf.ghosts.iter().copied().take(2).collect();
                keys.extend(ghosts.into_iter().map(|g| vec![g]));
            }
            for k in keys {
                self.get(w, t, &k)?;
            }
        }
        Ok(())
    }

    fn verify_world(&mut self, w: usize, probes: bool) -> Res {
        let n = self.nt() + self.case.uf as usize;
        for t in 0..n {
            self.verify_table(w, t, probes)?;
        }
        Ok(())
    }

    fn get(&mut self, w: usize, t: usize, key: &[u32]) -> Res {
        if key.len() != self.n_keys(t) {
            return Ok(());
        }
        let is_uf = t == self.nt();
        let want: Option<Vec<u32>> = if is_uf {
            let m = &self.worlds[w].muf;
            m.rows.iter().find(|(c, _)| *c == key[0]).map(|(c, ts)| vec![*c, m.find(*c), *ts])
        } else {
            self.worlds[w].tabs[t].rows.get(key).map(|r| r.vals.clone())
        };
        let id = self.tid(t);
        self.cleared_uf_read = is_uf && self.worlds[w].uf_cleared;
        let kv = vals(key);
        let pick = self.probe.below(self.arity(t));
        let (got, gotc) = {
            let tbl = self.worlds[w].db.get_table(id);
            let got = tbl.get_row(&kv).map(|r| reps(&r.vals));
            // DisplacedTable answers column 1 for absent keys too (it is the union-find's find); skip that one
            let gotc = if is_uf && pick == 1 && want.is_none() { None } else { Some(tbl.get_row_column(&kv, col(pick)).map(|v| v.rep())) };
            (got, gotc)
        };
        if got != want {
            return self.fail("get-row-mismatch", format!("table {t} (world {w}): get_row({key:?}) = {got:?}, model says {want:?}"));
        }
        if let Some(gc) = gotc {
            let wc = want.as_ref().map(|r| r[pick]);
            if gc != wc {
                return self.fail("get-row-column-mismatch", format!("table {t} (world {w}): get_row_column({key:?}, {pick}) = {gc:?}, model says {wc:?}"));
            }
        }
        self.cleared_uf_read = false;
        if self.worlds[w].mutated[t] {
            self.st.idx_reads_after_mut += 1;
        }
        Ok(())
    }

    fn base_subset(&self, t: usize, base: &Option<C>) -> (Subset, Vec<C>) {
        let tbl = self.worlds[self.cur].db.get_table(self.tid(t));
        if let Some(c) = base {
            if let Some(s) = tbl.fast_subset(&to_constraint(c)) {
                return (s, vec![c.clone()]);
            }
        }
        (tbl.all(), vec![])
    }

    fn filtered(&self, t: usize, cs: &[C]) -> Vec<Vec<u32>> {
        self.model_rows(self.cur, t).into_iter().filter(|r| cs.iter().all(|c| eval_c(c, r))).collect()
    }

    fn refine(&mut self, t: usize, cs: &[C], base: &Option<C>, via_ref: bool) -> Res {
        let mut all_cs = cs.to_vec();
        let (size, got) = {
            let (sub, extra) = self.base_subset(t, base);
            all_cs.extend(extra);
            let tbl = self.worlds[self.cur].db.get_table(self.tid(t));
            let rcs: Vec<Constraint> = cs.iter().map(to_constraint).collect();
            let refined = if via_ref { tbl.refine_ref(sub.as_ref(), &rcs, true) } else { tbl.refine(tbl.refine_live(sub), &rcs) };
            (refined.size(), scan_rows(tbl, &refined))
        };
        let want = self.filtered(t, &all_cs);
        if size != want.len() {
            return self.fail("refine-size-mismatch", format!("table {t}: refine{}({cs:?}) on base {base:?} after refine_live has size {size}, model has {} matching live rows", if via_ref { "_ref" } else { "" }, want.len()));
        }
        if let Some(d) = diff_rows(got.into_iter().map(|(_, r)| r).collect(), want) {
            return self.fail("refine-mismatch", format!("table {t}: refine({cs:?}) on base {base:?}: {d}"));
        }
        Ok(())
    }

    fn fast(&mut self, t: usize, c: &C) -> Res {
        let got = {
            let tbl = self.worlds[self.cur].db.get_table(self.tid(t));
            tbl.fast_subset(&to_constraint(c)).map(|s| (s.size(), scan_rows(tbl, &s)))
        };
        let Some((size, got)) = got else {
            self.st.fast_none += 1;
            return Ok(());
        };
        self.st.fast_some += 1;
        // fast_subset may contain stale rows (documented); a scan of it must not
        let want = self.filtered(t, std::slice::from_ref(c));
        if size < want.len() {
            return self.fail("fast-subset-too-small", format!("table {t}: fast_subset({c:?}) has size {size} < {} matching live rows", want.len()));
        }
        if let Some(d) = diff_rows(got.into_iter().map(|(_, r)| r).collect(), want) {
            return self.fail("fast-subset-mismatch", format!("table {t}: scan(fast_subset({c:?})): {d}"));
        }
        Ok(())
    }

    fn split(&mut self, t: usize, cs: &[C]) -> Res {
        let (got, fast, slow) = {
            let tbl = self.worlds[self.cur].db.get_table(self.tid(t));
            let rcs: Vec<Constraint> = cs.iter().map(to_constraint).collect();
            let (sub, fast, slow) = tbl.split_fast_slow(&rcs);
            (scan_rows(tbl, &sub), fast.to_vec(), slow.to_vec())
        };
        let fast_c: Vec<C> = cs.iter().filter(|c| fast.contains(&to_constraint(c))).cloned().collect();
        if fast.len() + slow.len() != cs.len() {
            return self.fail("split-fast-slow-lost-constraint", format!("table {t}: split_fast_slow({cs:?}) -> fast {fast:?} slow {slow:?}"));
        }
        let want = self.filtered(t, &fast_c);
        if let Some(d) = diff_rows(got.into_iter().map(|(_, r)| r).collect(), want) {
            return self.fail("split-fast-slow-mismatch", format!("table {t}: scan(split_fast_slow({cs:?}).0) vs rows matching the fast constraints {fast_c:?}: {d}"));
        }
        Ok(())
    }

    fn estimate(&mut self, t: usize, c: &Option<C>) -> Res {
        let est = self.worlds[self.cur].db.estimate_size(self.tid(t), c.as_ref().map(to_constraint));
        let want = match c {
            Some(c) => self.filtered(t, std::slice::from_ref(c)).len(),
            None => self.model_rows(self.cur, t).len(),
        };
        // documented only as an estimate (over-approximating on fast constraints); the planner treats
        // 0 as "provably empty", so the one thing it must never do is report 0 for a non-empty answer
        if want > 0 && est == 0 {
            return self.fail("estimate-zero-for-nonempty", format!("table {t}: estimate_size({c:?}) = 0 but {want} live rows match"));
        }
        Ok(())
    }

    fn page(&mut self, t: usize, cs: &[C], base: &Option<C>, n: usize, cols: &[usize]) -> Res {
        let n = n.max(1);
        let mut all_cs = cs.to_vec();
        let mut got: Vec<Vec<u32>> = vec![];
        let mut runaway = false;
        {
            let (sub, extra) = self.base_subset(t, base);
            all_cs.extend(extra);
            let tbl = self.worlds[self.cur].db.get_table(self.tid(t));
            let rcs: Vec<Constraint> = cs.iter().map(to_constraint).collect();
            let ccols: Vec<ColumnId> = cols.iter().map(|c| col(*c)).collect();
            let mut cur = Offset::new(0);
            let mut rounds = 0;
            let mut buf = TaggedRowBuffer::new(cols.len());
            loop {
                buf.clear();
                let next = tbl.scan_project(sub.as_ref(), &ccols, cur, n, &rcs, &mut buf);
                got.extend(buf.iter().map(|(_, r)| reps(r)));
                rounds += 1;
                match next {
                    Some(nx) => cur = nx,
                    None => break,
                }
                if rounds > sub.size() + 2 {
                    runaway = true;
                    break;
                }
            }
        }
        // the unprojected, unconstrained variant: WrappedTable::scan_bounded
        if cs.is_empty() && !runaway {
            let mut full: Vec<Vec<u32>> = vec![];
            {
                let (sub, _) = self.base_subset(t, base);
                let tbl = self.worlds[self.cur].db.get_table(self.tid(t));
                let mut cur = Offset::new(0);
                let mut rounds = 0;
                let mut buf = TaggedRowBuffer::new(self.arity(t));
                loop {
                    buf.clear();
                    let next = tbl.scan_bounded(sub.as_ref(), cur, n, &mut buf);
                    full.extend(buf.iter().map(|(_, r)| reps(r)));
                    rounds += 1;
                    match next {
                        Some(nx) => cur = nx,
                        None => break,
                    }
                    if rounds > sub.size() + 2 {
                        runaway = true;
                        break;
                    }
                }
            }
            if !runaway {
                if let Some(d) = diff_rows(full, self.filtered(t, &all_cs)) {
                    return self.fail("paged-scan-mismatch", format!("table {t}: scan_bounded(page {n}, base {base:?}): {d}"));
                }
            }
        }
        if runaway {
            return self.fail("scan-bounded-does-not-terminate", format!("table {t}: paging with n={n} needed more rounds than the subset has rows"));
        }
        let want: Vec<Vec<u32>> = self.filtered(t, &all_cs).into_iter().map(|r| cols.iter().map(|c| r[*c]).collect()).collect();
        if let Some(d) = diff_rows(got, want) {
            return self.fail("paged-scan-mismatch", format!("table {t}: scan_project(cols {cols:?}, page {n}, cs {cs:?}, base {base:?}): {d}"));
        }
        Ok(())
    }
}

fn key_dom(n_keys: usize) -> usize {
    match n_keys {
        0 => 1,
        1 => 48,
        2 => 8,
        3 => 4,
        _ => 3,
    }
}

// ----- rule-set queries --------------------------------------------------------

#[derive(Clone, Debug)]
enum Slot {
    Var(usize),
    Const(u32),
}

struct Compiled {
    slots: Vec<Vec<Slot>>,
    nvars: usize,
}

fn compile(rule: &QRule, arities: &[usize]) -> Compiled {
    let mut slots: Vec<Vec<Slot>> = vec![];
    let mut next = 0;
    for (a, atom) in rule.atoms.iter().enumerate() {
        let mut s = vec![];
        for c in 0..arities[a] {
            match atom.consts.get(c).copied().flatten() {
                Some(v) => s.push(Slot::Const(v)),
                None => {
                    s.push(Slot::Var(next));
                    next += 1;
                }
            }
        }
        slots.push(s);
    }
    if let Some((d1, d2)) = rule.dup {
        if d1 < arities[0] && d2 < arities[0] && d1 != d2 {
            slots[0][d2] = slots[0][d1].clone();
        }
    }
    for j in [rule.join, rule.join2] {
        if let (Some((c0, c1)), true) = (j, rule.atoms.len() > 1) {
            if c0 < arities[0] && c1 < arities[1] {
                slots[1][c1] = slots[0][c0].clone();
            }
        }
    }
    // renumber the variables that survived aliasing
    let mut map: BTreeMap<usize, usize> = BTreeMap::new();
    for s in slots.iter_mut().flatten() {
        if let Slot::Var(v) = s {
            let n = map.len();
            *v = *map.entry(*v).or_insert(n);
        }
    }
    Compiled { slots, nvars: map.len() }
}

fn expected_matches(rule: &QRule, comp: &Compiled, extra: &[(usize, C)], rows: &[Vec<Vec<u32>>]) -> Vec<Vec<u32>> {
    fn bind(slots: &[Slot], row: &[u32], b: &mut Vec<Option<u32>>) -> bool {
        for (s, v) in slots.iter().zip(row) {
            match s {
                Slot::Const(c) => {
                    if c != v {
                        return false;
                    }
                }
                Slot::Var(i) => match b[*i] {
                    Some(x) if x != *v => return false,
                    _ => b[*i] = Some(*v),
                },
            }
        }
        true
    }
    let ok = |a: usize, r: &[u32]| rule.atoms[a].cs.iter().all(|c| eval_c(c, r)) && extra.iter().all(|(x, c)| *x != a || eval_c(c, r));
    let mut out = vec![];
    for r0 in rows[0].iter().filter(|r| ok(0, r)) {
        let mut b = vec![None; comp.nvars];
        if !bind(&comp.slots[0], r0, &mut b) {
            continue;
        }
        if rule.atoms.len() == 1 {
            out.push(b.iter().map(|x| x.unwrap()).collect());
            continue;
        }
        for r1 in rows[1].iter().filter(|r| ok(1, r)) {
            let mut b1 = b.clone();
            if bind(&comp.slots[1], r1, &mut b1) {
                out.push(b1.iter().map(|x| x.unwrap()).collect());
            }
        }
    }
    out
}

fn strategy(s: u8) -> PlanStrategy {
    match s % 3 {
        0 => PlanStrategy::Gj,
        1 => PlanStrategy::PureSize,
        _ => PlanStrategy::MinCover,
    }
}

impl<'c> Exec<'c> {
    fn rule_ok(&self, rule: &QRule) -> bool {
        !rule.atoms.is_empty()
            && rule.atoms.len() <= 2
            && rule.atoms.iter().all(|a| self.kind(a.t).is_some() && self.cs_ok(a.t, &a.cs) && a.consts.len() == self.arity(a.t))
    }

    /// add `rule` to `rsb`; the action reports `[tag, var0, var1, ..]` to the collector
    fn add_rule(&self, rsb: &mut RuleSetBuilder, rule: &QRule, comp: &Compiled, tag: u32) -> Result<(cr::RuleId, Vec<AtomId>), String> {
        let mut qb = rsb.new_rule();
        qb.set_plan_strategy(strategy(rule.strat));
        qb.set_no_decomp(rule.no_decomp);
        let vars: Vec<Variable> = (0..comp.nvars).map(|_| qb.new_var()).collect();
        let mut atom_ids = vec![];
        for (a, atom) in rule.atoms.iter().enumerate() {
            let entries: Vec<QueryEntry> = comp.slots[a]
                .iter()
                .map(|s| match s {
                    Slot::Var(i) => QueryEntry::Var(vars[*i]),
                    Slot::Const(c) => QueryEntry::Const(Value::new(*c)),
                })
                .collect();
            let cs: Vec<Constraint> = atom.cs.iter().map(to_constraint).collect();
            atom_ids.push(qb.add_atom(self.tid(atom.t), &entries, &cs).map_err(|e| format!("add_atom: {e}"))?);
        }
        let mut rb = qb.build();
        let mut args: Vec<QueryEntry> = vec![QueryEntry::Const(Value::new(tag))];
        args.extend(vars.iter().map(|v| QueryEntry::Var(*v)));
        rb.call_external(self.collect, &args).map_err(|e| format!("call_external: {e}"))?;
        Ok((rb.build(), atom_ids))
    }

    fn note_index_reads(&mut self, rule: &QRule, extra: &[(usize, C)]) {
        let w = self.cur;
        for (a, atom) in rule.atoms.iter().enumerate() {
            let constrained = !atom.cs.is_empty() || atom.consts.iter().any(|c| c.is_some()) || extra.iter().any(|(x, _)| *x == a) || rule.atoms.len() > 1;
            if constrained && self.worlds[w].mutated[atom.t] {
                self.st.idx_reads_after_mut += 1;
            }
        }
    }

    fn set_uf_flag(&mut self, rule: &QRule) {
        let nt = self.nt();
        if self.worlds[self.cur].uf_cleared && rule.atoms.iter().any(|a| a.t == nt) {
            self.cleared_uf_read = true;
        }
    }

    fn compare_matches(&mut self, what: &str, tag: u32, want: Vec<Vec<u32>>, log: &[Vec<u32>]) -> Res {
        let got: Vec<Vec<u32>> = log.iter().filter(|r| r[0] == tag).map(|r| r[1..].to_vec()).collect();
        self.st.query_matches += got.len() as u64;
        if let Some(d) = diff_rows(got, want) {
            return self.fail("query-mismatch", format!("{what}: matches reported to the external function differ from the model's join: {d}"));
        }
        Ok(())
    }

    fn query(&mut self, rules: &[QRule]) -> Res {
        let rules: Vec<&QRule> = rules.iter().filter(|r| self.rule_ok(r)).collect();
        if rules.is_empty() {
            return Ok(());
        }
        let w = self.cur;
        let mut wants = vec![];
        let mut comps = vec![];
        for r in &rules {
            let ar: Vec<usize> = r.atoms.iter().map(|a| self.arity(a.t)).collect();
            let comp = compile(r, &ar);
            let rows: Vec<Vec<Vec<u32>>> = r.atoms.iter().map(|a| self.model_rows(w, a.t)).collect();
            wants.push(expected_matches(r, &comp, &[], &rows));
            comps.push(comp);
            self.note_index_reads(r, &[]);
            self.set_uf_flag(r);
        }
        self.log.lock().unwrap().clear();
        let mut db = std::mem::take(&mut self.worlds[w].db);
        let res: Result<(), String> = (|| {
            let mut rsb = RuleSetBuilder::new(&mut db);
            for (i, r) in rules.iter().enumerate() {
                self.add_rule(&mut rsb, r, &comps[i], i as u32)?;
            }
            let rs = rsb.build();
            db.run_rule_set(&rs, ReportLevel::TimeOnly, None);
            Ok(())
        })();
        self.worlds[w].db = db;
        if let Err(e) = res {
            return self.fail("query-build-error", e);
        }
        self.st.queries += 1;
        let log = std::mem::take(&mut *self.log.lock().unwrap());
        for (i, want) in wants.into_iter().enumerate() {
            self.compare_matches(&format!("rule {i} of {:?}", rules[i]), i as u32, want, &log)?;
        }
        self.cleared_uf_read = false;
        // run_rule_set ends with merge_all
        self.model_merge(w)
    }

    fn cache_plan(&mut self, slot: usize, rule: &QRule) -> Res {
        if !self.rule_ok(rule) {
            return Ok(());
        }
        let slot = slot % PLAN_SLOTS;
        let w = self.cur;
        let ar: Vec<usize> = rule.atoms.iter().map(|a| self.arity(a.t)).collect();
        let comp = compile(rule, &ar);
        let tag = 100 + slot as u32;
        self.set_uf_flag(rule);
        let mut db = std::mem::take(&mut self.worlds[w].db);
        let res = (|| {
            let mut rsb = RuleSetBuilder::new(&mut db);
            let (rid, atoms) = self.add_rule(&mut rsb, rule, &comp, tag)?;
            let rs = rsb.build();
            Ok::<_, String>((rs.build_cached_plan(rid), atoms))
        })();
        self.worlds[w].db = db;
        self.cleared_uf_read = false;
        match res {
            Ok((plan, atoms)) => {
                self.plans[slot] = Some(Cached { plan, rule: rule.clone(), atoms, tag });
                Ok(())
            }
            Err(e) => self.fail("query-build-error", e),
        }
    }

    fn run_cached(&mut self, slot: usize, extra: &[(usize, C)]) -> Res {
        let slot = slot % PLAN_SLOTS;
        let Some(cached) = self.plans[slot].take() else { return Ok(()) };
        let r = self.run_cached_inner(&cached, extra);
        self.plans[slot] = Some(cached);
        r
    }

    fn run_cached_inner(&mut self, cached: &Cached, extra: &[(usize, C)]) -> Res {
        let w = self.cur;
        let rule = &cached.rule;
        let extra: Vec<(usize, C)> = extra.iter().filter(|(a, c)| *a < rule.atoms.len() && self.cs_ok(rule.atoms[*a].t, std::slice::from_ref(c))).cloned().collect();
        let ar: Vec<usize> = rule.atoms.iter().map(|a| self.arity(a.t)).collect();
        let comp = compile(rule, &ar);
        let rows: Vec<Vec<Vec<u32>>> = rule.atoms.iter().map(|a| self.model_rows(w, a.t)).collect();
        let want = expected_matches(rule, &comp, &extra, &rows);
        self.note_index_reads(rule, &extra);
        self.set_uf_flag(rule);
        self.log.lock().unwrap().clear();
        let mut db = std::mem::take(&mut self.worlds[w].db);
        let ran = {
            let mut rsb = RuleSetBuilder::new(&mut db);
            let ex: Vec<(AtomId, Constraint)> = extra.iter().map(|(a, c)| (cached.atoms[*a], to_constraint(c))).collect();
            let added = rsb.add_rule_from_cached_plan(&cached.plan, &ex).is_some();
            let rs = rsb.build();
            if added {
                db.run_rule_set(&rs, ReportLevel::TimeOnly, None);
            }
            added
        };
        self.worlds[w].db = db;
        self.st.cached_runs += 1;
        let log = std::mem::take(&mut *self.log.lock().unwrap());
        if !ran {
            self.st.cached_empty += 1;
            if !want.is_empty() {
                return self.fail("cached-plan-wrongly-empty", format!("add_rule_from_cached_plan({rule:?}, extra {extra:?}) returned None (provably empty) but the model has {} matches, e.g. {:?}", want.len(), want[0]));
            }
            self.cleared_uf_read = false;
            return Ok(());
        }
        self.compare_matches(&format!("cached plan {rule:?} + extra {extra:?}"), cached.tag, want, &log)?;
        self.cleared_uf_read = false;
        self.model_merge(w)
    }
}

// ----- op dispatch -----------------------------------------------------------------

fn op_name(op: &Op) -> &'static str {
    match op {
        Op::Stage { .. } => "stage",
        Op::Union { .. } => "union",
        Op::Merge => "merge_all",
        Op::Tick { .. } => "tick",
        Op::Clear { .. } => "clear_table",
        Op::CloneDb => "clone",
        Op::Switch { .. } => "switch",
        Op::Rebuild { .. } => "apply_rebuild",
        Op::Refresh { .. } => "refresh_rows",
        Op::Get { .. } => "get_row",
        Op::Refine { .. } => "refine",
        Op::Fast { .. } => "fast_subset",
        Op::Split { .. } => "split_fast_slow",
        Op::Estimate { .. } => "estimate_size",
        Op::Page { .. } => "paged_scan",
        Op::Query { .. } => "query",
        Op::CachePlan { .. } => "cache_plan",
        Op::RunCached { .. } => "run_cached",
    }
}

impl<'c> Exec<'c> {
    fn step(&mut self, op: &Op) -> Res {
        let nt = self.nt();
        let mutating;
        match op {
            Op::Stage { t, items, second, second_first, fresh_handle } => {
                mutating = false;
                match self.kind(*t) {
                    Some(false) => self.stage(*t, items, second, *second_first, *fresh_handle)?,
                    _ => {}
                }
            }
            Op::Union { pairs } => {
                mutating = false;
                if self.case.uf {
                    let ok: Vec<(u32, u32)> = pairs.iter().copied().filter(|(l, r)| (*l as usize) < UF_IDS && (*r as usize) < UF_IDS).collect();
                    self.union(&ok)?;
                }
            }
            Op::Merge => {
                mutating = true;
                self.merge_all()?;
            }
            Op::Tick { by } => {
                mutating = self.worlds[self.cur].pending;
                self.settle()?;
                self.worlds[self.cur].ts += (*by).clamp(1, 3);
            }
            Op::Clear { t } => {
                mutating = true;
                if self.kind(*t).is_some() {
                    self.clear(*t)?;
                }
            }
            Op::CloneDb => {
                mutating = true;
                // precondition of every real caller: nothing staged when a database is cloned
                self.settle()?;
                let f = self.worlds[self.cur].fork();
                if self.worlds.len() < MAX_WORLDS {
                    self.worlds.push(f);
                } else {
                    let victim = (self.cur + 1) % self.worlds.len();
                    self.worlds[victim] = f;
                }
                self.st.clones += 1;
            }
            Op::Switch { w } => {
                let target = *w % self.worlds.len();
                let pending = self.worlds[self.cur].pending;
                mutating = pending && !self.case.raw_switch;
                if pending && target != self.cur {
                    if self.case.raw_switch {
                        self.worlds[self.cur].orphaned = true;
                    } else {
                        self.out.count("excluded_known_clone_shared_notifications", 1);
                        self.settle()?;
                    }
                }
                self.cur = target;
            }
            Op::Rebuild { tables } => {
                mutating = true;
                self.rebuild(tables)?;
            }
            Op::Refresh { tables, ids } => {
                mutating = true;
                self.refresh(tables, ids)?;
            }
            Op::Get { t, key } => {
                mutating = false;
                if self.kind(*t).is_some() {
                    self.get(self.cur, *t, key)?;
                }
            }
            Op::Refine { t, cs, base, via_ref } => {
                mutating = false;
                if self.kind(*t).is_some() && self.cs_ok(*t, cs) && self.cs_ok(*t, base.as_slice()) {
                    self.cleared_uf_read = *t == nt && self.worlds[self.cur].uf_cleared;
                    self.refine(*t, cs, base, *via_ref)?;
                }
            }
            Op::Fast { t, c } => {
                mutating = false;
                if self.kind(*t).is_some() && self.cs_ok(*t, std::slice::from_ref(c)) {
                    self.cleared_uf_read = *t == nt && self.worlds[self.cur].uf_cleared;
                    self.fast(*t, c)?;
                }
            }
            Op::Split { t, cs } => {
                mutating = false;
                if self.kind(*t).is_some() && self.cs_ok(*t, cs) {
                    self.cleared_uf_read = *t == nt && self.worlds[self.cur].uf_cleared;
                    self.split(*t, cs)?;
                }
            }
            Op::Estimate { t, c } => {
                mutating = false;
                if self.kind(*t).is_some() && self.cs_ok(*t, c.as_slice()) {
                    self.cleared_uf_read = *t == nt && self.worlds[self.cur].uf_cleared;
                    self.estimate(*t, c)?;
                }
            }
            Op::Page { t, cs, base, n, cols } => {
                mutating = false;
                let ar = self.kind(*t).map(|_| self.arity(*t)).unwrap_or(0);
                if ar > 0 && self.cs_ok(*t, cs) && self.cs_ok(*t, base.as_slice()) && !cols.is_empty() && cols.iter().all(|c| *c < ar) {
                    self.cleared_uf_read = *t == nt && self.worlds[self.cur].uf_cleared;
                    self.page(*t, cs, base, *n, cols)?;
                }
            }
            Op::Query { rules } => {
                mutating = self.worlds[self.cur].pending;
                self.query(rules)?;
            }
            Op::CachePlan { slot, rule } => {
                mutating = false;
                self.cache_plan(*slot, rule)?;
            }
            Op::RunCached { slot, extra } => {
                mutating = self.worlds[self.cur].pending;
                self.run_cached(*slot, extra)?;
            }
        }
        self.cleared_uf_read = false;
        // reads interleaved everywhere: the active database is read back completely after every operation
        self.verify_world(self.cur, true)?;
        if mutating {
            // ... and the other (cloned) databases must not have moved
            for w in 0..self.worlds.len() {
                if w != self.cur {
                    self.verify_world(w, false)?;
                }
            }
        }
        Ok(())
    }

    fn run(&mut self) {
        let case: &'c Case = self.case;
        for (i, op) in case.ops.iter().enumerate() {
            self.opi = i;
            self.opdesc = {
                let s = format!("{op:?}");
                if s.len() > 300 { format!("{}…", &s[..300]) } else { s }
            };
            self.out.count(format!("op_{}", op_name(op)), 1);
            let majors_before: Vec<Vec<u64>> = self.worlds.iter().map(|w| w.majors.clone()).collect();
            let r = fw::catch(|| self.step(op));
            match r {
                Ok(Ok(())) => {}
                Ok(Err(())) => break,
                Err(msg) => {
                    if self.worlds.iter().any(|w| w.orphaned) && !self.cleared_uf_read {
                        self.out.fail(CLONE_SIG, format!("op #{i} {} panicked: {msg}", self.opdesc));
                    } else if self.cleared_uf_read {
                        self.out.fail(KNOWN_SIG, format!("op #{i} {}: a read on the union-find table after clear_table panicked: {msg}", self.opdesc));
                    } else if self.worlds.iter().any(|w| w.uf_cleared) && msg.contains("malformed range") {
                        // seen when only `lookup_table` is repaired: DisplacedTable::clear keeps major generation 0 and
                        // shrinks `minor`, so indexes / subset trackers built before the clear refresh incrementally
                        // from an offset beyond the table's end
                        self.out.fail("displaced-clear-keeps-version", format!("op #{i} {} panicked after clear_table on the union-find table: {msg}", self.opdesc));
                    } else {
                        self.out.fail(format!("panic:{}", fw::panic_key(&msg)), format!("op #{i} {} panicked: {msg}", self.opdesc));
                    }
                    break;
                }
            }
            // a major-generation bump that is not explained by clear_table is a compaction
            if !matches!(op, Op::Clear { .. }) {
                for (w, before) in majors_before.iter().enumerate() {
                    if let Some(world) = self.worlds.get(w) {
                        for (t, m) in before.iter().enumerate() {
                            if t < self.nt() && world.majors[t] > *m && !matches!(op, Op::CloneDb) {
                                self.st.compactions += 1;
                            }
                        }
                    }
                }
            }
        }
    }
}

fn check_case(case: &Case) -> Outcome {
    let key = fnv_str(&serde_json::to_string(case).unwrap_or_default());
    let mut ex = Exec::new(case, key);
    ex.run();
    let st = &ex.st;
    let mut out = std::mem::replace(&mut ex.out, Outcome::new(key));
    let idx = st.idx_reads_after_mut > 0;
    out.nontrivial = st.compactions >= 1 && st.collisions >= 1 && idx;
    out.class(format!("tables={}", case.tables.len()));
    out.class(if case.uf { "with-union-find-table" } else { "no-union-find-table" });
    if case.pool {
        out.class("4-shards(pool)");
    }
    for t in &case.tables {
        out.class(format!("table:keys={}", t.n_keys));
        out.class(format!("table:{}", if t.sort.is_some() { "sorted" } else { "unsorted" }));
        out.class(format!("table:merge={:?}", t.merge));
        if !t.rebuild.is_empty() {
            out.class("table:rebuildable");
        }
    }
    out.class(format!("ops:{}", match case.ops.len() { 0..=4 => "0-4", 5..=19 => "5-19", 20..=59 => "20-59", 60..=149 => "60-149", _ => "150+" }));
    out.class(format!("compactions:{}", match st.compactions { 0 => "0", 1 => "1", 2..=4 => "2-4", _ => "5+" }));
    if st.collisions > 0 {
        out.class("key-collision");
    }
    if st.clears > 0 {
        out.class("clear_table");
    }
    if st.clones > 0 {
        out.class("clone");
    }
    if st.merges_ge4 > 0 {
        out.class("merge_all>=4-dirty-tables");
    }
    if st.rebuild_rows > 0 {
        out.class("rebuild-rewrote-rows");
    }
    if st.refresh_rows > 0 {
        out.class("refresh-rewrote-rows");
    }
    if st.max_rows >= 17 {
        out.class("table>=17-rows");
    }
    out.count("compactions", st.compactions);
    out.count("merge_fn_calls", st.collisions);
    out.count("index_reads_after_mutation", st.idx_reads_after_mut);
    out.count("merge_all", st.merges);
    out.count("clears", st.clears);
    out.count("clones", st.clones);
    out.count("rebuild_rows", st.rebuild_rows);
    out.count("refresh_rows", st.refresh_rows);
    out.count("rule_set_queries", st.queries);
    out.count("query_matches", st.query_matches);
    out.count("cached_plan_runs", st.cached_runs);
    out.count("cached_plan_provably_empty", st.cached_empty);
    out.count("fast_subset_some", st.fast_some);
    out.count("fast_subset_none", st.fast_none);
    if case.steered > 0 {
        out.count("excluded_known_displaced_clear", case.steered as u64);
    }
    out
}

// ---------------------------------------------------------------------------
// generator (decoder from the choice stream)
// ---------------------------------------------------------------------------

#[derive(Clone, Copy, PartialEq, Eq)]
pub enum Profile {
    /// 1-6 tables, every kind of operation
    General,
    /// 1-2 tables, fill / purge / churn heavy: crosses the compaction threshold again and again
    Churn,
}

fn key_space(n_keys: usize) -> usize {
    match n_keys {
        0 => 1,
        1 => 48,
        2 => 64,
        3 => 64,
        _ => 81,
    }
}

fn key_of(n_keys: usize, i: usize) -> Vec<u32> {
    let d = key_dom(n_keys);
    let mut i = i % key_space(n_keys);
    (0..n_keys)
        .map(|_| {
            let v = (i % d) as u32;
            i /= d;
            v
        })
        .collect()
}

fn row_of(spec: &TSpec, i: usize, seed: usize) -> Vec<u32> {
    let mut row = key_of(spec.n_keys, i);
    for c in spec.n_keys..spec.n_cols {
        let dom = if spec.rebuild.contains(&c) { 12 } else { 6 };
        row.push(((seed + (i % 7) * (c + 1) + c) % dom) as u32);
    }
    row
}

struct Dec<'a, 'b> {
    src: &'a mut Src<'b>,
    tables: Vec<TSpec>,
    uf: bool,
    profile: Profile,
    dts: u32,
    ops: Vec<Op>,
    steered: u32,
    plans: Vec<Option<QRule>>,
}

impl Dec<'_, '_> {
    fn nt(&self) -> usize {
        self.tables.len()
    }
    fn arity(&self, t: usize) -> usize {
        if t < self.nt() { self.tables[t].n_cols } else { 3 }
    }
    fn any_table(&mut self) -> usize {
        self.src.below(self.nt() + self.uf as usize)
    }
    fn sorted_table(&mut self) -> usize {
        self.src.below(self.nt())
    }
    fn key_idx(&mut self, t: usize) -> usize {
        let ks = key_space(self.tables[t].n_keys);
        if self.src.chance(3, 5) { self.src.below(ks.min(8)) } else { self.src.below(ks) }
    }
    fn col_val(&mut self, t: usize, c: usize) -> u32 {
        if t == self.nt() {
            return if c == 2 { self.src.below(self.dts as usize + 2) as u32 } else { self.src.below(UF_IDS) as u32 };
        }
        let spec = &self.tables[t];
        if Some(c) == spec.sort {
            self.src.below(self.dts as usize + 2) as u32
        } else if c < spec.n_keys {
            self.src.below(key_dom(spec.n_keys)) as u32
        } else if spec.rebuild.contains(&c) {
            self.src.below(12) as u32
        } else {
            self.src.below(6) as u32
        }
    }
    fn sort_col(&self, t: usize) -> Option<usize> {
        if t == self.nt() { Some(2) } else { self.tables[t].sort }
    }
    fn constraint(&mut self, t: usize, fast_only: bool) -> C {
        let ar = self.arity(t);
        let sort = self.sort_col(t);
        if fast_only {
            // constraints a cached plan accepts: comparisons on the sort column, EqConst on cacheable columns
            if let (Some(s), true) = (sort, self.src.chance(2, 3)) {
                let v = self.col_val(t, s);
                return match self.src.below(5) {
                    0 => C::EqC(s, v),
                    1 => C::Lt(s, v),
                    2 => C::Gt(s, v),
                    3 => C::Le(s, v),
                    _ => C::Ge(s, v),
                };
            }
            let mut c = self.src.below(ar);
            if t == self.nt() && c == 1 {
                c = 0;
            }
            let v = self.col_val(t, c);
            return C::EqC(c, v);
        }
        let c = match sort {
            Some(s) if self.src.chance(2, 5) => s,
            _ => self.src.below(ar),
        };
        let v = self.col_val(t, c);
        match self.src.below(8) {
            0 => C::Eq(c, self.src.below(ar)),
            1 | 2 => C::EqC(c, v),
            3 => C::Lt(c, v),
            4 => C::Gt(c, v),
            5 => C::Le(c, v),
            6 => C::Ge(c, v),
            // "greater than a small value on column 0": matches the stale marker if a scan forgets to skip stale rows
            _ => C::Gt(0, self.src.below(3) as u32),
        }
    }
    fn constraints(&mut self, t: usize, max: usize) -> Vec<C> {
        let n = self.src.below(max + 1);
        (0..n).map(|_| self.constraint(t, false)).collect()
    }
    fn opt_base(&mut self, t: usize) -> Option<C> {
        if self.src.chance(1, 3) { Some(self.constraint(t, true)) } else { None }
    }
    fn items(&mut self, t: usize, n: usize) -> Vec<Item> {
        (0..n)
            .map(|_| {
                let i = self.key_idx(t);
                if self.src.chance(3, 10) {
                    Item::Rem(key_of(self.tables[t].n_keys, i))
                } else {
                    let seed = self.src.below(12);
                    Item::Ins(row_of(&self.tables[t], i, seed))
                }
            })
            .collect()
    }
    fn rule(&mut self) -> QRule {
        let t0 = self.any_table();
        let two = self.src.chance(1, 2);
        let mut atoms = vec![QAtom { t: t0, cs: self.constraints(t0, 2), consts: vec![None; self.arity(t0)] }];
        let mut join = None;
        let mut join2 = None;
        let mut protected: Vec<Vec<usize>> = vec![vec![], vec![]];
        if two {
            let t1 = self.any_table();
            atoms.push(QAtom { t: t1, cs: self.constraints(t1, 1), consts: vec![None; self.arity(t1)] });
            let j = (self.src.below(self.arity(t0)), self.src.below(self.arity(t1)));
            protected[0].push(j.0);
            protected[1].push(j.1);
            join = Some(j);
            if self.arity(t0) >= 2 && self.arity(t1) >= 2 && self.src.chance(2, 5) {
                let a0 = (j.0 + 1 + self.src.below(self.arity(t0) - 1)) % self.arity(t0);
                let a1 = (j.1 + 1 + self.src.below(self.arity(t1) - 1)) % self.arity(t1);
                protected[0].push(a0);
                protected[1].push(a1);
                join2 = Some((a0, a1));
            }
        }
        let mut dup = None;
        if self.arity(t0) >= 2 && self.src.chance(1, 8) {
            let d1 = self.src.below(self.arity(t0));
            let d2 = (d1 + 1 + self.src.below(self.arity(t0) - 1)) % self.arity(t0);
            // never alias the join column away
            if !protected[0].contains(&d2) {
                protected[0].push(d1);
                protected[0].push(d2);
                dup = Some((d1, d2));
            }
        }
        for a in 0..atoms.len() {
            let ar = self.arity(atoms[a].t);
            if ar >= 2 && self.src.chance(1, 3) {
                let c = self.src.below(ar);
                if !protected[a].contains(&c) {
                    atoms[a].consts[c] = Some(self.col_val(atoms[a].t, c));
                }
            }
        }
        QRule { atoms, join, join2, dup, strat: self.src.below(3) as u8, no_decomp: self.src.bool() }
    }

    fn push_merge(&mut self) {
        self.ops.push(Op::Merge);
        if self.src.chance(1, 2) {
            let by = 1 + self.src.below(2) as u32;
            self.dts += by;
            self.ops.push(Op::Tick { by });
        }
    }

    fn op(&mut self) {
        let churn = self.profile == Profile::Churn;
        let has_rebuild = self.uf && self.tables.iter().any(|t| !t.rebuild.is_empty());
        let has_refresh = self.tables.iter().any(|t| !t.rebuild.is_empty());
        let n_all = self.nt() + self.uf as usize;
        let weights: [usize; 21] = [
            if churn { 8 } else { 18 },           // 0 small stage
            if churn { 16 } else { 7 },           // 1 fill
            if churn { 12 } else { 4 },           // 2 purge
            if self.uf { 6 } else { 0 },          // 3 union
            if churn { 18 } else { 12 },          // 4 merge
            3,                                    // 5 tick
            2,                                    // 6 clear
            if churn { 1 } else { 2 },            // 7 clone
            if churn { 1 } else { 3 },            // 8 switch
            if has_rebuild { 4 } else { 0 },      // 9 rebuild
            if has_refresh { 3 } else { 0 },      // 10 refresh
            3,                                    // 11 get
            5,                                    // 12 refine
            4,                                    // 13 fast
            2,                                    // 14 split
            2,                                    // 15 estimate
            4,                                    // 16 page
            8,                                    // 17 query
            2,                                    // 18 cache plan
            4,                                    // 19 run cached
            if n_all >= 4 { 3 } else { 0 },       // 20 >=4 dirty tables then merge
        ];
        match self.src.pick_weighted(&weights) {
            0 => {
                let t = self.sorted_table();
                let n = 1 + self.src.below(4);
                let items = self.items(t, n);
                let second = if self.src.chance(1, 4) {
                    let n2 = 1 + self.src.below(3);
                    self.items(t, n2)
                } else {
                    vec![]
                };
                self.ops.push(Op::Stage { t, items, second, second_first: self.src.bool(), fresh_handle: self.src.bool() });
            }
            1 => {
                let t = self.sorted_table();
                let ks = key_space(self.tables[t].n_keys);
                let base = if self.src.chance(2, 3) { 0 } else { self.src.below(ks) };
                let n = 4 + self.src.below(40);
                let seed = self.src.below(12);
                let items = (0..n).map(|i| Item::Ins(row_of(&self.tables[t], base + i, seed))).collect();
                self.ops.push(Op::Stage { t, items, second: vec![], second_first: false, fresh_handle: false });
            }
            2 => {
                let t = self.sorted_table();
                let ks = key_space(self.tables[t].n_keys);
                let base = if self.src.chance(2, 3) { 0 } else { self.src.below(ks) };
                let n = 8 + self.src.below(40);
                let items = (0..n).map(|i| Item::Rem(key_of(self.tables[t].n_keys, base + i))).collect();
                self.ops.push(Op::Stage { t, items, second: vec![], second_first: false, fresh_handle: false });
            }
            3 => {
                let n = 1 + self.src.below(3);
                let pairs = (0..n).map(|_| (self.src.below(UF_IDS) as u32, self.src.below(UF_IDS) as u32)).collect();
                self.ops.push(Op::Union { pairs });
            }
            4 => self.push_merge(),
            5 => {
                let by = 1 + self.src.below(3) as u32;
                self.dts += by;
                self.ops.push(Op::Tick { by });
            }
            6 => {
                let t = self.any_table();
                if t == self.nt() && EXCLUDE_DISPLACED_CLEAR {
                    // known finding displaced-clear-stale-lookup: never clear the union-find table here
                    self.steered += 1;
                    if self.nt() > 0 {
                        let t = self.sorted_table();
                        self.ops.push(Op::Clear { t });
                    }
                } else {
                    self.ops.push(Op::Clear { t });
                }
            }
            7 => self.ops.push(Op::CloneDb),
            8 => {
                let w = self.src.below(MAX_WORLDS);
                self.ops.push(Op::Switch { w });
            }
            9 => {
                let tables = (0..self.nt()).filter(|_| self.src.chance(3, 4)).collect();
                self.dts += 1;
                self.ops.push(Op::Rebuild { tables });
            }
            10 => {
                let tables = (0..self.nt()).filter(|_| self.src.chance(3, 4)).collect();
                let n = self.src.below(4);
                let ids = (0..n).map(|_| self.src.below(12) as u32).collect();
                self.dts += 1;
                self.ops.push(Op::Refresh { tables, ids });
            }
            11 => {
                let t = self.any_table();
                let key = if t == self.nt() { vec![self.src.below(UF_IDS) as u32] } else { key_of(self.tables[t].n_keys, self.key_idx(t)) };
                self.ops.push(Op::Get { t, key });
            }
            12 => {
                let t = self.any_table();
                let cs = self.constraints(t, 3);
                let base = self.opt_base(t);
                self.ops.push(Op::Refine { t, cs, base, via_ref: self.src.bool() });
            }
            13 => {
                let t = self.any_table();
                let c = if self.src.chance(4, 5) { self.constraint(t, true) } else { self.constraint(t, false) };
                self.ops.push(Op::Fast { t, c });
            }
            14 => {
                let t = self.any_table();
                let mut cs = self.constraints(t, 2);
                cs.push(self.constraint(t, true));
                self.ops.push(Op::Split { t, cs });
            }
            15 => {
                let t = self.any_table();
                let c = if self.src.chance(3, 4) {
                    let fast_only = self.src.bool();
                    Some(self.constraint(t, fast_only))
                } else {
                    None
                };
                self.ops.push(Op::Estimate { t, c });
            }
            16 => {
                let t = self.any_table();
                let cs = self.constraints(t, 2);
                let base = self.opt_base(t);
                let n = 1 + self.src.below(9);
                let ar = self.arity(t);
                let nc = 1 + self.src.below(ar.min(4));
                let cols = (0..nc).map(|_| self.src.below(ar)).collect();
                self.ops.push(Op::Page { t, cs, base, n, cols });
            }
            17 => {
                let n = if self.src.chance(1, 5) { 2 } else { 1 };
                let mut rules: Vec<QRule> = (0..n).map(|_| self.rule()).collect();
                if n == 2 && self.src.chance(1, 2) {
                    // same atoms twice: the second rule shares the first one's trie root
                    rules[1] = rules[0].clone();
                }
                self.ops.push(Op::Query { rules });
            }
            18 => {
                let slot = self.src.below(PLAN_SLOTS);
                let rule = self.rule();
                self.plans[slot] = Some(rule.clone());
                self.ops.push(Op::CachePlan { slot, rule });
            }
            19 => {
                let mut slot = self.src.below(PLAN_SLOTS);
                if self.plans[slot].is_none() {
                    slot = (0..PLAN_SLOTS).find(|s| self.plans[*s].is_some()).unwrap_or(slot);
                }
                if let Some(rule) = self.plans[slot].clone() {
                    let n = if self.src.chance(1, 4) { 2 } else { self.src.below(2) };
                    let extra = (0..n)
                        .map(|_| {
                            let a = self.src.below(rule.atoms.len());
                            (a, self.constraint(rule.atoms[a].t, true))
                        })
                        .collect();
                    self.ops.push(Op::RunCached { slot, extra });
                } else {
                    let rule = self.rule();
                    self.plans[slot] = Some(rule.clone());
                    self.ops.push(Op::CachePlan { slot, rule });
                }
            }
            _ => {
                for t in 0..self.nt() {
                    if self.src.chance(5, 6) {
                        let n = 1 + self.src.below(3);
                        let items = self.items(t, n);
                        self.ops.push(Op::Stage { t, items, second: vec![], second_first: false, fresh_handle: false });
                    }
                }
                if self.uf {
                    let pairs = vec![(self.src.below(UF_IDS) as u32, self.src.below(UF_IDS) as u32)];
                    self.ops.push(Op::Union { pairs });
                }
                self.push_merge();
            }
        }
    }
}

fn decode_tables(src: &mut Src, profile: Profile, uf: bool) -> Vec<TSpec> {
    let n = match profile {
        Profile::General => 1 + src.below(6),
        Profile::Churn => 1 + src.below(2),
    };
    (0..n)
        .map(|_| {
            let n_keys = match profile {
                Profile::General => src.below(5),
                Profile::Churn => 1 + src.below(2),
            };
            let has_sort = src.chance(3, 5);
            let mut n_vals = src.below(3);
            if n_keys == 0 && !has_sort && n_vals == 0 {
                n_vals = 1;
            }
            let n_cols = n_keys + n_vals + has_sort as usize;
            // the sort column is usually last (egglog-bridge without subsumption), sometimes first after the keys
            let sort = has_sort.then(|| if src.chance(1, 4) { n_keys } else { n_cols - 1 });
            let mut merge = *src.pick(&[MergeKind::TakeNew, MergeKind::KeepOld, MergeKind::Max, MergeKind::Min]);
            let mut rebuild = vec![];
            if uf && src.chance(2, 5) {
                for c in 0..n_cols {
                    if Some(c) != sort && src.chance(1, 2) {
                        rebuild.push(c);
                    }
                }
                if !rebuild.is_empty() && matches!(merge, MergeKind::TakeNew | MergeKind::KeepOld) {
                    // rows rewritten by a rebuild collide in an order the API does not document:
                    // rebuildable tables get an order-independent merge function
                    merge = if src.bool() { MergeKind::Max } else { MergeKind::Min };
                }
            }
            TSpec { n_keys, n_cols, sort, merge, rebuild }
        })
        .collect()
}

fn decode_case(src: &mut Src, profile: Profile) -> Case {
    let uf = match profile {
        Profile::General => src.chance(1, 2),
        Profile::Churn => src.chance(1, 4),
    };
    let pool = src.chance(1, 4);
    let tables = decode_tables(src, profile, uf);
    let mut d = Dec { src, tables, uf, profile, dts: 0, ops: vec![], steered: 0, plans: vec![None; PLAN_SLOTS] };
    let mut n = 0;
    while (n < 5 || !d.src.exhausted()) && d.ops.len() < 400 {
        d.op();
        n += 1;
    }
    d.ops.truncate(400);
    Case { tables: d.tables, uf, pool, ops: d.ops, steered: d.steered, raw_switch: !EXCLUDE_CLONE_SHARED_NOTIFY }
}

// ---------------------------------------------------------------------------
// stage
// ---------------------------------------------------------------------------

pub struct TableOps {
    pub name: &'static str,
    pub profile: Profile,
}

impl Stage for TableOps {
    type Input = Case;
    fn name(&self) -> &'static str {
        self.name
    }
    fn decode(&self, src: &mut Src) -> Case {
        decode_case(src, self.profile)
    }
    fn render(&self, c: &Case) -> J {
        serde_json::json!({
            "tables": c.tables.iter().map(|t| format!("{t:?}")).collect::<Vec<_>>(),
            "union_find_table": c.uf,
            "pool": c.pool,
            "ops": c.ops.iter().map(|o| { let s = format!("{o:?}"); if s.len() > 400 { format!("{}…", &s[..400]) } else { s } }).collect::<Vec<_>>(),
        })
    }
    fn simplify(&self, c: &Case) -> Vec<Case> {
        let mut out = vec![];
        let n = c.ops.len();
        let mut sizes = vec![n / 2, n / 4, n / 8, 1];
        sizes.retain(|s| *s >= 1);
        sizes.dedup();
        for sz in sizes {
            let mut i = 0;
            while i < n && out.len() < 250 {
                let mut d = c.clone();
                d.ops.drain(i..(i + sz).min(n));
                out.push(d);
                i += sz;
            }
        }
        if c.pool {
            let mut d = c.clone();
            d.pool = false;
            out.push(d);
        }
        for (i, op) in c.ops.iter().enumerate() {
            if let Op::Stage { items, second, .. } = op {
                if items.len() + second.len() > 2 && out.len() < 400 {
                    let mut d = c.clone();
                    if let Op::Stage { items, second, .. } = &mut d.ops[i] {
                        items.truncate(items.len().div_ceil(2));
                        second.truncate(second.len() / 2);
                    }
                    out.push(d);
                }
            }
        }
        out
    }
    fn check(&self, case: &Case) -> Outcome {
        if std::env::var("VERIF_SUBRUN").as_deref() == Ok("parallel-cutoff0") {
            // in which order the rows of one batch collide is only defined for the serial path: with the parallel
            // implementations only order-independent merge functions have a defined result
            if case.tables.iter().any(|t| matches!(t.merge, MergeKind::KeepOld | MergeKind::TakeNew)) {
                let mut o = Outcome::new(crate::choice::fnv_str(&serde_json::to_string(case).unwrap_or_default()));
                o.class("subrun-skipped(order-dependent merge function)");
                return o;
            }
            // sub-run with EGGLOG_PARALLEL_*_CUTOFF=0: a 4-thread pool makes the parallel insert / delete / rehash /
            // index-merge / rebuild implementations run on these small tables
            let pool = egglog_concurrency::ThreadPool::new(4);
            return pool.install(|| check_case(case));
        }
        if case.pool {
            // with a pool installed tables get 2*threads hash shards; all sizes stay far below the
            // parallel cut-offs, so the algorithms are the serial ones (deterministic)
            let pool = egglog_concurrency::ThreadPool::new(2);
            pool.install(|| check_case(case))
        } else {
            check_case(case)
        }
    }
}

// ---------------------------------------------------------------------------
// golden cases
// ---------------------------------------------------------------------------

fn ins(t: usize, rows: Vec<Vec<u32>>) -> Op {
    Op::Stage { t, items: rows.into_iter().map(Item::Ins).collect(), second: vec![], second_first: false, fresh_handle: false }
}
fn rem(t: usize, keys: Vec<Vec<u32>>) -> Op {
    Op::Stage { t, items: keys.into_iter().map(Item::Rem).collect(), second: vec![], second_first: false, fresh_handle: false }
}
fn q1(t: usize, ar: usize, cs: Vec<C>) -> Op {
    Op::Query { rules: vec![QRule { atoms: vec![QAtom { t, cs, consts: vec![None; ar] }], join: None, join2: None, dup: None, strat: 0, no_decomp: false }] }
}

/// The known finding: two unions, clear_table(uf), point lookup of a formerly displaced id.
fn golden_displaced_clear() -> Case {
    Case {
        tables: vec![],
        uf: true,
        pool: false,
        ops: vec![Op::Union { pairs: vec![(1, 2), (3, 4)] }, Op::Merge, Op::Clear { t: 0 }, Op::Get { t: 0, key: vec![2] }],
        steered: 0,
        raw_switch: true,
    }
}

/// The clone finding: clone; stage in the original; merge_all in the clone; merge_all in the original.
fn golden_clone_notifications() -> Case {
    Case {
        tables: vec![TSpec { n_keys: 1, n_cols: 2, sort: None, merge: MergeKind::TakeNew, rebuild: vec![] }],
        uf: false,
        pool: false,
        ops: vec![Op::CloneDb, ins(0, vec![vec![0, 1]]), Op::Switch { w: 1 }, Op::Merge, Op::Switch { w: 0 }, Op::Merge, Op::Get { t: 0, key: vec![0] }],
        steered: 0,
        raw_switch: true,
    }
}

fn goldens() -> Vec<Case> {
    let mut out = vec![];
    // 1. compaction with index reads around it, sorted TakeNew table, one key column
    for (merge, sort) in [(MergeKind::TakeNew, true), (MergeKind::Max, false), (MergeKind::KeepOld, true)] {
        let spec = TSpec { n_keys: 1, n_cols: if sort { 3 } else { 2 }, sort: sort.then_some(2), merge, rebuild: vec![] };
        let fill = |seed: usize, n: usize| ins(0, (0..n).map(|i| row_of(&spec, i, seed)).collect());
        let ar = spec.n_cols;
        // self-join on two columns: probes the cached multi-column (tuple) index
        let q2 = |strat: u8| Op::Query {
            rules: vec![QRule { atoms: vec![QAtom { t: 0, cs: vec![], consts: vec![None; ar] }, QAtom { t: 0, cs: vec![], consts: vec![None; ar] }], join: Some((0, 0)), join2: Some((1, 1)), dup: None, strat, no_decomp: false }],
        };
        let mut ops = vec![fill(1, 40), Op::Merge, q1(0, ar, vec![C::EqC(1, 3)]), q2(1), Op::Tick { by: 1 }];
        ops.push(Op::CachePlan { slot: 0, rule: QRule { atoms: vec![QAtom { t: 0, cs: vec![], consts: vec![None; ar] }, QAtom { t: 0, cs: vec![], consts: vec![None; ar] }], join: Some((1, 1)), join2: None, dup: None, strat: 1, no_decomp: false } });
        ops.push(fill(2, 40)); // collisions: every key again with other values
        ops.push(Op::Merge);
        ops.push(Op::RunCached { slot: 0, extra: vec![(0, C::EqC(0, 5))] });
        ops.push(Op::Tick { by: 1 });
        ops.push(rem(0, (0..30).map(|i| vec![i]).collect()));
        ops.push(q2(1));
        ops.push(Op::Merge); // crosses stale > max(16, n/2)
        ops.push(q2(1));
        ops.push(q2(2));
        ops.push(q1(0, ar, vec![C::EqC(1, 3)]));
        ops.push(q1(0, ar, vec![C::Gt(0, 1)]));
        ops.push(Op::RunCached { slot: 0, extra: vec![(1, C::EqC(0, 35))] });
        ops.push(Op::Fast { t: 0, c: C::Le(ar - 1, 1) });
        ops.push(Op::Refine { t: 0, cs: vec![C::Ge(0, 33)], base: Some(C::Lt(ar - 1, 2)), via_ref: true });
        ops.push(Op::Tick { by: 1 });
        ops.push(fill(3, 12));
        ops.push(Op::Merge);
        ops.push(q2(1));
        ops.push(Op::Page { t: 0, cs: vec![C::Lt(0, 38)], base: None, n: 3, cols: vec![0, 1] });
        ops.push(q1(0, ar, vec![C::EqC(1, 3)]));
        out.push(Case { tables: vec![spec.clone()], uf: false, pool: false, ops, steered: 0, raw_switch: false });
    }
    // 2. merge order inside one batch: removals first, then inserts in buffer-drop order
    for merge in [MergeKind::TakeNew, MergeKind::KeepOld, MergeKind::Max, MergeKind::Min] {
        let spec = TSpec { n_keys: 2, n_cols: 4, sort: Some(3), merge, rebuild: vec![] };
        let ops = vec![
            ins(0, vec![vec![1, 1, 5, 0], vec![1, 2, 5, 0]]),
            Op::Merge,
            Op::Tick { by: 1 },
            // insert-then-remove of the same key in one batch: the remove is applied first, the insert survives
            Op::Stage { t: 0, items: vec![Item::Ins(vec![1, 1, 2, 0]), Item::Rem(vec![1, 1])], second: vec![Item::Ins(vec![1, 2, 9, 0]), Item::Ins(vec![1, 2, 1, 0])], second_first: true, fresh_handle: true },
            Op::Merge,
            Op::Get { t: 0, key: vec![1, 1] },
            Op::Get { t: 0, key: vec![1, 2] },
            Op::Stage { t: 0, items: vec![Item::Ins(vec![2, 2, 3, 0])], second: vec![Item::Ins(vec![2, 2, 4, 0])], second_first: false, fresh_handle: false },
            Op::Clear { t: 0 }, // drops the staged rows as well
            Op::Merge,
            Op::Get { t: 0, key: vec![2, 2] },
        ];
        out.push(Case { tables: vec![spec], uf: false, pool: true, ops, steered: 0, raw_switch: false });
    }
    // 3. >= 4 dirty tables (strata path of merge_all), arity-0 keys, clone divergence
    {
        let tables = vec![
            TSpec { n_keys: 0, n_cols: 2, sort: Some(1), merge: MergeKind::Max, rebuild: vec![] },
            TSpec { n_keys: 1, n_cols: 1, sort: None, merge: MergeKind::KeepOld, rebuild: vec![] },
            TSpec { n_keys: 3, n_cols: 4, sort: None, merge: MergeKind::TakeNew, rebuild: vec![] },
            TSpec { n_keys: 4, n_cols: 6, sort: Some(4), merge: MergeKind::Min, rebuild: vec![] },
            TSpec { n_keys: 2, n_cols: 3, sort: Some(2), merge: MergeKind::TakeNew, rebuild: vec![] },
        ];
        let mut ops = vec![];
        for round in 0..3u32 {
            ops.push(ins(0, vec![vec![round + 1, 0]]));
            ops.push(ins(1, vec![vec![round], vec![round + 7]]));
            ops.push(ins(2, vec![vec![1, 2, 3, round], vec![0, 0, round, 1]]));
            ops.push(ins(3, vec![vec![0, 1, 2, 0, 0, 5 - round], vec![round, 1, 2, 0, 0, 2]]));
            ops.push(ins(4, vec![vec![round, 1, 0], vec![1, 1, 0]]));
            ops.push(Op::Merge);
            ops.push(Op::Tick { by: 1 });
            if round == 0 {
                ops.push(Op::CloneDb);
            }
        }
        ops.push(Op::Switch { w: 1 });
        ops.push(rem(0, vec![vec![]]));
        ops.push(Op::Merge);
        ops.push(Op::Query { rules: vec![QRule { atoms: vec![QAtom { t: 4, cs: vec![C::Ge(2, 1)], consts: vec![None; 3] }, QAtom { t: 2, cs: vec![], consts: vec![None, None, None, None] }], join: Some((0, 3)), join2: None, dup: None, strat: 2, no_decomp: true }] });
        ops.push(Op::Switch { w: 0 });
        ops.push(Op::Get { t: 0, key: vec![] });
        out.push(Case { tables, uf: false, pool: false, ops, steered: 0, raw_switch: false });
    }
    // 4. value-level rebuild against the union-find table, with collisions, then refresh
    {
        let tables = vec![
            TSpec { n_keys: 1, n_cols: 3, sort: Some(2), merge: MergeKind::Max, rebuild: vec![0, 1] },
            TSpec { n_keys: 2, n_cols: 3, sort: None, merge: MergeKind::Min, rebuild: vec![1] },
        ];
        let uf = 2;
        let ops = vec![
            ins(0, (0..10).map(|i| vec![i, (i * 3) % 10, 0]).collect()),
            ins(1, (0..10).map(|i| vec![i % 3, i, i]).collect()),
            Op::Merge,
            Op::Tick { by: 1 },
            Op::Union { pairs: vec![(1, 2), (3, 4), (2, 4), (7, 7), (9, 8)] },
            Op::Merge,
            Op::Get { t: uf, key: vec![4] },
            Op::Fast { t: uf, c: C::Le(2, 1) },
            Op::Fast { t: uf, c: C::Lt(2, 1) },
            Op::Fast { t: uf, c: C::EqC(0, 4) },
            Op::Rebuild { tables: vec![0, 1] },
            q1(0, 3, vec![C::Ge(2, 2)]),
            Op::Query { rules: vec![QRule { atoms: vec![QAtom { t: 0, cs: vec![], consts: vec![None; 3] }, QAtom { t: uf, cs: vec![C::EqC(2, 1)], consts: vec![None; 3] }], join: Some((1, 1)), join2: None, dup: None, strat: 0, no_decomp: false }] },
            Op::Refresh { tables: vec![0, 1], ids: vec![1, 8] },
            Op::Union { pairs: vec![(1, 8)] },
            Op::Rebuild { tables: vec![0, 1] },
            Op::Estimate { t: uf, c: Some(C::Ge(2, 1)) },
        ];
        out.push(Case { tables, uf: true, pool: false, ops, steered: 0, raw_switch: false });
    }
    out
}

// ---------------------------------------------------------------------------
// entry points
// ---------------------------------------------------------------------------

const STAGES: [(&str, Profile); 3] = [("table-ops", Profile::General), ("table-churn", Profile::Churn), ("golden", Profile::General)];

pub fn replay(rep: &Report, stage: &str, j: &J) -> i32 {
    match STAGES.iter().find(|(n, _)| *n == stage) {
        Some((name, profile)) => crate::registry::replay_stage(rep, &TableOps { name, profile: *profile }, j),
        None => 2,
    }
}

pub fn child(_kind: &str, _payload: &J) -> Option<J> {
    None
}

pub fn run(rep: &Report) {
    rep.set_rule(
        "cases = operation sequences (5-400 ops, decoded from proptest byte strings) over a core-relations Database with 1-6 SortedWritesTables \
         (0-4 key columns, with/without sort column, merge = keep-old/take-new/max/min, optionally rebuildable columns) and optionally the DisplacedTable: \
         stage insert/remove through one or two buffers, bulk fill/purge, unions, merge_all (also with >=4 dirty tables), timestamp ticks, clear_table, clone+switch, \
         apply_rebuild, refresh_rows_for_values, interleaved with get_row, refine/refine_ref, fast_subset, split_fast_slow, estimate_size, paged scan_project and \
         1-/2-atom rule-set queries (fresh and via cached plans); after every op every table is read back (len, scan, get_row, updates_since) and compared with a BTreeMap model. \
         distinct = distinct serialised case; non-trivial = the sequence has >=1 compaction (major generation bump not caused by clear_table), >=1 key collision \
         (merge function invoked) and >=1 index-backed read (get_row or constrained/joined rule-set query) of a table after it was mutated",
    );
    rep.assume("all rows staged between two merges carry the same timestamp and timestamps never decrease (egglog-bridge's discipline; asserted by SortedWritesTable and DisplacedTable)");
    rep.assume("the merge function writes the incoming timestamp into a changed row and reports 'unchanged' otherwise (egglog-bridge's MergeFn::to_callback)");
    rep.assume("databases are cloned only when nothing is staged; rule sets are run right after they are built (header subsets are computed at build time)");
    rep.assume("rebuildable tables use order-independent merge functions (the order in which rebuilt rows collide is not documented)");
    rep.assume("the parallel implementations are exercised by a sub-run of the same stages with EGGLOG_PARALLEL_*_CUTOFF=0 and a 4-thread pool; incremental rebuild (> 10 000 rows) is outside this check (C01's large-table stage covers it at the language level)");
    if EXCLUDE_DISPLACED_CLEAR {
        rep.note("random stages never call clear_table on the DisplacedTable (known finding displaced-clear-stale-lookup); the golden case re-demonstrates it");
    }
    let golden = TableOps { name: "golden", profile: Profile::General };
    rep.run_one(&golden, &golden_displaced_clear());
    rep.run_one(&golden, &golden_clone_notifications());
    // VERIF_C16_SKIP_GOLDEN: sensitivity experiments on the random stages alone
    if std::env::var("VERIF_C16_SKIP_GOLDEN").is_err() {
        for g in goldens() {
            rep.run_one(&golden, &g);
        }
    }
    let general = TableOps { name: "table-ops", profile: Profile::General };
    let churn = TableOps { name: "table-churn", profile: Profile::Churn };
    rep.run_regressions(&golden);
    rep.run_regressions(&general);
    rep.run_regressions(&churn);
    let (n_general, n_churn) = match rep.tier {
        Tier::Quick => (24_000, 14_000),
        Tier::Thorough => (300_000, 200_000),
    };
    rep.explore(&churn, n_churn, 500);
    rep.explore(&general, n_general, 700);
    // long sequences (up to 400 ops)
    let (n_long_general, n_long_churn) = rep.tier.pick((1500, 1000), (30_000, 20_000));
    rep.explore(&general, n_long_general, 2400);
    rep.explore(&churn, n_long_churn, 1600);
    // the same stages once more in a sub-process whose parallel cut-offs are 0 (read once per process)
    if std::env::var("VERIF_SUBRUN").is_err() {
        let env: Vec<(String, String)> = ["DB_LEVEL_OP", "INDEX_CONSTRUCTION", "REBUILD", "INTRA_CONTAINER", "INTER_CONTAINER", "TABLE_OP"]
            .iter()
            .map(|n| (format!("EGGLOG_PARALLEL_{n}_CUTOFF"), "0".to_string()))
            .collect();
        rep.run_self_with_env("parallel-cutoff0", &env);
    }
}
