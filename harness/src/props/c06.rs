//! C06 — results do not depend on the number of threads.
//!
//! Every generated monotone program (+ containers, subsumption, extraction) and
//! every monotone .egg corpus file is executed single-threaded and, in child
//! processes (the parallel cut-offs are read once per process), with several
//! thread counts and cut-off profiles including 0 so that the parallel insert /
//! delete / rehash / rebuild / index / container-rebuild paths run on small
//! inputs. Oracle: identical per-command Ok/Err and check outcomes, table
//! sizes, function values, extraction costs, and equal canonical dumps.

use super::corpus::{run_corpus, Compare, CorpusDiff, Filter};
use crate::choice::{fnv_str, Src};
use crate::eng::CanonDump;
use crate::fw::{Outcome, Report, Stage, Tier};
use crate::pgen::{simplify_prog, Gen, GenCfg};
use crate::prog::Prog;
use crate::runner::{run_in_child, run_text, ChildRun, RunCfg, RunResult};
use std::time::Duration;

#[derive(Clone, Debug)]
pub struct Profile {
    pub label: &'static str,
    pub threads: usize,
    pub env: Vec<(&'static str, &'static str)>,
}

const CUTOFFS: [&str; 6] = [
    "EGGLOG_PARALLEL_DB_LEVEL_OP_CUTOFF",
    "EGGLOG_PARALLEL_INDEX_CONSTRUCTION_CUTOFF",
    "EGGLOG_PARALLEL_REBUILD_CUTOFF",
    "EGGLOG_PARALLEL_INTRA_CONTAINER_CUTOFF",
    "EGGLOG_PARALLEL_INTER_CONTAINER_CUTOFF",
    "EGGLOG_PARALLEL_TABLE_OP_CUTOFF",
];

pub fn profiles(t: Tier) -> Vec<Profile> {
    let all0: Vec<(&'static str, &'static str)> = CUTOFFS.iter().map(|c| (*c, "0")).collect();
    let mut p4 = all0.clone();
    p4.push(("EGGLOG_PARALLEL_FREE_JOIN_FORK_DEPTH", "8"));
    p4.push(("EGGLOG_PARALLEL_ACTION_BATCH_SIZE", "1"));
    p4.push(("EGGLOG_PARALLEL_TASKS_PER_THREAD", "4"));
    let mut p2 = all0.clone();
    p2.push(("EGGLOG_PARALLEL_FREE_JOIN_FORK_DEPTH", "0"));
    let mixed: Vec<(&'static str, &'static str)> = vec![
        ("EGGLOG_PARALLEL_DB_LEVEL_OP_CUTOFF", "3"),
        ("EGGLOG_PARALLEL_INDEX_CONSTRUCTION_CUTOFF", "0"),
        ("EGGLOG_PARALLEL_REBUILD_CUTOFF", "2"),
        ("EGGLOG_PARALLEL_INTRA_CONTAINER_CUTOFF", "1"),
        ("EGGLOG_PARALLEL_INTER_CONTAINER_CUTOFF", "0"),
        ("EGGLOG_PARALLEL_TABLE_OP_CUTOFF", "4"),
        ("EGGLOG_PARALLEL_FREE_JOIN_FORK_DEPTH", "2"),
        ("EGGLOG_PARALLEL_TASKS_PER_THREAD", "1"),
    ];
    let mut v = vec![
        Profile { label: "threads=4 all cut-offs 0, fork depth 8, action batch 1", threads: 4, env: p4 },
        Profile { label: "threads=2 all cut-offs 0, fork depth 0", threads: 2, env: p2 },
        Profile { label: "threads=8 mixed small cut-offs", threads: 8, env: mixed.clone() },
    ];
    if t == Tier::Thorough {
        v.push(Profile { label: "threads=16 all cut-offs 0", threads: 16, env: all0.clone() });
        v.push(Profile { label: "threads=3 all cut-offs 0", threads: 3, env: all0.clone() });
        v.push(Profile { label: "threads=1 all cut-offs 0", threads: 1, env: all0 });
        v.push(Profile { label: "threads=8 default cut-offs", threads: 8, env: vec![] });
    }
    v
}

pub fn compare(a: &RunResult, b: &RunResult) -> Option<String> {
    if a.cmds.len() != b.cmds.len() {
        return Some(format!("number of executed commands: {} vs {}", a.cmds.len(), b.cmds.len()));
    }
    for (i, (x, y)) in a.cmds.iter().zip(b.cmds.iter()).enumerate() {
        if x.res != y.res {
            return Some(format!("command #{i} `{}`: {} vs {} ({})", x.text, x.res, y.res, y.err.lines().last().unwrap_or("")));
        }
        if x.stable != y.stable {
            return Some(format!("command #{i} `{}`: outputs (check outcomes / sizes / extraction costs) {:?} vs {:?}", x.text, x.stable, y.stable));
        }
    }
    if a.sizes != b.sizes {
        return Some(format!("table sizes {:?} vs {:?}", a.sizes, b.sizes));
    }
    if a.dump != b.dump {
        let da = CanonDump { tables: a.dump.clone() };
        let db = CanonDump { tables: b.dump.clone() };
        return Some(format!("final databases are not isomorphic:\n{}", da.diff(&db)));
    }
    None
}

pub struct C06 {
    pub profiles: Vec<Profile>,
    pub reps: usize,
}

fn cfg() -> GenCfg {
    GenCfg { containers: true, subsume: true, costs: true, extract_cmds: true, max_cmds: 20, min_cmds: 6, max_run: 4, ..GenCfg::default() }
}

impl Stage for C06 {
    type Input = Prog;
    fn name(&self) -> &'static str {
        "threads"
    }
    fn decode(&self, src: &mut Src) -> Prog {
        Gen::new(src, cfg()).gen_prog()
    }
    fn render(&self, inp: &Prog) -> serde_json::Value {
        serde_json::json!(inp.text().lines().collect::<Vec<_>>())
    }
    fn simplify(&self, inp: &Prog) -> Vec<Prog> {
        simplify_prog(inp)
    }
    fn check(&self, prog: &Prog) -> Outcome {
        let text = prog.text();
        let mut out = Outcome::new(fnv_str(&text));
        let base_cfg = RunCfg { dump_every: true, ..RunCfg::default() };
        let base = run_text(None, &text, &base_cfg);
        if base.cmds.iter().any(|c| c.res == "panic") {
            out.class("panic-single-threaded");
            return out;
        }
        if base.cmds.iter().any(|c| c.res == "err:Runtime") {
            // outside the monotone fragment's guarantees (e.g. extraction of an unextractable class): still compared
            out.class("has-runtime-error");
        }
        let mut compared = 0;
        let mut parallel_paths_entered = false;
        for p in &self.profiles {
            for rep in 0..self.reps {
                let cfg = RunCfg { threads: p.threads, dump_every: false, ..RunCfg::default() };
                let env: Vec<(String, String)> = p.env.iter().map(|(k, v)| (k.to_string(), v.to_string())).collect();
                match run_in_child(None, Some(&text), &cfg, &env, Duration::from_secs(90), None) {
                    ChildRun::Done(r) => {
                        compared += 1;
                        out.count("child_runs", 1);
                        for (k, v) in &r.paths {
                            if *v > 0 && (k.contains("parallel") || k.contains("strata")) {
                                out.count(format!("path:{k}"), *v);
                                parallel_paths_entered = true;
                            }
                        }
                        if let Some(c) = r.cmds.iter().find(|c| c.res == "panic") {
                            out.fail(format!("panic:{}", crate::fw::panic_key(&c.err)), format!("[{}] `{}` panicked (single-threaded run did not): {}", p.label, c.text, c.err));
                            return out;
                        }
                        if let Some(d) = compare(&base, &r) {
                            out.fail("differs-from-single-threaded", format!("[{} rep {rep}] vs single-threaded: {d}", p.label));
                            return out;
                        }
                    }
                    ChildRun::Crashed(m) => {
                        out.fail(format!("child-crash:{}", crate::fw::panic_key(&m)), format!("[{}] child crashed: {m}", p.label));
                        return out;
                    }
                    ChildRun::Deadlock => {
                        out.fail("deadlock", format!("[{}] child quiescent and unfinished (deadlock suspect)", p.label));
                        return out;
                    }
                    ChildRun::Timeout => out.class("child-timeout"),
                    ChildRun::Broken(m) => out.class(format!("child-broken:{}", m.chars().take(30).collect::<String>())),
                }
            }
        }
        // non-trivial: rules changed the database and a union happened (rebuild / merge collisions exist)
        let changed_runs = base.cmds.iter().enumerate().filter(|(i, c)| c.text.starts_with("(run") && *i > 0 && base.dump_hashes.get(*i) != base.dump_hashes.get(i - 1)).count();
        let has_union = text.contains("(union");
        if changed_runs >= 1 {
            out.class("rules-changed-db");
        }
        if text.contains("-of") {
            out.class("has-containers");
        }
        if parallel_paths_entered {
            out.class("parallel-path-entered(hook counter)");
        }
        out.nontrivial = compared > 0 && changed_runs >= 1 && has_union && parallel_paths_entered;
        out
    }
}

pub fn corpus_stage(p: &Profile) -> CorpusDiff {
    CorpusDiff {
        a: RunCfg::default(),
        b: RunCfg { threads: p.threads, ..RunCfg::default() },
        env_a: vec![],
        env_b: p.env.iter().map(|(k, v)| (k.to_string(), v.to_string())).collect(),
        compare: Compare::Dump,
        filter: Filter::Monotone,
        timeout: Duration::from_secs(30),
        max_bytes: 40_000,
        label_a: "1 thread",
        label_b: "4 threads, all cut-offs 0",
    }
}

pub fn replay(rep: &Report, stage: &str, j: &serde_json::Value) -> i32 {
    match stage {
        "corpus" => crate::registry::replay_stage(rep, &corpus_stage(&profiles(Tier::Quick)[0]), j),
        _ => crate::registry::replay_stage(rep, &C06 { profiles: profiles(Tier::Thorough), reps: 3 }, j),
    }
}

pub fn run(rep: &Report) {
    rep.set_rule(
        "cases = generated monotone programs (+containers, subsumption, costs, extraction) and monotone .egg corpus files; each is run single-threaded in-process and in child processes under a matrix of thread counts {1,2,3,4,8,16} x cut-off profiles (all EGGLOG_PARALLEL_*_CUTOFF=0, mixed small, default) x fork depth {0,2,8} x action batch {1,default} x tasks-per-thread {1,4}, each configuration repeated (OS schedule sampling); \
         per-command Ok/Err, check outcomes, sizes, extraction costs and canonical dumps must equal the single-threaded run. \
         non-trivial = distinct program in which a rule run changed the database and a union occurred (so merges/rebuilds happen on the parallel paths), compared under at least one configuration whose child process reports (verif-hooks counters) that a parallel code path was really entered",
    );
    rep.assume("thread interleavings are sampled by repetition, not enumerated");
    let st = C06 { profiles: profiles(rep.tier), reps: rep.tier.pick(1, 2) };
    rep.run_regressions(&st);
    rep.explore(&st, rep.tier.pick(400, 1500), 700);
    run_corpus(rep, &corpus_stage(&profiles(Tier::Quick)[0]));
}
