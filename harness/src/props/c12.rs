//! C12 — every provable fact gets a proof the checker accepts, and only those.
//!
//! For generated proof-supported programs (C11's main fragment, no subsumption)
//! run with proofs enabled, and facts derived from the program's own ground
//! terms (true and false equalities, present and absent tuples, conjunctions,
//! facts with variables):
//!  (1) `(prove facts)` succeeds iff `(check facts)` succeeds on the plain
//!      engine after the same commands, and never panics (prove_exists itself
//!      panics when the in-tree checker rejects the proof before or after
//!      simplification, so a caught panic IS "proof not accepted");
//!  (2) an independent walk of the returned proof through the public API checks
//!      the locally evident shape rules (Trans chains, Sym flips, Congr replaces
//!      exactly the indexed child, Fiat only for top-level assertions of the
//!      source program, Rule names exist) and that the proven proposition is an
//!      instance of the queried fact;
//!  (3) checker soundness through the `verif-hooks` entry points: the same proof
//!      re-checked against the program with a *used* rule / union removed must be
//!      rejected, and structurally mutated proofs (swapped Trans operands, wrong
//!      or out-of-range congruence index, dropped premise, unknown rule name,
//!      Fiat of an unasserted equality) must be rejected.

use super::*;
use crate::choice::{fnv_str, Src};
use crate::fw::{catch, Outcome, Report, Stage};
use crate::pgen::{simplify_prog, Gen, GenCfg};
use egglog::proof::{Justification, ProofId, ProofStore, Proposition};
use egglog::{CommandOutput, EGraph, Term as ETerm, TermDag, TermId};
use serde::{Deserialize, Serialize};
use std::collections::BTreeSet;

#[derive(Clone, Serialize, Deserialize)]
pub struct Case {
    pub prog: Prog,
    pub probe: u64,
}

pub struct C12;

pub fn cfg() -> GenCfg {
    GenCfg {
        subsume: false,
        delete: false,
        containers: false,
        costs: false,
        extract_cmds: false,
        push_pop: false,
        rule_opts: false,
        observe: false,
        until: false,
        no_toplevel_subsume_delete: true,
        max_cmds: 10,
        min_cmds: 4,
        max_run: 3,
        ..GenCfg::default()
    }
}

fn strip_ws(s: &str) -> String {
    s.chars().filter(|c| !c.is_whitespace()).collect()
}

/// facts to query, derived from the program's ground terms
fn gen_facts(prog: &Prog, probe: &mut Probe) -> Vec<Vec<Fact>> {
    let sig = &prog.sig;
    let terms = super::lockstep::all_ground_terms(prog);
    let eq_terms: Vec<&Term> = terms.iter().filter(|t| matches!(t, Term::App(f, _) if sig.funcs[*f].is_ctor())).collect();
    let rel_terms: Vec<&Term> = terms.iter().filter(|t| matches!(t, Term::App(f, _) if sig.funcs[*f].is_rel())).collect();
    let mut out: Vec<Vec<Fact>> = vec![];
    for _ in 0..4 {
        if eq_terms.len() >= 2 {
            let a = eq_terms[probe.below(eq_terms.len())];
            let b = eq_terms[probe.below(eq_terms.len())];
            if let (Term::App(fa, _), Term::App(fb, _)) = (a, b) {
                if sig.funcs[*fa].out == sig.funcs[*fb].out {
                    out.push(vec![Fact::Eq(a.clone(), b.clone())]);
                }
            }
        }
    }
    for _ in 0..2 {
        if !rel_terms.is_empty() {
            let r = rel_terms[probe.below(rel_terms.len())];
            out.push(vec![Fact::T(r.clone())]);
            // with one argument replaced by a variable
            if let Term::App(f, args) = r {
                if !args.is_empty() {
                    let mut a2 = args.clone();
                    let i = probe.below(a2.len());
                    a2[i] = Term::Var("pv".into());
                    out.push(vec![Fact::T(Term::App(*f, a2))]);
                }
            }
        }
    }
    // function facts (= (G k) v): the value written by the program and a wrong one
    let func_terms: Vec<&Term> = terms.iter().filter(|t| matches!(t, Term::App(f, _) if sig.funcs[*f].is_func())).collect();
    for _ in 0..2 {
        if !func_terms.is_empty() {
            let t = func_terms[probe.below(func_terms.len())];
            if let Term::App(f, _) = t {
                let v = match sig.funcs[*f].out {
                    Ty::Bool => Term::B(probe.below(2) == 0),
                    _ => Term::I(probe.below(14) as i64 - 3),
                };
                out.push(vec![Fact::Eq(t.clone(), v)]);
            }
        }
    }
    // a conjunction
    if out.len() >= 2 {
        let a = out[probe.below(out.len())].clone();
        let b = out[probe.below(out.len())].clone();
        let mut c = a;
        c.extend(b);
        // at most one variable name is used, fine
        out.push(c);
    }
    out
}

struct Walker<'a> {
    store: &'a ProofStore,
    td: &'a TermDag,
}

impl<'a> Walker<'a> {
    fn prop(&self, id: ProofId) -> &Proposition {
        self.store.get(id).proposition()
    }
    fn s(&self, t: TermId) -> String {
        self.td.to_string(t)
    }
    /// all proof nodes reachable from root (pre-order), with their parents
    fn reachable(&self, root: ProofId) -> Vec<ProofId> {
        let mut seen: Vec<ProofId> = vec![];
        let mut stack = vec![root];
        while let Some(p) = stack.pop() {
            if seen.contains(&p) {
                continue;
            }
            seen.push(p);
            match self.store.get(p).justification() {
                Justification::Fiat | Justification::Eval => {}
                Justification::Rule { premise_proofs, .. } => stack.extend(premise_proofs.iter().copied()),
                Justification::MergeFn { old_proof, new_proof, .. } => {
                    stack.push(*old_proof);
                    stack.push(*new_proof);
                }
                Justification::Trans(a, b) => {
                    stack.push(*a);
                    stack.push(*b);
                }
                Justification::Sym(a) => stack.push(*a),
                Justification::Congr { proof, child_proof, .. } => {
                    stack.push(*proof);
                    stack.push(*child_proof);
                }
                Justification::ContainerNormalize { proof } => stack.push(*proof),
            }
        }
        seen
    }
}

struct SourceFacts {
    /// whitespace-stripped texts of union pairs "a|b"
    unions: BTreeSet<(String, String)>,
    /// whitespace-stripped texts of every sub-term asserted at top level (incl. relation tuples and function rows)
    asserted: BTreeSet<String>,
    rule_texts: Vec<String>,
    rule_names: Vec<String>,
}

fn source_facts(prog: &Prog, upto: usize) -> SourceFacts {
    let sig = &prog.sig;
    let mut sf = SourceFacts { unions: BTreeSet::new(), asserted: BTreeSet::new(), rule_texts: vec![], rule_names: vec![] };
    let add = |t: &Term, sf: &mut SourceFacts| {
        let mut subs = vec![];
        t.subterms(&mut subs);
        for s in subs {
            sf.asserted.insert(strip_ws(&sig.term(&s)));
        }
    };
    for c in prog.cmds.iter().take(upto) {
        match c {
            Cmd::Act(Action::Expr(t)) => add(t, &mut sf),
            Cmd::Act(Action::Union(a, b)) => {
                add(a, &mut sf);
                add(b, &mut sf);
                sf.unions.insert((strip_ws(&sig.term(a)), strip_ws(&sig.term(b))));
            }
            Cmd::Act(Action::Set(f, args, v)) => {
                for a in args {
                    add(a, &mut sf);
                }
                // function row as a term (f args.. v)
                let mut all = args.clone();
                all.push(v.clone());
                sf.asserted.insert(strip_ws(&sig.term(&Term::App(*f, all))));
                sf.asserted.insert(strip_ws(&sig.term(&Term::App(*f, args.clone()))));
                sf.asserted.insert(strip_ws(&sig.term(v)));
            }
            Cmd::Rule { opts, .. } => {
                sf.rule_texts.push(strip_ws(&sig.cmd(c)));
                if let Some(n) = &opts.name {
                    sf.rule_names.push(n.clone());
                }
            }
            Cmd::Rewrite { .. } => sf.rule_texts.push(strip_ws(&sig.cmd(c))),
            _ => {}
        }
    }
    sf
}

/// match a fact pattern (may contain variables) against a printed ground term
fn instance_of(sig: &Sig, pat: &Term, ground: &str) -> bool {
    fn go(p: &Term, g: &Term, sub: &mut std::collections::BTreeMap<String, Term>) -> bool {
        match (p, g) {
            (Term::Var(v), _) => match sub.get(v) {
                Some(t) => t == g,
                None => {
                    sub.insert(v.clone(), g.clone());
                    true
                }
            },
            (Term::I(a), Term::I(b)) => a == b,
            (Term::B(a), Term::B(b)) => a == b,
            (Term::App(f, a), Term::App(h, b)) => f == h && a.len() == b.len() && a.iter().zip(b.iter()).all(|(x, y)| go(x, y, sub)),
            (Term::Prim(f, a), Term::Prim(h, b)) => f == h && a.len() == b.len() && a.iter().zip(b.iter()).all(|(x, y)| go(x, y, sub)),
            _ => false,
        }
    }
    match sig.parse_term(ground) {
        Some(g) => go(pat, &g, &mut Default::default()),
        None => false,
    }
}

impl C12 {
    /// (2) independent walk of the proof
    fn walk(&self, prog: &Prog, upto: usize, facts: &[Fact], store: &ProofStore, root: ProofId, what: &str, out: &mut Outcome) -> bool {
        let sig = &prog.sig;
        let w = Walker { store, td: store.term_dag() };
        let sf = source_facts(prog, upto);
        let nodes = w.reachable(root);
        let mut has_rule_or_congr = false;
        for id in &nodes {
            let p = store.get(*id);
            let (lhs, rhs) = (p.proposition().lhs(), p.proposition().rhs());
            out.count(
                match p.justification() {
                    Justification::Trans(..) => "nodes_trans",
                    Justification::Sym(..) => "nodes_sym",
                    Justification::Congr { .. } => "nodes_congr",
                    Justification::Fiat => "nodes_fiat",
                    Justification::Rule { .. } => "nodes_rule",
                    Justification::MergeFn { .. } => "nodes_mergefn",
                    _ => "nodes_other",
                },
                1,
            );
            match p.justification() {
                Justification::Trans(a, b) => {
                    let (pa, pb) = (w.prop(*a), w.prop(*b));
                    if pa.rhs() != pb.lhs() || lhs != pa.lhs() || rhs != pb.rhs() {
                        out.fail(
                            "proof-shape:trans-does-not-chain",
                            format!("{what}: Trans node proves {} = {} from {} = {} and {} = {}", w.s(lhs), w.s(rhs), w.s(pa.lhs()), w.s(pa.rhs()), w.s(pb.lhs()), w.s(pb.rhs())),
                        );
                        return false;
                    }
                }
                Justification::Sym(a) => {
                    let pa = w.prop(*a);
                    if lhs != pa.rhs() || rhs != pa.lhs() {
                        out.fail("proof-shape:sym-does-not-flip", format!("{what}: Sym node proves {} = {} from {} = {}", w.s(lhs), w.s(rhs), w.s(pa.lhs()), w.s(pa.rhs())));
                        return false;
                    }
                }
                Justification::Congr { proof, child_index, child_proof } => {
                    has_rule_or_congr = true;
                    let (pp, pc) = (w.prop(*proof), w.prop(*child_proof));
                    let ok = match (w.td.get(pp.rhs()), w.td.get(rhs)) {
                        (ETerm::App(f, cs), ETerm::App(g, ds)) => {
                            f == g
                                && cs.len() == ds.len()
                                && *child_index < cs.len()
                                && cs[*child_index] == pc.lhs()
                                && ds[*child_index] == pc.rhs()
                                && cs.iter().zip(ds.iter()).enumerate().all(|(i, (c, d))| i == *child_index || c == d)
                                && lhs == pp.lhs()
                        }
                        _ => false,
                    };
                    if !ok {
                        out.fail(
                            "proof-shape:congr-invalid",
                            format!("{what}: Congr node proves {} = {} from {} = {}, child #{child_index} proof {} = {}", w.s(lhs), w.s(rhs), w.s(pp.lhs()), w.s(pp.rhs()), w.s(pc.lhs()), w.s(pc.rhs())),
                        );
                        return false;
                    }
                }
                Justification::Fiat => {
                    let (l, r) = (strip_ws(&w.s(lhs)), strip_ws(&w.s(rhs)));
                    let is_lit = matches!(w.td.get(lhs), ETerm::Lit(_)) && lhs == rhs;
                    let ok = is_lit || (lhs == rhs && sf.asserted.contains(&l)) || sf.unions.contains(&(l.clone(), r.clone())) || sf.unions.contains(&(r.clone(), l.clone()));
                    if !ok {
                        out.fail("proof-fiat-not-a-top-level-assertion", format!("{what}: Fiat node claims {} = {}, which no top-level action of the source program asserts", w.s(lhs), w.s(rhs)));
                        return false;
                    }
                }
                Justification::Rule { name, premise_proofs, .. } => {
                    has_rule_or_congr = true;
                    let n = strip_ws(name);
                    let known = name.starts_with("@prove_exists_rule") || sf.rule_names.iter().any(|x| x == name) || sf.rule_texts.iter().any(|t| *t == n);
                    if !known {
                        // rewrites are desugared to rules whose generated names we do not model: count, do not judge
                        out.count("rule_names_not_modelled", 1);
                    }
                    if premise_proofs.is_empty() && !name.starts_with("@prove_exists_rule") {
                        out.count("rule_nodes_without_premises", 1);
                    }
                }
                Justification::MergeFn { .. } => {
                    out.count("mergefn_nodes", 1);
                }
                Justification::ContainerNormalize { .. } | Justification::Eval => {}
            }
        }
        // the proven proposition is (an instance of) the queried fact(s)
        let root_p = store.get(root);
        let check_fact = |f: &Fact, p: &Proposition| -> bool {
            // a fact about a function, (= (f k..) v), is proven as the reflexive row term (f k.. v) = (f k.. v)
            if let Fact::Eq(a, b) = f {
                for (app, val) in [(a, b), (b, a)] {
                    if let Term::App(fi, args) = app {
                        if sig.funcs[*fi].is_func() {
                            let mut all = args.clone();
                            all.push(val.clone());
                            let row = Term::App(*fi, all);
                            return instance_of(sig, &row, &w.s(p.lhs())) && instance_of(sig, &row, &w.s(p.rhs()));
                        }
                    }
                }
            }
            match f {
                Fact::Eq(a, b) => {
                    let (l, r) = (w.s(p.lhs()), w.s(p.rhs()));
                    (instance_of(sig, a, &l) && instance_of(sig, b, &r)) || (instance_of(sig, a, &r) && instance_of(sig, b, &l))
                }
                Fact::T(t) => instance_of(sig, t, &w.s(p.rhs())) || instance_of(sig, t, &w.s(p.lhs())),
            }
        };
        // prove desugars the query into a rule deriving a fresh constructor; when that rule has a single premise the
        // premise's proof is returned directly, otherwise the root is the rule step and every queried fact must be
        // proven by one of its premises (a fact about a function and a literal yields more premises than facts)
        let ok = match root_p.justification() {
            Justification::Rule { name, premise_proofs, .. } if name.starts_with("@prove_exists_rule") => {
                facts.iter().all(|f| premise_proofs.iter().any(|p| check_fact(f, w.prop(*p))))
            }
            _ => facts.len() == 1 && check_fact(&facts[0], root_p.proposition()),
        };
        if !ok {
            out.fail(
                "proof-proves-something-else",
                format!("{what}: the returned proof's proposition is {} = {} ({}), not an instance of the queried facts", w.s(root_p.proposition().lhs()), w.s(root_p.proposition().rhs()), store.proof_to_string(root).lines().next().unwrap_or("")),
            );
            return false;
        }
        if has_rule_or_congr {
            out.class("proof-with-rule-or-congr");
        }
        true
    }

    /// (3) checker soundness through the hooks
    fn soundness(&self, eg: &EGraph, prog: &Prog, upto: usize, store: &ProofStore, root: ProofId, what: &str, probe: &mut Probe, out: &mut Outcome) -> bool {
        let sig = &prog.sig;
        // sanity: the unaltered proof is accepted against the unaltered program
        let mut s0 = store.clone();
        if let Err(e) = eg.verif_check_proof(&mut s0, root, None) {
            out.fail("checker-rejects-returned-proof", format!("{what}: re-checking the returned proof against the e-graph's own checking program fails: {e}"));
            return false;
        }
        let w = Walker { store, td: store.term_dag() };
        let nodes = w.reachable(root);
        let checking_prog: Vec<String> = eg.verif_proof_check_program().iter().map(|c| strip_ws(c)).collect();
        // (a) remove a used rule / union from the checking program
        let mut removals: Vec<(usize, String)> = vec![];
        for id in &nodes {
            match store.get(*id).justification() {
                Justification::Rule { name, .. } if !name.starts_with("@prove_exists_rule") => {
                    let n = strip_ws(name);
                    let hits: Vec<usize> = checking_prog.iter().enumerate().filter(|(_, c)| c.contains(&n) || (c.contains(":name") && c.contains(&format!("\"{name}\"")))).map(|(i, _)| i).collect();
                    if hits.len() == 1 {
                        removals.push((hits[0], format!("rule {}", name.lines().next().unwrap_or(""))));
                    }
                }
                Justification::Fiat => {
                    let p = store.get(*id).proposition();
                    if p.lhs() != p.rhs() {
                        let (l, r) = (strip_ws(&w.s(p.lhs())), strip_ws(&w.s(p.rhs())));
                        let u1 = format!("(union{l}{r})");
                        let u2 = format!("(union{r}{l})");
                        let hits: Vec<usize> = checking_prog.iter().enumerate().filter(|(_, c)| **c == u1 || **c == u2).map(|(i, _)| i).collect();
                        // the pair must not be asserted by any other command (count textual occurrences of both terms together)
                        if hits.len() == 1 {
                            removals.push((hits[0], format!("(union {} {})", w.s(p.lhs()), w.s(p.rhs()))));
                        }
                    }
                }
                _ => {}
            }
        }
        removals.sort();
        removals.dedup();
        let _ = (sig, prog, upto);
        for (idx, desc) in removals.iter().take(3) {
            let mut s1 = store.clone();
            out.count("altered_program_checks", 1);
            match catch(|| eg.verif_check_proof(&mut s1, root, Some(*idx))) {
                Ok(Err(_)) => {}
                Ok(Ok(())) => {
                    out.fail("checker-accepts-proof-against-program-without-used-step", format!("{what}: the proof uses {desc}, yet it is accepted against the checking program with that command removed"));
                    return false;
                }
                Err(p) => {
                    // a panic is a rejection of sorts, but never acceptable behaviour for a checker
                    out.fail(format!("panic:checker:{}", crate::fw::panic_key(&p)), format!("{what}: checker panicked on the program without {desc}: {p}"));
                    return false;
                }
            }
        }
        // (b) structural mutations with locally evident invalidity
        let mut muts: Vec<(ProofId, Proposition, Justification, &'static str)> = vec![];
        for id in &nodes {
            let p = store.get(*id);
            let prop = p.proposition().clone();
            match p.justification() {
                Justification::Trans(a, b) => {
                    let (pa, pb) = (w.prop(*a), w.prop(*b));
                    if pb.rhs() != pa.lhs() {
                        muts.push((*id, prop.clone(), Justification::Trans(*b, *a), "swapped Trans operands"));
                    }
                    // keep both end points but break the middle term: x=y ; w=z with w != y
                    // (the replacement must not reach this node, or the mutated proof would be cyclic)
                    let acyclic = |c: &ProofId| !w.reachable(*c).contains(id);
                    if let Some(c) = nodes.iter().find(|c| acyclic(c) && w.prop(**c).rhs() == pb.rhs() && w.prop(**c).lhs() != pa.rhs()) {
                        muts.push((*id, prop.clone(), Justification::Trans(*a, *c), "Trans whose middle terms differ"));
                    }
                    if let Some(c) = nodes.iter().find(|c| acyclic(c) && w.prop(**c).lhs() == pa.lhs() && w.prop(**c).rhs() != pb.lhs()) {
                        muts.push((*id, prop.clone(), Justification::Trans(*c, *b), "Trans whose middle terms differ"));
                    }
                }
                Justification::Congr { proof, child_index, child_proof } => {
                    let pp = w.prop(*proof);
                    if let ETerm::App(_, cs) = w.td.get(pp.rhs()) {
                        muts.push((*id, prop.clone(), Justification::Congr { proof: *proof, child_index: cs.len() + 2, child_proof: *child_proof }, "out-of-range congruence child index"));
                        let pc = w.prop(*child_proof);
                        if let Some(j) = (0..cs.len()).find(|j| *j != *child_index && cs[*j] != pc.lhs()) {
                            muts.push((*id, prop.clone(), Justification::Congr { proof: *proof, child_index: j, child_proof: *child_proof }, "wrong congruence child index"));
                        }
                    }
                }
                Justification::Rule { name, premise_proofs, substitution } => {
                    if !premise_proofs.is_empty() {
                        let mut pp = premise_proofs.clone();
                        pp.pop();
                        muts.push((*id, prop.clone(), Justification::Rule { name: name.clone(), premise_proofs: pp, substitution: substitution.clone() }, "dropped premise"));
                    }
                    muts.push((*id, prop.clone(), Justification::Rule { name: "no-such-rule-zz".into(), premise_proofs: premise_proofs.clone(), substitution: substitution.clone() }, "unknown rule name"));
                }
                Justification::Fiat => {
                    // claim an equality between two different terms that no command asserts: pair this node's lhs with an unrelated leaf
                    if let Some(other) = nodes.iter().map(|n| w.prop(*n).lhs()).find(|t| *t != prop.lhs() && *t != prop.rhs()) {
                        let (l, r) = (strip_ws(&w.s(prop.lhs())), strip_ws(&w.s(other)));
                        let sf = source_facts(prog, upto);
                        if !sf.unions.contains(&(l.clone(), r.clone())) && !sf.unions.contains(&(r, l)) {
                            muts.push((*id, Proposition::new(prop.lhs(), other), Justification::Fiat, "Fiat of an equality nobody asserted"));
                        }
                    }
                }
                _ => {}
            }
        }
        // a consistently forged congruence at the root: replace child j (whose term is NOT the child proof's lhs) and
        // state the matching conclusion, so that only the "child proof talks about that child" test can reject it
        if let Justification::Congr { proof, child_index, child_proof } = store.get(root).justification() {
            let (pp, pc) = (w.prop(*proof).clone(), w.prop(*child_proof).clone());
            if let ETerm::App(f, cs) = w.td.get(pp.rhs()).clone() {
                if let Some(j) = (0..cs.len()).find(|j| *j != *child_index && cs[*j] != pc.lhs()) {
                    let mut s3 = store.clone();
                    let mut ds = cs.clone();
                    ds[j] = pc.rhs();
                    let forged_rhs = s3.verif_term_dag_mut().app(f.clone(), ds);
                    s3.verif_set(root, Proposition::new(pp.lhs(), forged_rhs), Justification::Congr { proof: *proof, child_index: j, child_proof: *child_proof });
                    out.count("mutated_proof_checks", 1);
                    out.count("forged_root_congruences", 1);
                    match catch(|| eg.verif_check_proof(&mut s3, root, None)) {
                        Ok(Err(_)) => {}
                        Ok(Ok(())) => {
                            out.fail("checker-accepts-mutated-proof:forged-congruence-on-wrong-child", format!("{what}: a congruence step that rewrites child #{j} using a proof about a different term is accepted\n{}", store.proof_to_string(root)));
                            return false;
                        }
                        Err(p) => {
                            out.fail(format!("panic:checker:{}", crate::fw::panic_key(&p)), format!("{what}: checker panicked on a forged congruence: {p}"));
                            return false;
                        }
                    }
                }
            }
        }
        // a substituted term in the root's stated proposition (justification untouched): what the step proves is not what
        // it claims; locally evident for every kind of step except Fiat (handled above)
        if !matches!(store.get(root).justification(), Justification::Fiat | Justification::Eval) {
            let rp = store.get(root).proposition().clone();
            let just = store.get(root).justification().clone();
            let others: Vec<TermId> = nodes.iter().flat_map(|n| [w.prop(*n).lhs(), w.prop(*n).rhs()]).filter(|t| *t != rp.lhs() && *t != rp.rhs()).collect();
            if let Some(other) = others.first() {
                for forged in [Proposition::new(rp.lhs(), *other), Proposition::new(*other, rp.rhs())] {
                    let mut s4 = store.clone();
                    s4.verif_set(root, forged, just.clone());
                    out.count("mutated_proof_checks", 1);
                    out.count("substituted_root_term_checks", 1);
                    match catch(|| eg.verif_check_proof(&mut s4, root, None)) {
                        Ok(Err(_)) => {}
                        Ok(Ok(())) => {
                            out.fail("checker-accepts-mutated-proof:substituted-term-in-root-proposition", format!("{what}: the root step claims a proposition with one term replaced by {} and is accepted\n{}", w.s(*other), store.proof_to_string(root)));
                            return false;
                        }
                        Err(p) => {
                            out.fail(format!("panic:checker:{}", crate::fw::panic_key(&p)), format!("{what}: checker panicked on a substituted root proposition: {p}"));
                            return false;
                        }
                    }
                }
            }
        }
        if muts.is_empty() {
            return true;
        }
        // a few mutations per proof, chosen by the case's probe
        for _ in 0..3.min(muts.len()) {
            let (id, prop, just, desc) = muts[probe.below(muts.len())].clone();
            let mut s2 = store.clone();
            s2.verif_set(id, prop, just);
            out.count("mutated_proof_checks", 1);
            match catch(|| eg.verif_check_proof(&mut s2, root, None)) {
                Ok(Err(_)) => {}
                Ok(Ok(())) => {
                    out.fail(format!("checker-accepts-mutated-proof:{}", desc.replace(' ', "-")), format!("{what}: proof with {desc} at node {id} is accepted by the checker\n{}", store.proof_to_string(root)));
                    return false;
                }
                Err(p) => {
                    out.fail(format!("panic:checker:{}", crate::fw::panic_key(&p)), format!("{what}: checker panicked on a proof with {desc}: {p}"));
                    return false;
                }
            }
        }
        true
    }
}

impl Stage for C12 {
    type Input = Case;
    fn name(&self) -> &'static str {
        "prove"
    }
    fn decode(&self, src: &mut Src) -> Case {
        let probe = src.u16() as u64;
        Case { prog: Gen::new(src, cfg()).gen_prog(), probe }
    }
    fn render(&self, inp: &Case) -> serde_json::Value {
        serde_json::json!({"program": inp.prog.text().lines().collect::<Vec<_>>(), "probe": inp.probe})
    }
    fn simplify(&self, inp: &Case) -> Vec<Case> {
        simplify_prog(&inp.prog).into_iter().map(|p| Case { prog: p, probe: inp.probe }).collect()
    }
    fn check(&self, case: &Case) -> Outcome {
        let prog = &case.prog;
        let text = prog.text();
        let mut out = Outcome::new(fnv_str(&text) ^ case.probe);
        if super::c11::supported(&text).is_err() {
            out.class("outside-fragment");
            return out;
        }
        let mut plain = EGraph::default();
        let mut pr = EGraph::new_with_proofs();
        for d in prog.sig.prelude() {
            let (a, b) = (eng::run(&mut plain, &d), eng::run(&mut pr, &d));
            if !a.is_ok() || !b.is_ok() {
                out.class("declaration-rejected");
                return out;
            }
        }
        let mut probe = Probe(case.probe ^ fnv_str(&text));
        let facts_pool = gen_facts(prog, &mut probe);
        let (mut n_true, mut n_false, mut with_steps) = (0, 0, 0);
        for (i, c) in prog.cmds.iter().enumerate() {
            let t = prog.sig.cmd(c);
            let (a, b) = (eng::run(&mut plain, &t), eng::run(&mut pr, &t));
            if let CmdRes::Panic(p) = &b {
                out.fail(format!("panic:proofs:{}", crate::fw::panic_key(p)), format!("command #{i} `{t}` panicked with proofs enabled: {p}"));
                return out;
            }
            if a.kind() != b.kind() {
                // C11's business; stop here
                out.class("modes-disagree(C11)");
                return out;
            }
            if !a.is_ok() {
                if matches!(a, CmdRes::Err(ErrKind::Static, _)) {
                    out.class("gen-invalid-cmd");
                    return out;
                }
                continue;
            }
            // query after runs and at the end
            let is_run = matches!(c, Cmd::RunN { .. } | Cmd::Sched(_));
            if !(is_run || i + 1 == prog.cmds.len()) {
                continue;
            }
            for facts in &facts_pool {
                let ft = prog.sig.facts(facts);
                let expected = matches!(eng::run(&mut plain.clone(), &format!("(check {ft})")), CmdRes::Ok(_));
                let what = format!("after command #{i}: (prove {ft})");
                let r = crate::eng::run_raw(&mut pr, &format!("(prove {ft})"));
                out.count("prove_queries", 1);
                match r {
                    Err(p) => {
                        // triaged root cause (known finding): a function row whose key was re-canonicalised by a union is
                        // not a reflexive proposition any more; the in-tree checker rejects the extracted proof and
                        // prove_exists panics
                        if p.contains("function fact mismatch") || p.contains("new proof is not reflexive") {
                            out.soft.push(crate::fw::Violation::new("prove-panics:function-row-rebuilt-not-reflexive", format!("{what} panicked (check says {expected}): {p}")));
                            out.class("known:prove-on-rebuilt-function-row");
                            continue;
                        }
                        out.fail(format!("prove-panics:{}", crate::fw::panic_key(&p)), format!("{what} panicked (check says {expected}): {p}"));
                        return out;
                    }
                    Ok(Err(e)) => {
                        n_false += 1;
                        if expected {
                            out.fail("prove-fails-although-check-holds", format!("{what} failed ({}) but (check {ft}) succeeds on the plain engine", e.to_string().lines().last().unwrap_or("")));
                            return out;
                        }
                    }
                    Ok(Ok(outs)) => {
                        n_true += 1;
                        if !expected {
                            out.fail("prove-succeeds-although-check-fails", format!("{what} returned a proof but (check {ft}) fails on the plain engine"));
                            return out;
                        }
                        for o in outs {
                            if let CommandOutput::ProveExists { proof_store, proof_id } = o {
                                let before = out.classes.len();
                                if !self.walk(prog, i + 1, facts, &proof_store, proof_id, &what, &mut out) {
                                    return out;
                                }
                                if out.classes.len() > before {
                                    with_steps += 1;
                                }
                                if !self.soundness(&pr, prog, i + 1, &proof_store, proof_id, &what, &mut probe, &mut out) {
                                    return out;
                                }
                            }
                        }
                    }
                }
            }
        }
        out.count("true_facts", n_true);
        out.count("false_facts", n_false);
        out.nontrivial = with_steps > 0;
        out
    }
}

pub fn replay(rep: &Report, _stage: &str, j: &serde_json::Value) -> i32 {
    crate::registry::replay_stage(rep, &C12, j)
}

pub fn run(rep: &Report) {
    rep.set_rule(
        "cases = generated proof-supported programs (no subsumption, as the property limits prove<=>check to) run with proofs enabled, queried after every run and at the end with facts built from the program's own ground terms (equalities true and false, tuples present and absent, a tuple with a variable, conjunctions); \
         prove <=> plain check, never a panic; independent walk of the returned proof (Trans/Sym/Congr shape rules, Fiat only for top-level assertions, proposition is an instance of the query); through the verif-hooks: proof re-checked against the checking program minus a used rule/union must be rejected, and mutated proofs (swapped Trans, wrong/out-of-range Congr index, dropped premise, unknown rule, unasserted Fiat) must be rejected. \
         non-trivial = distinct case with a true fact whose proof has at least one Rule or Congr step",
    );
    rep.assume("only mutations whose invalidity is locally evident are used, so a mutation that happens to stay valid cannot raise an alarm");
    rep.run_regressions(&C12);
    rep.explore(&C12, rep.tier.pick(2500, 40_000), 500);
}
