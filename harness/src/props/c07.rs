//! C07 — extraction returns a member of the class, at the minimum cost.
//!
//! E-graphs are produced by generated programs with cyclic classes, zero-cost
//! constructors, exact ties, costs at and near i64::MAX (so that sums saturate
//! u64), container-typed children, subsumed / :unextractable / deleted nodes.
//! EVERY class of the final e-graph is a root (through EGraph::extract_value,
//! so that classes without a printable name are covered too), plus textual
//! `(extract t)` / `(extract t k)` on named classes.
//! Oracle, computed independently over the raw dump: (1) the printed term
//! re-evaluated through the dump lands in the root's class, (2) every node of it
//! is a non-subsumed row of an extractable constructor, (3) reported cost = the
//! harness's saturating tree cost of the printed term, (4) = the least fixpoint
//! of the cost equations, (5) extraction fails iff that fixpoint is infinite,
//! (6) variants: each in the class, distinct root e-nodes, count = min(k, legal
//! finite-cost root nodes).

use super::*;
use crate::choice::{fnv_str, Src};
use crate::eng::{raw_dump, RawDump, TableKind, Val};
use crate::fw::{catch, Outcome, Report, Stage};
use crate::pgen::{simplify_prog, Gen, GenCfg};
use egglog::{CommandOutput, EGraph, Value};
use std::collections::BTreeMap;

pub struct C07 {
    pub cfg: GenCfg,
    pub name: &'static str,
}

/// canonical key of a value, independent of sort names (containers by kind + contents)
fn vkey(v: &Val) -> String {
    match v {
        Val::Base(s) => format!("b:{s}"),
        Val::Class(s, _, c) => format!("c:{s}:{c}"),
        Val::Cont(_, kind, _, es) => {
            let mut parts: Vec<String> = es.iter().map(vkey).collect();
            if kind == "SetSort" || kind == "MultiSetSort" {
                parts.sort();
            }
            format!("k:{kind}[{}]", parts.join(","))
        }
        Val::RelOut => "()".into(),
    }
}

struct Oracle<'a> {
    sig: &'a Sig,
    dump: &'a RawDump,
    /// (table, input keys) -> (output key, subsumed)
    rows: BTreeMap<(String, Vec<String>), (String, bool)>,
    /// class key -> least fixpoint cost (absent = infinite)
    cost: BTreeMap<String, u64>,
}

fn head_cost(sig: &Sig, name: &str) -> Option<u64> {
    let f = sig.funcs.iter().find(|f| f.name == name)?;
    match &f.kind {
        FKind::Ctor { cost, unextractable } => {
            if *unextractable { None } else { Some(cost.map(|c| c as u64).unwrap_or(1)) }
        }
        _ => None,
    }
}

impl<'a> Oracle<'a> {
    fn new(sig: &'a Sig, dump: &'a RawDump) -> Self {
        let mut rows = BTreeMap::new();
        for t in &dump.tables {
            for r in &t.rows {
                let (out, ins) = r.vals.split_last().unwrap();
                rows.insert((t.name.clone(), ins.iter().map(vkey).collect()), (vkey(out), r.subsumed));
            }
        }
        let mut o = Oracle { sig, dump, rows, cost: BTreeMap::new() };
        o.fixpoint();
        o
    }

    fn val_cost(&self, v: &Val) -> Option<u64> {
        match v {
            Val::Base(_) => Some(1),
            Val::Class(..) => self.cost.get(&vkey(v)).copied(),
            Val::Cont(_, _, _, es) => {
                let mut s = 0u64;
                for e in es {
                    s = s.saturating_add(self.val_cost(e)?);
                }
                Some(s)
            }
            Val::RelOut => None,
        }
    }

    fn row_cost(&self, table: &str, ins: &[Val]) -> Option<u64> {
        let mut c = head_cost(self.sig, table)?;
        for v in ins {
            c = c.saturating_add(self.val_cost(v)?);
        }
        Some(c)
    }

    fn fixpoint(&mut self) {
        loop {
            let mut changed = false;
            for t in &self.dump.tables {
                if t.kind != TableKind::Constructor || head_cost(self.sig, &t.name).is_none() {
                    continue;
                }
                for r in &t.rows {
                    if r.subsumed {
                        continue;
                    }
                    let (out, ins) = r.vals.split_last().unwrap();
                    if let Some(c) = self.row_cost(&t.name, ins) {
                        let k = vkey(out);
                        match self.cost.get(&k) {
                            Some(cur) if *cur <= c => {}
                            _ => {
                                self.cost.insert(k, c);
                                changed = true;
                            }
                        }
                    }
                }
            }
            if !changed {
                break;
            }
        }
    }

    /// legal root e-nodes of a class with a finite cost
    fn legal_roots(&self, class_key: &str) -> usize {
        let mut n = 0;
        for t in &self.dump.tables {
            if t.kind != TableKind::Constructor || head_cost(self.sig, &t.name).is_none() {
                continue;
            }
            for r in &t.rows {
                let (out, ins) = r.vals.split_last().unwrap();
                if !r.subsumed && vkey(out) == class_key && self.row_cost(&t.name, ins).is_some() {
                    n += 1;
                }
            }
        }
        n
    }

    /// evaluate a printed term through the dump: (value key, tree cost); Err describes the illegal node
    fn eval(&self, t: &Term) -> Result<(String, u64), String> {
        match t {
            Term::I(i) => Ok((format!("b:{i}"), 1)),
            Term::B(b) => Ok((format!("b:{b}"), 1)),
            Term::Var(v) => Err(format!("variable {v} in extracted term")),
            Term::Prim(op, args) => {
                let kind = match op.as_str() {
                    "vec-of" | "vec-empty" => "VecSort",
                    "set-of" | "set-empty" => "SetSort",
                    "multiset-of" => "MultiSetSort",
                    other => return Err(format!("unexpected primitive {other} in extracted term")),
                };
                let mut parts = vec![];
                let mut cost = 0u64;
                for a in args {
                    let (k, c) = self.eval(a)?;
                    parts.push(k);
                    cost = cost.saturating_add(c);
                }
                if kind != "VecSort" {
                    parts.sort();
                    if kind == "SetSort" {
                        parts.dedup();
                    }
                }
                Ok((format!("k:{kind}[{}]", parts.join(",")), cost))
            }
            Term::App(f, args) => {
                let name = &self.sig.funcs[*f].name;
                let Some(hc) = head_cost(self.sig, name) else {
                    return Err(format!("node {} uses {name}, which is not an extractable constructor", self.sig.term(t)));
                };
                let mut keys = vec![];
                let mut cost = hc;
                for a in args {
                    let (k, c) = self.eval(a)?;
                    keys.push(k);
                    cost = cost.saturating_add(c);
                }
                match self.rows.get(&(name.clone(), keys)) {
                    None => Err(format!("node {} is not a row of table {name}", self.sig.term(t))),
                    Some((_, true)) => Err(format!("node {} is a SUBSUMED row of {name}", self.sig.term(t))),
                    Some((out, false)) => Ok((out.clone(), cost)),
                }
            }
        }
    }
}

impl C07 {
    /// check one successful extraction of `root_key`
    fn judge(&self, o: &Oracle, root_key: &str, printed: &str, reported: u64, what: &str, out: &mut Outcome) -> bool {
        let Some(term) = o.sig.parse_term(printed) else {
            out.fail("extracted-term-unparsable", format!("{what}: printed term `{printed}` does not parse back"));
            return false;
        };
        match o.eval(&term) {
            Err(e) => {
                let sig = if e.contains("SUBSUMED") {
                    "extracted-subsumed-node"
                } else if e.contains("not an extractable") {
                    "extracted-unextractable-node"
                } else {
                    "extracted-node-not-in-database"
                };
                out.fail(sig, format!("{what}: `{printed}`: {e}"));
                false
            }
            Ok((k, tree_cost)) => {
                if k != root_key {
                    out.fail("extracted-term-outside-class", format!("{what}: `{printed}` evaluates to {k}, the root class is {root_key}"));
                    return false;
                }
                if tree_cost != reported {
                    out.fail("reported-cost-differs-from-tree-cost", format!("{what}: `{printed}` reported cost {reported}, its (saturating) tree cost under the declared :cost annotations is {tree_cost}"));
                    return false;
                }
                match o.cost.get(root_key) {
                    Some(best) if *best == reported => true,
                    Some(best) => {
                        out.fail("extraction-not-minimal", format!("{what}: `{printed}` has cost {reported}, but the class has a legal term of cost {best}"));
                        false
                    }
                    None => {
                        out.fail("oracle-inconsistent", format!("{what}: extraction succeeded with a legal term `{printed}` but the fixpoint found none"));
                        false
                    }
                }
            }
        }
    }

    fn examine(&self, eg: &EGraph, sig: &Sig, idx: usize, out: &mut Outcome) -> (usize, usize, usize) {
        let dump = raw_dump(eg);
        let o = Oracle::new(sig, &dump);
        // all classes of user sorts
        let mut classes: BTreeMap<String, (String, u32)> = BTreeMap::new();
        for t in &dump.tables {
            for r in &t.rows {
                for v in &r.vals {
                    let mut stack = vec![v];
                    while let Some(x) = stack.pop() {
                        match x {
                            Val::Class(s, _, c) => {
                                classes.insert(vkey(x), (s.clone(), *c));
                            }
                            Val::Cont(_, _, _, es) => stack.extend(es.iter()),
                            _ => {}
                        }
                    }
                }
            }
        }
        let namer = crate::eng::name_classes(&dump);
        let (mut interesting, mut saturating, mut failing) = (0, 0, 0);
        for (key, (sort_name, rep)) in &classes {
            let Some(sort) = eg.get_sort_by_name(sort_name).cloned() else { continue };
            let res = catch(|| eg.extract_value_to_string(&sort, Value::new_const(*rep)));
            out.count("classes_extracted", 1);
            let what = format!("after command #{idx}: extract_value of class {key}");
            match res {
                Err(p) => {
                    // root cause key: a class whose (saturated) cost u64::MAX was reached before a child improved
                    // keeps a stale topological rank, no parent edge passes the rank guard, reconstruct unwraps None
                    let saturated_somewhere = o.cost.values().any(|c| *c == u64::MAX);
                    if saturated_somewhere && p.contains("extract.rs") && p.contains("unwrap") {
                        out.soft.push(crate::fw::Violation::new(
                            "extract-panics-no-parent-edge-under-saturated-cost",
                            format!("{what} panicked although the class has a legal term of cost {:?}: {p}", o.cost.get(key)),
                        ));
                        out.count("known_saturation_panics", 1);
                        continue;
                    }
                    out.fail(format!("panic:{}", crate::fw::panic_key(&p)), format!("{what} panicked: {p}"));
                    return (interesting, saturating, failing);
                }
                Ok(Ok((printed, cost))) => {
                    if !self.judge(&o, key, &printed, cost, &what, out) {
                        return (interesting, saturating, failing);
                    }
                    let n = o.legal_roots(key);
                    if n >= 2 {
                        interesting += 1;
                    }
                    if cost == u64::MAX {
                        saturating += 1;
                    }
                }
                Ok(Err(e)) => {
                    failing += 1;
                    if let Some(best) = o.cost.get(key) {
                        out.fail("extraction-failed-although-term-exists", format!("{what} failed ({e}) but the class has a legal finite term of cost {best}"));
                        return (interesting, saturating, failing);
                    }
                }
            }
            // textual extract / variants on named classes
            let v = Val::Class(sort_name.clone(), *rep, *rep);
            if let Some((_, name)) = namer.name(&v) {
                if name.contains(['?', '#', '[']) {
                    continue;
                }
                let mut clone = eg.clone();
                let k = 1 + (rep % 4) as usize;
                let text = format!("(extract {name} {k})");
                match crate::eng::run_raw(&mut clone, &text) {
                    Err(p) => {
                        let saturated_somewhere = o.cost.values().any(|c| *c == u64::MAX);
                        if saturated_somewhere && p.contains("extract.rs") && p.contains("unwrap") {
                            out.soft.push(crate::fw::Violation::new(
                                "extract-panics-no-parent-edge-under-saturated-cost",
                                format!("after command #{idx}: `{text}` panicked: {p}"),
                            ));
                            continue;
                        }
                        out.fail(format!("panic:{}", crate::fw::panic_key(&p)), format!("after command #{idx}: `{text}` panicked: {p}"));
                        return (interesting, saturating, failing);
                    }
                    Ok(Ok(outs)) => {
                        for co in outs {
                            if let CommandOutput::ExtractVariants(td, terms) = co {
                                out.count("variant_extractions", 1);
                                let want = k.min(o.legal_roots(key));
                                if terms.len() != want {
                                    out.fail(
                                        "wrong-number-of-variants",
                                        format!("after command #{idx}: `{text}` returned {} variants; the class has {} legal finite-cost root e-nodes, so min(k, that) = {want}", terms.len(), o.legal_roots(key)),
                                    );
                                    return (interesting, saturating, failing);
                                }
                                let mut roots = std::collections::BTreeSet::new();
                                for t in &terms {
                                    let printed = td.to_string(*t);
                                    let Some(term) = sig.parse_term(&printed) else { continue };
                                    match o.eval(&term) {
                                        Ok((kk, _)) if kk == *key => {}
                                        Ok((kk, _)) => {
                                            out.fail("variant-outside-class", format!("after command #{idx}: `{text}`: variant `{printed}` evaluates to {kk}, not {key}"));
                                            return (interesting, saturating, failing);
                                        }
                                        Err(e) => {
                                            out.fail("variant-illegal-node", format!("after command #{idx}: `{text}`: variant `{printed}`: {e}"));
                                            return (interesting, saturating, failing);
                                        }
                                    }
                                    // root e-node identity = (constructor, canonical children)
                                    if let Term::App(f, args) = &term {
                                        let ck: Vec<String> = args.iter().map(|a| o.eval(a).map(|x| x.0).unwrap_or_default()).collect();
                                        if !roots.insert((*f, ck)) {
                                            out.fail("variants-share-root-enode", format!("after command #{idx}: `{text}`: two variants are rooted at the same e-node: {printed}"));
                                            return (interesting, saturating, failing);
                                        }
                                    }
                                }
                            }
                        }
                    }
                    Ok(Err(_)) => {}
                }
            }
        }
        (interesting, saturating, failing)
    }
}

impl Stage for C07 {
    type Input = Prog;
    fn name(&self) -> &'static str {
        self.name
    }
    fn decode(&self, src: &mut Src) -> Prog {
        Gen::new(src, self.cfg.clone()).gen_prog()
    }
    fn render(&self, inp: &Prog) -> serde_json::Value {
        serde_json::json!(inp.text().lines().collect::<Vec<_>>())
    }
    fn simplify(&self, inp: &Prog) -> Vec<Prog> {
        simplify_prog(inp)
    }
    fn check(&self, prog: &Prog) -> Outcome {
        let mut out = Outcome::new(fnv_str(&prog.text()));
        let mut eg = EGraph::default();
        if !declare(&mut eg, &prog.sig, &mut out) {
            return out;
        }
        let (mut interesting, mut saturating, mut failing) = (0, 0, 0);
        let n = prog.cmds.len();
        for (i, c) in prog.cmds.iter().enumerate() {
            let text = prog.sig.cmd(c);
            match eng::run(&mut eg, &text) {
                CmdRes::Panic(p) => {
                    out.fail(format!("panic:{}", crate::fw::panic_key(&p)), format!("command #{i} `{text}` panicked: {p}"));
                    return out;
                }
                CmdRes::Err(ErrKind::Static, _) => {
                    out.class("gen-invalid-cmd");
                    break;
                }
                _ => {}
            }
            // examine some intermediate e-graphs and always the final one
            if i + 1 == n || i % 5 == 4 {
                let (a, b, c2) = self.examine(&eg, &prog.sig, i, &mut out);
                interesting += a;
                saturating += b;
                failing += c2;
                if out.fail.is_some() {
                    return out;
                }
            }
        }
        if interesting > 0 {
            out.class("class-with>=2-legal-enodes");
        }
        if saturating > 0 {
            out.class("saturating-cost");
        }
        if failing > 0 {
            out.class("class-without-legal-term");
        }
        out.nontrivial = interesting > 0 || failing > 0;
        out
    }
}

pub fn cfg() -> GenCfg {
    GenCfg { costs: true, big_costs: false, subsume: true, delete: true, containers: true, max_cmds: 16, min_cmds: 5, ..GenCfg::default() }
}
/// costs near i64::MAX: sums saturate u64 (the known finding lives here and is tolerated by signature, counted)
pub fn cfg_big() -> GenCfg {
    GenCfg { big_costs: true, ..cfg() }
}

pub fn replay(rep: &Report, stage: &str, j: &serde_json::Value) -> i32 {
    match stage {
        "extraction-saturating" => crate::registry::replay_stage(rep, &C07 { cfg: cfg_big(), name: "extraction-saturating" }, j),
        _ => crate::registry::replay_stage(rep, &C07 { cfg: cfg(), name: "extraction" }, j),
    }
}

pub fn run(rep: &Report) {
    rep.set_rule(
        "cases = e-graphs produced by generated programs with :cost annotations (0, small, i64::MAX, i64::MAX-1, i64::MAX/2), :unextractable, subsume, delete, cyclic classes, containers as children; every class of the final and of some intermediate e-graphs is extracted (EGraph::extract_value; textual (extract t k) on named classes); \
         oracle over the raw dump: membership by re-evaluation, legality of every node, reported cost = saturating tree cost = least fixpoint of the cost equations, failure iff no legal finite term, variants distinct-rooted and counted. \
         non-trivial = distinct program with a class having >=2 legal e-nodes or a class without any legal term",
    );
    rep.assume("tree-additive default cost model: head cost (default 1) + sum of children, base value 1, container = sum of elements, saturating u64");
    let st = C07 { cfg: cfg(), name: "extraction" };
    rep.run_regressions(&st);
    rep.explore(&st, rep.tier.pick(10_000, 50_000), 600);
    let big = C07 { cfg: cfg_big(), name: "extraction-saturating" };
    rep.run_regressions(&big);
    rep.explore(&big, rep.tier.pick(6000, 30_000), 600);
}
