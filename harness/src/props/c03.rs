//! C03 — semi-naive evaluation is observationally identical to naive evaluation.
//!
//! Differential: the same generated monotone history on EGraph{seminaive:true}
//! and EGraph{seminaive:false}; every `(run n)` is executed as n single
//! iterations so that EVERY iteration boundary is compared (canonical dumps,
//! Ok/Err, check outcomes). On the reference fragment both are additionally
//! compared with the naive reference interpreter, so "both wrong the same way"
//! is caught there.

use super::*;
use crate::choice::{fnv_str, Src};
use crate::eng::CanonDump;
use crate::fw::{Outcome, Report, Stage, Tier};
use crate::pgen::{simplify_prog, Gen, GenCfg};

pub struct C03 {
    pub cfg: GenCfg,
    pub name: &'static str,
    pub with_model: bool,
}

/// split (run n) into n x (run 1) so each iteration boundary is observable
pub fn expand_runs(p: &Prog) -> Prog {
    let mut cmds = vec![];
    for c in &p.cmds {
        match c {
            Cmd::RunN { rs, n, until } if *n > 1 => {
                for _ in 0..*n {
                    cmds.push(Cmd::RunN { rs: *rs, n: 1, until: until.clone() });
                }
            }
            other => cmds.push(other.clone()),
        }
    }
    Prog { sig: p.sig.clone(), cmds }
}

/// histories whose database outgrows this are dropped (counted as `too-big`), not judged:
/// a work bound, not a correctness signal
pub const MAX_TUPLES: usize = 6000;

pub struct DiffStats {
    pub iterations_changed: usize,
    pub late_rule_fired: bool,
    pub rulesets_run: usize,
}

/// Run `prog` on a semi-naive and a naive engine in lockstep. Returns stats, or None if stopped early.
pub fn seminaive_diff(prog: &Prog, with_model: bool, out: &mut Outcome) -> DiffStats {
    let mut stats = DiffStats { iterations_changed: 0, late_rule_fired: false, rulesets_run: 0 };
    let mut a = engine();
    let mut b = engine();
    b.seminaive = false;
    if !declare(&mut a, &prog.sig, out) || !declare(&mut b, &prog.sig, out) {
        return stats;
    }
    let mut model = Model::new(&prog.sig);
    let mut model_alive = with_model;
    let mut prev: CanonDump = canon_dump(&a);
    let mut writes_before_rule = 0usize;
    let mut late_rule_pending = false;
    let mut rs_seen: Vec<Option<usize>> = vec![];
    for (i, c) in prog.cmds.iter().enumerate() {
        let text = prog.sig.cmd(c);
        // the reference model goes first: it carries the work bounds (match budget, state size,
        // saturation bound), so a history that explodes is dropped before the engines run it
        let mut model_ok = false;
        if model_alive {
            match model.apply(c) {
                Ok(_) => model_ok = true,
                Err(Stop::Discard(why)) if why.contains("budget") || why.contains("too large") || why.contains("converge") => {
                    out.class("too-big");
                    return stats;
                }
                Err(_) => model_alive = false,
            }
        }
        if a.num_tuples() > MAX_TUPLES {
            out.class("too-big");
            return stats;
        }
        let ra = eng::run(&mut a, &text);
        let rb = eng::run(&mut b, &text);
        if let CmdRes::Panic(p) = &ra {
            out.fail(format!("panic:{}", crate::fw::panic_key(p)), format!("semi-naive engine panicked on #{i} `{text}`: {p}"));
            return stats;
        }
        if let CmdRes::Panic(p) = &rb {
            out.fail(format!("panic:{}", crate::fw::panic_key(p)), format!("naive engine panicked on #{i} `{text}`: {p}"));
            return stats;
        }
        if ra.kind() != rb.kind() || matches!((&ra, &rb), (CmdRes::Err(ka, _), CmdRes::Err(kb, _)) if ka != kb) {
            out.fail("result-differs", format!("command #{i} `{text}`: semi-naive gave {}, naive gave {}", ra.short(), rb.short()));
            return stats;
        }
        match &ra {
            CmdRes::Err(ErrKind::Static, m) => {
                out.class("gen-invalid-cmd");
                out.count("gen_invalid", 1);
                if std::env::var("VERIF_DEBUG").is_ok() {
                    eprintln!("rejected: {text}: {m}");
                }
                return stats;
            }
            CmdRes::Err(ErrKind::Check, _) => {}
            CmdRes::Err(_, _) => {
                // run-time failure on both sides: outside the monotone claim, stop comparing
                out.class("both-runtime-error");
                return stats;
            }
            _ => {}
        }
        if let (CmdRes::Ok(oa), CmdRes::Ok(ob)) = (&ra, &rb) {
            // outputs other than run reports must agree (extract / print-size)
            let fa: Vec<&String> = oa.iter().filter(|s| !s.starts_with("(run-report")).collect();
            let fb: Vec<&String> = ob.iter().filter(|s| !s.starts_with("(run-report")).collect();
            if fa != fb {
                out.fail("output-differs", format!("command #{i} `{text}`: outputs differ: semi-naive {:?} vs naive {:?}", fa, fb));
                return stats;
            }
        }
        let da = canon_dump(&a);
        let db = canon_dump(&b);
        if da != db {
            out.fail(
                "seminaive-dump-differs",
                format!("after command #{i} `{text}`: semi-naive database (left) differs from naive database (right):\n{}", da.diff(&db)),
            );
            return stats;
        }
        // bookkeeping for non-triviality
        match c {
            Cmd::Act(_) => writes_before_rule += 1,
            Cmd::Rule { .. } | Cmd::Rewrite { .. } => {
                if writes_before_rule >= 2 && i >= 3 {
                    late_rule_pending = true;
                }
            }
            Cmd::RunN { rs, .. } => {
                if !rs_seen.contains(rs) {
                    rs_seen.push(*rs);
                }
                if da != prev {
                    stats.iterations_changed += 1;
                    if late_rule_pending {
                        stats.late_rule_fired = true;
                    }
                }
                writes_before_rule += 1;
            }
            Cmd::Sched(_) => {
                if da != prev {
                    stats.iterations_changed += 1;
                }
            }
            _ => {}
        }
        prev = da;
        if model_alive && model_ok {
            let md = canon_from_raw(&model.raw_dump(), &CanonOpts::default());
            if md != prev {
                out.fail(
                    "both-differ-from-model",
                    format!("after command #{i} `{text}`: both engines agree with each other (left) but differ from the reference model (right):\n{}", prev.diff(&md)),
                );
                return stats;
            }
        }
    }
    stats.rulesets_run = rs_seen.len();
    stats
}

impl Stage for C03 {
    type Input = Prog;
    fn name(&self) -> &'static str {
        self.name
    }
    fn decode(&self, src: &mut Src) -> Prog {
        expand_runs(&Gen::new(src, self.cfg.clone()).gen_prog())
    }
    fn render(&self, inp: &Prog) -> serde_json::Value {
        serde_json::json!(inp.text().lines().collect::<Vec<_>>())
    }
    fn simplify(&self, inp: &Prog) -> Vec<Prog> {
        simplify_prog(inp)
    }
    fn check(&self, prog: &Prog) -> Outcome {
        let mut out = Outcome::new(fnv_str(&prog.text()));
        let st = seminaive_diff(prog, self.with_model, &mut out);
        if st.iterations_changed >= 2 {
            out.class("iterations-changed>=2");
        }
        if st.late_rule_fired {
            out.class("late-rule-fired");
        }
        if st.rulesets_run >= 2 {
            out.class("rulesets-interleaved>=2");
        }
        out.nontrivial = st.iterations_changed >= 2 || st.late_rule_fired;
        out
    }
}

pub fn cfg() -> GenCfg {
    GenCfg { max_cmds: 18, min_cmds: 5, subsume: true, containers: true, max_run: 4, ..GenCfg::default() }
}

pub fn replay(rep: &Report, stage: &str, j: &serde_json::Value) -> i32 {
    match stage {
        "corpus" => crate::registry::replay_stage(rep, &super::corpus::CorpusDiff::seminaive(), j),
        _ => crate::registry::replay_stage(rep, &C03 { cfg: cfg(), name: "seminaive-vs-naive", with_model: true }, j),
    }
}

pub fn run(rep: &Report) {
    rep.set_rule(
        "cases = typed monotone egglog histories (inserts, lattice sets, unions, subsumes, rules/rewrites declared at any point, several rulesets, schedules) decoded from proptest bytes, \
         every (run n) split into n single iterations; each runs on a semi-naive and a naive engine, canonical dumps + results compared after every command/iteration (and with the reference model while it applies); \
         plus the repository's .egg files run whole under both settings. non-trivial = distinct program in which at least two iterations changed the database or a rule declared after >=2 earlier writes fired",
    );
    rep.assume("canonical dump (least-term naming over the public read API) identifies databases up to renaming of e-class ids");
    let stage = C03 { cfg: cfg(), name: "seminaive-vs-naive", with_model: true };
    rep.run_regressions(&stage);
    rep.explore(&stage, rep.tier.pick(2500, 60_000), 600);
    if rep.tier == Tier::Thorough {
        let big = C03 { cfg: GenCfg { max_cmds: 45, min_cmds: 15, ..cfg() }, name: "seminaive-vs-naive", with_model: true };
        rep.explore(&big, 8000, 1500);
    }
    super::corpus::run_corpus(rep, &super::corpus::CorpusDiff::seminaive());
}
