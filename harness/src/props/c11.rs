//! C11 — term and proof encodings preserve observable behaviour.
//!
//! Differential over four executions of every generated program that the
//! repository's own `program_supports_proofs` accepts (rejections are counted by
//! reason): plain engine, term encoding, proofs enabled — compared PER COMMAND
//! (Ok/Err kind + `snapshot_stable_under_proof_encoding` text: check outcomes,
//! extraction costs, sizes) — and the desugared encoded program printed and fed
//! to a plain engine (compared on the whole-program stable snapshot). Plus the
//! proof-supporting files of the repo's corpus.

use crate::choice::{fnv_str, Src};
use crate::fw::{catch, Outcome, Report, Stage};
use crate::pgen::{simplify_prog, Gen, GenCfg};
use crate::prog::{Action, Cmd, Prog};
use crate::refegg::{Model, Stop};
use crate::runner::{run_text, RunCfg, RunResult};
use egglog::{CommandOutput, EGraph};

pub struct C11 {
    pub cfg: GenCfg,
    pub name: &'static str,
}

/// main stage: the two triaged divergences are excluded by construction (no empty container literal, no delete)
pub fn cfg() -> GenCfg {
    GenCfg { no_empty_containers: true, delete: false, no_toplevel_subsume_delete: true, one_container_sort_per_table: true, no_container_func_keys: true, ..cfg_all() }
}

/// the main stage's exclusions, but lattice functions may be keyed by containers of e-classes (tables with an
/// eq-container column and no eq-sort column)
pub fn cfg_cont_keys() -> GenCfg {
    GenCfg { no_container_func_keys: false, ..cfg() }
}

/// everything the encoder declares supported, including the triggers of the known findings (tolerated by signature)
pub fn cfg_all() -> GenCfg {
    GenCfg { subsume: true, delete: true, containers: true, costs: true, extract_cmds: true, push_pop: true, rule_opts: false, max_cmds: 12, min_cmds: 4, max_run: 3, ..GenCfg::default() }
}

pub fn supported(text: &str) -> Result<(), String> {
    let mut eg = EGraph::default();
    match catch(|| eg.resolve_program(None, text)) {
        Ok(Ok(cmds)) => {
            if egglog::program_supports_proofs(&cmds, eg.type_info()) { Ok(()) } else { Err("program_supports_proofs=false".into()) }
        }
        Ok(Err(e)) => Err(format!("does not resolve: {}", e.to_string().lines().last().unwrap_or(""))),
        Err(p) => Err(format!("PANIC {p}")),
    }
}

fn mode_cfg(mode: &str) -> RunCfg {
    RunCfg { mode: mode.into(), final_dump: false, ..RunCfg::default() }
}

/// first per-command difference between two runs
pub fn diff_per_command(a: &RunResult, b: &RunResult, la: &str, lb: &str) -> Option<String> {
    if a.parse_error != b.parse_error {
        return Some(format!("parse result: {la}={:?} {lb}={:?}", a.parse_error, b.parse_error));
    }
    for (i, (x, y)) in a.cmds.iter().zip(b.cmds.iter()).enumerate() {
        if x.res != y.res {
            return Some(format!("command #{i} `{}`: {la} gives {} ({}), {lb} gives {} ({})", x.text, x.res, x.err.lines().last().unwrap_or(""), y.res, y.err.lines().last().unwrap_or("")));
        }
        if x.stable != y.stable {
            return Some(format!("command #{i} `{}`: {la} output {:?}, {lb} output {:?}", x.text, x.stable, y.stable));
        }
    }
    if a.cmds.len() != b.cmds.len() {
        return Some(format!("{la} executed {} commands, {lb} executed {}", a.cmds.len(), b.cmds.len()));
    }
    None
}

/// resolve under the encoding, print, run on a plain engine; returns the whole-program stable snapshot
pub fn reparse_run(text: &str, mode: &str) -> Result<String, String> {
    let mut enc = crate::runner::make_egraph(&mode_cfg(mode));
    let resolved = match catch(|| enc.resolve_program(None, text)) {
        Ok(Ok(r)) => r,
        Ok(Err(e)) => return Err(format!("resolve_program failed: {e}")),
        Err(p) => return Err(format!("PANIC in resolve_program: {p}")),
    };
    let printed: Vec<String> = resolved.iter().map(|c| c.to_string()).collect();
    let mut plain = EGraph::default();
    plain.ensure_no_reserved_symbols(false);
    let mut outs: Vec<CommandOutput> = vec![];
    for (i, p) in printed.iter().enumerate() {
        match catch(|| plain.parse_and_run_program(None, p)) {
            Ok(Ok(o)) => outs.extend(o),
            Ok(Err(e)) => return Err(format!("printed encoded command #{i} `{}` failed on a plain engine: {e}", p.chars().take(300).collect::<String>())),
            Err(pn) => return Err(format!("PANIC running printed encoded command #{i}: {pn}")),
        }
    }
    Ok(CommandOutput::snapshot_stable_under_proof_encoding(&outs))
}

impl Stage for C11 {
    type Input = Prog;
    fn name(&self) -> &'static str {
        self.name
    }
    fn decode(&self, src: &mut Src) -> Prog {
        Gen::new(src, self.cfg.clone()).gen_prog()
    }
    fn render(&self, inp: &Prog) -> serde_json::Value {
        serde_json::json!(inp.text().lines().collect::<Vec<_>>())
    }
    fn simplify(&self, inp: &Prog) -> Vec<Prog> {
        simplify_prog(inp)
    }
    fn check(&self, prog: &Prog) -> Outcome {
        let mut out = Outcome::new(fnv_str(&prog.text()));
        // A rule that deletes a row which the same iteration also looks up or writes has an order-dependent result
        // (the engine applies removals before inserts; the property does not define it, and an encoding cannot be
        // asked to preserve it). The reference model detects exactly that conflict; the history is judged up to the
        // command before it. Where the model cannot follow the program any more, a history with rule-level deletes
        // is judged up to the next run.
        let rule_deletes = prog.cmds.iter().any(|c| matches!(c, Cmd::Rule { head, .. } if head.iter().any(|a| matches!(a, Action::Delete(..)))));
        let mut keep = prog.cmds.len();
        if rule_deletes {
            let mut model = Model::new(&prog.sig);
            let mut alive = true;
            for (i, c) in prog.cmds.iter().enumerate() {
                let runs = matches!(c, Cmd::RunN { .. } | Cmd::Sched(_));
                if alive {
                    match model.apply(c) {
                        Ok(_) | Err(Stop::Error(_)) => {}
                        Err(Stop::Discard(why)) if why.contains("delete conflicts") => {
                            out.class("order-dependent-delete(prefix judged)");
                            keep = i;
                            break;
                        }
                        Err(Stop::Discard(_)) => alive = false,
                    }
                }
                if !alive && runs {
                    out.class("rule-delete-beyond-model(prefix judged)");
                    keep = i;
                    break;
                }
            }
        }
        let text = if keep == prog.cmds.len() { prog.text() } else { Prog { sig: prog.sig.clone(), cmds: prog.cmds[..keep].to_vec() }.text() };
        judge_text(&text, &mut out);
        out
    }
}

pub fn judge_text(text: &str, out: &mut Outcome) {
    if let Err(why) = supported(text) {
        out.class(format!("outside-fragment:{}", why.chars().take(40).collect::<String>()));
        return;
    }
    let plain = run_text(None, text, &mode_cfg("plain"));
    if let Some(c) = plain.cmds.iter().find(|c| c.res == "panic") {
        out.class("plain-panics");
        let _ = c;
        return;
    }
    // commands failing at run time on the plain engine (e.g. extraction of a class without legal term) are compared too
    for mode in ["term", "proofs"] {
        let enc = run_text(None, text, &mode_cfg(mode));
        if let Some(c) = enc.cmds.iter().find(|c| c.res == "panic") {
            let empty_lit = ["(vec-of)", "(set-of)", "(multiset-of)"].iter().any(|l| c.text.contains(l));
            if empty_lit && c.err.contains("no entry found for key") {
                out.soft.push(crate::fw::Violation::new("encoding:empty-container-literal-panics", format!("[{mode}] `{}` panicked (plain engine does not): {}", c.text, c.err)));
                out.class("known:empty-container-literal-panic");
                return;
            }
            out.fail(format!("panic:{mode}:{}", crate::fw::panic_key(&c.err)), format!("[{mode}] `{}` panicked (plain engine does not): {}", c.text, c.err));
            return;
        }
        if let Some(c) = enc.cmds.iter().find(|c| c.err.contains("not supported by the current proof term encoding")) {
            out.class(format!("unsupported-after-accept:{mode}"));
            let _ = c;
            return;
        }
        if let Some(d) = diff_per_command(&plain, &enc, "plain", mode) {
            // root-cause keys for the divergences already triaged (see known-findings.jsonl)
            let empty_lit = ["(vec-of)", "(set-of)", "(multiset-of)"].iter().any(|l| text.contains(l));
            if d.contains("Failed to infer a type") && empty_lit {
                out.soft.push(crate::fw::Violation::new("encoding:empty-container-literal-fails-type-inference", format!("[{mode}] {d}")));
                out.class("known:empty-container-literal");
                return;
            }
            if reinserts_deleted_term(text) {
                out.soft.push(crate::fw::Violation::new("encoding:insert-after-delete-of-absent-row-lost", format!("[{mode}] {d}")));
                out.class("known:reinsert-after-delete");
                return;
            }
            if d.contains("to have type @Proof") && d.contains("-of") {
                out.soft.push(crate::fw::Violation::new("encoding:proofs:rule-body-function-keyed-by-container-literal", format!("[{mode}] {d}")));
                out.class("known:function-keyed-by-container-literal");
                return;
            }
            if d.contains("@@container_rebuild") {
                out.soft.push(crate::fw::Violation::new("encoding:table-with-two-container-sorts-rejected", format!("[{mode}] {d}")));
                out.class("known:two-container-sorts");
                return;
            }
            if subsume_of_absent_row(text) {
                out.soft.push(crate::fw::Violation::new("encoding:subsume-of-absent-row-not-materialised", format!("[{mode}] {d}")));
                out.class("known:subsume-absent-row");
                return;
            }
            if delete_after_merge(text) {
                out.soft.push(crate::fw::Violation::new("encoding:delete-misses-row-named-by-merged-term", format!("[{mode}] {d}")));
                out.class("known:delete-after-merge");
                return;
            }
            out.fail(format!("encoding-differs:{mode}"), d);
            return;
        }
        out.count("mode_runs", 1);
    }
    // print-reparse-run of the encoded program
    let whole_plain: String = plain.cmds.iter().map(|c| c.stable.clone()).collect::<Vec<_>>().join("");
    let all_ok = plain.cmds.iter().all(|c| c.res == "ok");
    if all_ok {
        for mode in ["term", "proofs"] {
            match reparse_run(text, mode) {
                Ok(snap) => {
                    out.count("reparse_runs", 1);
                    if snap != whole_plain {
                        out.fail(format!("reparsed-encoding-differs:{mode}"), format!("[{mode}] desugared encoded program, printed and run on a plain engine, gives {:?}; the source program gives {:?}", snap, whole_plain));
                        return;
                    }
                }
                Err(e) => {
                    if e.starts_with("PANIC") {
                        out.fail(format!("panic:reparse:{mode}:{}", crate::fw::panic_key(&e)), e);
                    } else if e.contains("@container_rebuild") {
                        // same root cause as the per-command form of this known finding: the generated container
                        // rebuild rule of a table with two container sorts is ill-typed (here it only shows when the
                        // printed encoding is resolved again)
                        out.soft.push(crate::fw::Violation::new("encoding:table-with-two-container-sorts-rejected", format!("[{mode}] {e}")));
                        out.class("known:two-container-sorts");
                    } else {
                        out.fail(format!("reparsed-encoding-rejected:{mode}"), e);
                    }
                    return;
                }
            }
        }
    } else {
        out.class("has-failing-command(no-reparse)");
    }
    let ran = plain.cmds.iter().any(|c| c.text.starts_with("(run") && c.res == "ok");
    let union = text.contains("(union") || text.contains("(rewrite");
    let observed = plain.cmds.iter().any(|c| !c.stable.is_empty());
    if ran {
        out.class("rules-ran");
    }
    if observed {
        out.class("has-observable-output");
    }
    out.nontrivial = ran && union && observed;
}

/// does a top-level command mention a term that an earlier top-level `(delete T)` removed?
pub fn reinserts_deleted_term(text: &str) -> bool {
    let lines: Vec<&str> = text.lines().collect();
    for (i, l) in lines.iter().enumerate() {
        if let Some(t) = l.trim().strip_prefix("(delete ") {
            let t = &t[..t.len().saturating_sub(1)];
            // the deleted row was absent (never mentioned before) and is inserted afterwards
            if !lines[..i].iter().any(|m| m.contains(t)) && lines[i + 1..].iter().any(|m| m.contains(t)) {
                return true;
            }
        }
    }
    false
}

/// a top-level `(delete T)` issued after some union / rewrite (so T may name its row only modulo equality)
pub fn delete_after_merge(text: &str) -> bool {
    let lines: Vec<&str> = text.lines().collect();
    for (i, l) in lines.iter().enumerate() {
        if l.trim().starts_with("(delete ") && lines[..i].iter().any(|m| m.trim().starts_with("(union ") || m.trim().starts_with("(rewrite ") || m.contains("(union ")) {
            return true;
        }
    }
    false
}

/// a top-level `(subsume T)` whose row T was never mentioned before (the plain engine inserts it as a subsumed row)
pub fn subsume_of_absent_row(text: &str) -> bool {
    let lines: Vec<&str> = text.lines().collect();
    for (i, l) in lines.iter().enumerate() {
        if let Some(t) = l.trim().strip_prefix("(subsume ") {
            let t = &t[..t.len().saturating_sub(1)];
            if !lines[..i].iter().any(|m| m.contains(t)) {
                return true;
            }
        }
    }
    false
}

/// explicit program texts (regression inputs for the known findings, hand-written minimal programs)
pub struct TextStage;

impl Stage for TextStage {
    type Input = String;
    fn name(&self) -> &'static str {
        "text"
    }
    fn decode(&self, _src: &mut Src) -> String {
        String::new()
    }
    fn check(&self, text: &String) -> Outcome {
        let mut out = Outcome::new(fnv_str(text));
        judge_text(text, &mut out);
        out
    }
}

pub struct CorpusC11;

impl Stage for CorpusC11 {
    type Input = String;
    fn name(&self) -> &'static str {
        "corpus"
    }
    fn decode(&self, src: &mut Src) -> String {
        let f = super::corpus::corpus_files(8_000);
        if f.is_empty() { String::new() } else { src.pick(&f).clone() }
    }
    fn check(&self, name: &String) -> Outcome {
        let mut out = Outcome::new(fnv_str(name));
        let path = format!("{}/{name}", super::corpus::REPO_TESTS);
        let Ok(text) = std::fs::read_to_string(&path) else { return out };
        // files upstream itself excludes from proof modes, or that read files relative to cwd
        let skip = ["math-microbenchmark", "rectangle", "eggcc-2mm", "subsume", "include", "input", "eqsolve"];
        if skip.iter().any(|s| name.contains(s)) || text.contains("(input") || text.contains("(include") || text.contains("(output") {
            out.class("skipped-upstream-exclusion");
            return out;
        }
        judge_text(&text, &mut out);
        out
    }
}

pub fn replay(rep: &Report, stage: &str, j: &serde_json::Value) -> i32 {
    match stage {
        "corpus" => crate::registry::replay_stage(rep, &CorpusC11, j),
        "text" => crate::registry::replay_stage(rep, &TextStage, j),
        "encodings-all-features" => crate::registry::replay_stage(rep, &C11 { cfg: cfg_all(), name: "encodings-all-features" }, j),
        "encodings-container-keyed-functions" => crate::registry::replay_stage(rep, &C11 { cfg: cfg_cont_keys(), name: "encodings-container-keyed-functions" }, j),
        _ => crate::registry::replay_stage(rep, &C11 { cfg: cfg(), name: "encodings" }, j),
    }
}

pub fn run(rep: &Report) {
    rep.set_rule(
        "cases = generated programs accepted by the repo's program_supports_proofs (constructors, relations, lattice functions, rules, rewrites, subsume/delete, push/pop, containers, extraction, print-size, checks) and the small proof-supporting .egg files; \
         each is run on the plain engine, under the term encoding and with proofs, compared per command (Ok/Err + stable snapshot text), and the encoded desugared program is printed and re-run on a plain engine (whole-program snapshot). \
         non-trivial = distinct program in which rules ran, a union/rewrite exists and an observable output follows",
    );
    rep.assume("upstream documents that a check resting on a subsumed row may diverge under the encoding (tests/files.rs skips subsume.egg); if such a divergence appears it is triaged before anything is claimed");
    rep.run_regressions(&TextStage);
    let st = C11 { cfg: cfg(), name: "encodings" };
    rep.run_regressions(&st);
    rep.explore(&st, rep.tier.pick(1200, 12_000), 500);
    let ck = C11 { cfg: cfg_cont_keys(), name: "encodings-container-keyed-functions" };
    rep.run_regressions(&ck);
    rep.explore(&ck, rep.tier.pick(700, 8000), 500);
    let all = C11 { cfg: cfg_all(), name: "encodings-all-features" };
    rep.run_regressions(&all);
    rep.explore(&all, rep.tier.pick(600, 6000), 500);
    // corpus: every small file once
    let files = super::corpus::corpus_files(8_000);
    let st2 = CorpusC11;
    let next = std::sync::atomic::AtomicUsize::new(0);
    std::thread::scope(|sc| {
        for _ in 0..rep.threads.max(1) {
            sc.spawn(|| loop {
                let i = next.fetch_add(1, std::sync::atomic::Ordering::Relaxed);
                if i >= files.len() || rep.stopped() {
                    break;
                }
                rep.run_one(&st2, &files[i]);
            });
        }
    });
}
