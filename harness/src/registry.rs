//! Dispatch: property id -> check, and replay of saved cases.

use crate::fw::{Report, Stage};
use crate::props;
use serde_json::Value as J;

pub fn run(rep: &Report) -> bool {
    match rep.prop.as_str() {
        "C01" => props::c01::run(rep),
        _ => return false,
    }
    true
}

fn replay_stage<S: Stage>(rep: &Report, stage: &S, j: &J) -> i32 {
    match serde_json::from_value::<S::Input>(j["input"].clone()) {
        Ok(inp) => {
            // strict: known findings are reported as violations too when replaying
            let v = rep.run_one(stage, &inp);
            if v.is_some() { 1 } else { println!("replay: no violation"); 0 }
        }
        Err(e) => {
            eprintln!("cannot decode replay input: {e}");
            2
        }
    }
}

pub fn replay(rep: &Report, path: &str) -> i32 {
    unsafe { std::env::set_var("VERIF_NO_EVIDENCE", "1") };
    let Ok(s) = std::fs::read_to_string(path) else {
        eprintln!("cannot read {path}");
        return 2;
    };
    let Ok(j) = serde_json::from_str::<J>(&s) else {
        eprintln!("cannot parse {path}");
        return 2;
    };
    let stage = j["stage"].as_str().unwrap_or("");
    match (rep.prop.as_str(), stage) {
        ("C01", _) => replay_stage(rep, &props::c01::C01 { cfg: Default::default(), pairs_per_prefix: 5 }, &j),
        _ => {
            eprintln!("no replay handler for {}/{}", rep.prop, stage);
            2
        }
    }
}
