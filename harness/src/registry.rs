//! Dispatch: property id -> check, replay of saved cases, child kinds.

use crate::fw::{Report, Stage};
use crate::props;
use serde_json::Value as J;

pub fn run(rep: &Report) -> bool {
    match rep.prop.as_str() {
        "C01" => props::c01::run(rep),
        "C02" => props::c02::run(rep),
        "C03" => props::c03::run(rep),
        "C04" => props::c04::run(rep),
        "C05" => props::c05::run(rep),
        "C06" => props::c06::run(rep),
        "C07" => props::c07::run(rep),
        "C10" => props::c10::run(rep),
        "C11" => props::c11::run(rep),
        "C12" => props::c12::run(rep),
        "C13" => props::c13::run(rep),
        "C14" => props::c14::run(rep),
        "C16" => props::c16::run(rep),
        "C17" => props::c17::run(rep),
        "C18" => props::c18::run(rep),
        "C19" => props::c19::run(rep),
        "C20" => props::c20::run(rep),
        _ => return false,
    }
    true
}

/// Replay one saved input through a stage. Known findings are NOT suppressed when
/// replaying (Report.strict is set by `replay`).
pub fn replay_stage<S: Stage>(rep: &Report, stage: &S, j: &J) -> i32 {
    match serde_json::from_value::<S::Input>(j["input"].clone()) {
        Ok(inp) => {
            let v = rep.run_one(stage, &inp);
            if v.is_some() {
                1
            } else {
                println!("replay: no violation");
                0
            }
        }
        Err(e) => {
            eprintln!("cannot decode replay input: {e}");
            2
        }
    }
}

pub fn replay(rep: &Report, path: &str) -> i32 {
    unsafe { std::env::set_var("VERIF_NO_EVIDENCE", "1") };
    let Ok(s) = std::fs::read_to_string(path) else {
        eprintln!("cannot read {path}");
        return 2;
    };
    let Ok(j) = serde_json::from_str::<J>(&s) else {
        eprintln!("cannot parse {path}");
        return 2;
    };
    let stage = j["stage"].as_str().unwrap_or("").to_string();
    match rep.prop.as_str() {
        "C01" => props::c01::replay(rep, &stage, &j),
        "C02" => props::c02::replay(rep, &stage, &j),
        "C03" => props::c03::replay(rep, &stage, &j),
        "C04" => props::c04::replay(rep, &stage, &j),
        "C05" => props::c05::replay(rep, &stage, &j),
        "C06" => props::c06::replay(rep, &stage, &j),
        "C07" => props::c07::replay(rep, &stage, &j),
        "C10" => props::c10::replay(rep, &stage, &j),
        "C11" => props::c11::replay(rep, &stage, &j),
        "C12" => props::c12::replay(rep, &stage, &j),
        "C13" => props::c13::replay(rep, &stage, &j),
        "C14" => props::c14::replay(rep, &stage, &j),
        "C16" => props::c16::replay(rep, &stage, &j),
        "C17" => props::c17::replay(rep, &stage, &j),
        "C18" => props::c18::replay(rep, &stage, &j),
        "C19" => props::c19::replay(rep, &stage, &j),
        "C20" => props::c20::replay(rep, &stage, &j),
        _ => {
            eprintln!("no replay handler for {}/{}", rep.prop, stage);
            2
        }
    }
}

/// `vcheck --child <kind>`: kinds are "<property>-<what>", handled by the property's module.
pub fn child_dispatch(kind: &str, payload: &J) -> Option<J> {
    if kind == "run-prog" {
        return crate::runner::child_run_prog(payload);
    }
    let prop = kind.split('-').next().unwrap_or("");
    match prop {
        "c05" => props::c05::child(kind, payload),
        "c16" => props::c16::child(kind, payload),
        "c17" => props::c17::child(kind, payload),
        "c19" => props::c19::child(kind, payload),
        _ => None,
    }
}
